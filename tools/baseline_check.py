"""Run the repository's pinned test suite and compare with BASELINE.json's
stable_pass list (used after every fix: commit; not a property check)."""
import json, subprocess, sys, tempfile, os, xml.etree.ElementTree as ET
base = json.load(open('/root/.vp/BASELINE.json'))
repo = sys.argv[1] if len(sys.argv) > 1 else '/repo'
with tempfile.TemporaryDirectory() as d:
    x = os.path.join(d, 'j.xml')
    subprocess.run(['/venv/bin/python', '-m', 'pytest', '-q', '-p', 'no:cacheprovider', '--timeout=900',
                    '--continue-on-collection-errors', '--junitxml=' + x], cwd=repo,
                   stdout=subprocess.DEVNULL, stderr=subprocess.DEVNULL)
    passed = set()
    for tc in ET.parse(x).getroot().iter('testcase'):
        if not any(c.tag in ('failure', 'error', 'skipped') for c in tc):
            passed.add('%s::%s' % (tc.get('classname'), tc.get('name')))
want = set(base['stable_pass'])
missing = sorted(want - passed)
print('passed=%d baseline=%d missing=%d' % (len(passed), len(want), len(missing)))
for m in missing[:20]:
    print('  MISSING', m)
sys.exit(1 if missing else 0)
