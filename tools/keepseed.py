"""Keep a confirmed seeded change:  keepseed.py <PROP> <k> [--rebased "<why>"]
Re-validates it (demo both ways, unedited suite, the property's check) in a scratch
worktree and writes /verif/seeded/<PROP>-<k>/{patch.diff,demo.py,note.md,meta.json}."""
import json, os, shutil, subprocess, sys
prop, k = sys.argv[1], sys.argv[2]
src = '/tmp/seed/%s-out' % prop
dst = '/verif/seeded/%s-%s' % (prop, k)
patch, demo, note = ('%s/%s%s%s' % (src, a, k, b) for a, b in (('mut', '.diff'), ('demo', '.py'), ('note', '.md')))
r = subprocess.run(['/venv/bin/python', '/verif/tools/seedtest.py', prop, patch, demo, '--suite'] +
                   (['--all-checks'] if '--all-checks' in sys.argv else []), capture_output=True, text=True)
res = json.loads(r.stdout)
ok = res.get('apply') == 0 and res.get('demo_clean') == 0 and res.get('demo_mut') not in (0, None) \
    and res.get('compiles') and 'missing=0' in res.get('suite', '')
print(json.dumps(res, indent=1))
if not ok:
    print('NOT KEPT: validation failed')
    sys.exit(1)
os.makedirs(dst, exist_ok=True)
shutil.copy(patch, dst + '/patch.diff'); shutil.copy(demo, dst + '/demo.py')
if os.path.exists(note):
    shutil.copy(note, dst + '/note.md')
caught = {p: v for p, v in res['checks'].items() if v['exit'] == 1}
meta = {
    'property': prop,
    'breaks': open(note).read().strip().splitlines()[:12] if os.path.exists(note) else [],
    'source': 'independent sub-agent given only the property text and its own scratch worktree',
    'rebased': sys.argv[sys.argv.index('--rebased') + 1] if '--rebased' in sys.argv else None,
    'validated_by_me': {
        'how': 'tools/seedtest.py in a scratch worktree of /repo HEAD: demo on clean tree, git apply, demo on changed tree, py_compile, unedited suite vs BASELINE stable_pass, then sa.check',
        'demo_exit_clean': res['demo_clean'], 'demo_exit_changed': res['demo_mut'],
        'suite_with_change': res['suite'], 'repo_head': subprocess.run(['git', '-C', '/repo', 'rev-parse', '--short', 'HEAD'], capture_output=True, text=True).stdout.strip(),
    },
    'check_result': res['checks'],
    'detected': bool(caught),
    'detected_by': {p: v['fails'] for p, v in caught.items()},
}
json.dump(meta, open(dst + '/meta.json', 'w'), indent=1)
print('KEPT %s detected=%s' % (dst, bool(caught)))
