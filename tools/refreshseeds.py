"""Re-run every kept change of /verif/seeded against the current checks and the current /repo HEAD and refresh the
`check_result` / `detected_by` fields of its meta.json (the rules were rewritten since many of them were kept).
A change whose demonstration no longer separates the clean tree from the changed tree, or that is no longer reported,
is listed at the end and the exit code is 1."""
import json, os, subprocess, sys
from concurrent.futures import ThreadPoolExecutor
V = '/verif'
ids = sys.argv[1:] or sorted(os.listdir(V + '/seeded'))

def one(i):
    d = '%s/seeded/%s' % (V, i)
    prop = i.split('-')[0]
    r = subprocess.run(['/venv/bin/python', V + '/tools/seedtest.py', prop, d + '/patch.diff', d + '/demo.py'], capture_output=True, text=True)
    try:
        res = json.loads(r.stdout)
    except Exception:
        return i, 'ERROR ' + (r.stdout + r.stderr)[-200:]
    meta = json.load(open(d + '/meta.json'))
    caught = {p: v for p, v in res['checks'].items() if v['exit'] == 1}
    meta['check_result'] = res['checks']
    meta['detected'] = bool(caught)
    meta['detected_by'] = {p: v['fails'] for p, v in caught.items()}
    meta['rechecked'] = {'repo_head': subprocess.run(['git', '-C', '/repo', 'rev-parse', '--short', 'HEAD'], capture_output=True, text=True).stdout.strip(),
                         'demo_exit_clean': res.get('demo_clean'), 'demo_exit_changed': res.get('demo_mut'), 'applies': res.get('apply') == 0}
    json.dump(meta, open(d + '/meta.json', 'w'), indent=1)
    ok = res.get('apply') == 0 and res.get('demo_clean') == 0 and res.get('demo_mut') not in (0, None) and caught
    return i, 'ok' if ok else 'PROBLEM %s' % json.dumps({k: res.get(k) for k in ('apply', 'demo_clean', 'demo_mut')})

bad = []
with ThreadPoolExecutor(max_workers=8) as ex:
    for i, st in ex.map(one, ids):
        if st != 'ok':
            bad.append((i, st))
print('%d changes rechecked, %d problems' % (len(ids), len(bad)))
for b in bad:
    print(*b)
sys.exit(1 if bad else 0)
