"""Developer tool: validate a seeded change and run a property check against it.

usage: seedtest.py <PROP> <patch.diff> <demo.py> [--suite] [--all-checks]
Uses a scratch copy of /repo HEAD under /tmp (removed afterwards)."""
import json, os, subprocess, sys, tempfile, shutil

def sh(cmd, **kw):
    return subprocess.run(cmd, shell=True, capture_output=True, text=True, **kw)

def main():
    prop, patch, demo = sys.argv[1:4]
    suite = '--suite' in sys.argv
    allc = '--all-checks' in sys.argv
    wt = tempfile.mkdtemp(prefix='mut-', dir='/tmp')
    # a scratch copy of the committed tree (no git worktree: many of these run side by side)
    r = sh('git -C /repo archive HEAD | tar -x -C %s' % wt)
    assert r.returncode == 0, r.stderr
    res = {'prop': prop, 'patch': patch}
    try:
        env = dict(os.environ, PYTHONPATH=wt)
        d0 = sh('timeout 120 /venv/bin/python %s' % demo, env=env, cwd='/tmp')
        res['demo_clean'] = d0.returncode
        a = sh('git apply %s' % patch, cwd=wt)
        res['apply'] = a.returncode
        if a.returncode != 0:
            res['apply_err'] = a.stderr[-300:]
        d1 = sh('timeout 120 /venv/bin/python %s' % demo, env=env, cwd='/tmp')
        res['demo_mut'] = d1.returncode
        pyfiles = sorted({l.split(' b/', 1)[1].strip() for l in open(patch) if l.startswith('diff --git ') and ' b/' in l and l.strip().endswith('.py')})
        if pyfiles:
            c = sh('timeout 600 /venv/bin/python -m py_compile ' + ' '.join('%s/%s' % (wt, f) for f in pyfiles))
            res['compiles'] = c.returncode == 0
        else:
            res['compiles'] = True      # template-only change
        if suite:
            t = sh('timeout 1500 /venv/bin/python /verif/tools/baseline_check.py %s' % wt, env=env)
            res['suite'] = t.stdout.strip().splitlines()[0] if t.stdout.strip() else t.stderr[-200:]
        props = [prop]
        if allc:
            props = [c['property_id'] for c in json.load(open('/verif/MANIFEST.json'))['checks']]
        res['checks'] = {}
        for p in props:
            k = sh('timeout 600 /venv/bin/python -m sa.check %s' % p, env=dict(os.environ, VERIF_REPO=wt, VERIF_SUBRUN='1', VERIF_SUBRUN_OUT=wt + '-out'), cwd='/verif')
            fails = [l for l in k.stdout.splitlines() if l.startswith('FAIL') or l.startswith('ANALYSIS-ERROR')]
            res['checks'][p] = {'exit': k.returncode, 'fails': fails[:6]}
    finally:
        shutil.rmtree(wt, ignore_errors=True)
        shutil.rmtree(wt + '-out', ignore_errors=True)
    print(json.dumps(res, indent=1))

main()
