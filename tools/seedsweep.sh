#!/bin/bash
# usage: seedsweep.sh C04 C05 ...  -> runs seedtest for every mut of each property in parallel
for P in "$@"; do
  for f in /tmp/seed/$P-out/mut*.diff; do
    k=$(basename $f .diff | sed 's/mut//')
    ( timeout 900 /venv/bin/python /verif/tools/seedtest.py $P $f /tmp/seed/$P-out/demo$k.py | /venv/bin/python -c "
import json,sys; r=json.load(sys.stdin); print('$P-$k', 'apply',r['apply'],'demo',r['demo_clean'],r['demo_mut'], {p:(v['exit'],[x.split('instance=')[-1][:70] for x in v['fails'][:2]]) for p,v in r['checks'].items()})" ) &
  done
done
wait
