#!/bin/bash
# usage: seedsweep.sh C04 C05 ...  -> runs seedtest for every kept change of each property (both rounds), in parallel
for P in "$@"; do
  for d in /verif/seeded/$P-*; do
    k=$(basename $d)
    ( timeout 900 /venv/bin/python /verif/tools/seedtest.py $P $d/patch.diff $d/demo.py | /venv/bin/python -c "
import json,sys; r=json.load(sys.stdin); print('$k', 'apply',r['apply'],'demo',r['demo_clean'],r['demo_mut'], {p:(v['exit'],[x.split('instance=')[-1][:70] for x in v['fails'][:2]]) for p,v in r['checks'].items()})" ) &
  done
done
wait
