#!/bin/bash
# usage: m2all.sh C04-m1 C05-m2 ...  -> runs all 20 checks against the given round-2 changes
for K in "$@"; do
  d=/verif/pending/$K; [ -d $d ] || d=/verif/seeded/$K
  ( timeout 2400 /venv/bin/python /verif/tools/seedtest.py ${K%%-*} $d/patch.diff $d/demo.py --all-checks | /venv/bin/python -c "
import json,sys; r=json.load(sys.stdin); print('$K', {p:(v['exit'],[x.split('instance=')[-1][:60] for x in v['fails'][:2]]) for p,v in r['checks'].items() if v['exit']})" ) &
done
wait
