#!/bin/bash
# usage: m2all.sh C04:1 C05:2 ...  -> runs all 20 checks against the given round-2 changes
for PK in "$@"; do
  P=${PK%%:*}; k=${PK##*:}
  ( timeout 2400 /venv/bin/python /verif/tools/seedtest.py $P /tmp/r2/m2-$P-out/mut$k.diff /tmp/r2/m2-$P-out/demo$k.py --all-checks | /venv/bin/python -c "
import json,sys; r=json.load(sys.stdin); print('$P-m$k', {p:(v['exit'],[x.split('instance=')[-1][:60] for x in v['fails'][:2]]) for p,v in r['checks'].items() if v['exit']})" ) &
done
wait
