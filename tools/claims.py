"""Claims table for MANIFEST.json (edited as checks are completed)."""
PENDING = 'check not implemented yet (build in progress); see DESIGN.md section 4'
NOT_APPLICABLE = {('C%02d' % i): PENDING for i in range(1, 21)}

CLAIMS = {
 'C01': {
  'text': 'Decides, for every path of the anchored code, the structural part of the property: the 16 category constants and the category->token-class table (each produced token class carries the category it is registered for); Context.whichCode is the total inverse of the category table and Context.catcode moves a character out of all 16 classes; the N/M/S transition relation of Tokenizer.__iter__ equals the TeXbook table cell by cell (3 states x 14 categories + escape followed by letter/other/space/eol/end-of-input, letter-ness decided by category code); the ^^ reader decodes only on a repeated character with c-64/c+64; no ord()/chr() on a raw read that may be empty (termination without raising). Holds for all inputs and catcode tables because the cells range over categories, not characters. Not decided: the concrete token stream of a concrete string.',
  'note': 'Trusted: CPython ast, the abstract interpreter (sa/absint.py), the oracle table written from TeXbook ch. 8 as worded by the property; get_let is summarised as identity (no \\let alias in force).',
  'technique': 'conditional constant propagation over (state x catcode x next-catcode) on the tokenizer ast, table folding, emptiness-dominance dataflow',
 },
 'C03': {
  'text': 'Decides the structural part of branch selection for every path of the anchored code: the branch index of processIfContent is provably in range (booleans 0/1 with the else padding; integer selectors dominated by a range test that redirects out-of-range selectors to the else case); the branch scanner table (token kind newif/if*/fi/else/or/other x nesting 0/>0 -> copied/new case/terminates, nesting +1/-1/0) and six whole-branch selections over token kinds; every conditional primitive (IfCommand/NewIf subclasses) calls processIfContent exactly once per normal path and returns no tokens; ifnum/ifdim relation characters select with the matching operator in first-read/second-read order, ifodd with % 2; the newif trio is registered globally and bound to one switch; the scanner recognition predicate (name prefix if) agrees with the class table of conditionals. Not decided: which branch a concrete program selects for concrete operand values.',
  'note': 'Trusted: CPython ast, sa/absint.py, the oracle tables from the TeXbook as worded by the property. Two known findings (ordinary macros ifthenelse, iflanguage counted as opening conditionals) are listed in known_findings.json.',
  'technique': 'conditional constant propagation over (token kind x nesting) on the branch scanner, bounded-index dataflow, per-path call counting, table extraction',
 },
}
