"""Claims table for MANIFEST.json.

The level text of a check is assembled by tools/mkmanifest.py from three parts: `scope` (what kind of verdict this is), the
rule texts that the check itself prints into its evidence file (so the manifest cannot drift from the code), and
`not_decided` (the part of the property that is out of reach and is NOT claimed)."""
NOT_APPLICABLE = {}

COMMON_SCOPE = ('Static analysis of the source of /repo (ast; nothing of plasTeX is imported or executed). Each rule below is a necessary '
                'condition of the property, decided either structurally for all paths of the anchored code (pairing, ownership, tables) or by '
                'abstract interpretation of the anchored functions on small finite scenario families (constant propagation with every input '
                'bound: token kinds, small DOM heaps, scripted streams/files); an outcome the interpretation cannot determine is exit 2, never '
                'a verdict. Decided: ')

CLAIMS = {
 'C01': {
  'not_decided': 'token streams of inputs and category tables outside the enumerated family (every state x category x following characters, the ^^ forms, line ends, comments, six other tables, a table changed between two tokens); non-ASCII input; \\let aliases.',
  'note': 'Trusted: CPython ast, sa/absint.py (incl. its lazy generator objects), the reference lexer in sa/props/c01.py written from the TeXbook ch. 8 rules as worded by the property, a model of io.StringIO. get_let is summarised as identity.',
  'technique': 'abstract interpretation of the tokenizer as written (constructor, character reader, state machine, push-back buffers) on scripted sources and concrete category tables, compared token by token with a reference lexer; table folding; copy-on-write on a context heap',
 },
 'C02': {
  'not_decided': 'equality of the processed text with an independent TeX evaluation for arbitrary programs (value-level; declined); only the parameter plumbing named in the rules is claimed.',
  'note': 'Trusted: CPython ast, sa/absint.py. One known finding (#{ parameter texts).',
  'technique': 'abstract interpretation of expandDef / Definition.invoke / NewCommand.invoke over token categories and small streams, insertion tables on a frame heap, ownership scan of invoke() results',
 },
 'C03': {
  'not_decided': 'which branch a concrete program selects beyond the bounded token sequences and operand samples of the rules.',
  'note': 'Trusted: CPython ast, sa/absint.py, oracle tables from the TeXbook as worded by the property. Two known findings (ordinary macros named if... counted as opening conditionals).',
  'technique': 'abstract interpretation of the branch scanner over token-name sequences, per-path call counting, relation/operand tables, class-table agreement',
 },
 'C04': {
  'not_decided': 'that a concrete document leaves the stack at depth 1.',
  'note': 'Trusted: CPython ast, sa/flow.py, sa/absint.py; the pairing table of push/pop functions is frozen from the reference tree with one reason per entry (private helpers and functions reached through dispatch tables are folded into their callers; a function that reaches the stack only through computed callees is interpreted with a recording context instead).',
  'technique': 'who-may-call table + structural counter dataflow (push/pop pairing) with interpretation on a recording context where the structure does not show the pairing (context managers, helpers, computed callees), copy-on-write and lookup chains on a small frame heap',
 },
 'C05': {
  'not_decided': 'the values bound for concrete invocations beyond the scanner/token-kind tables and number samples of the rules.',
  'note': 'Trusted: CPython ast, sa/absint.py, TeX unit constants and the TeXbook integer syntax in the checker.',
  'technique': 'path-sensitive balance dataflow, cross-module signature/argtype table agreement, abstract interpretation of the scanners on token streams and concrete numerals',
 },
 'C06': {
  'not_decided': 'agreement of all derived views with a list model for every history of edits (the rules decide each editing method on small heaps, including equal-but-distinct siblings, not every sequence).',
  'note': 'Trusted: CPython ast, sa/absint.py heap mode.',
  'technique': 'ownership scan (who may mutate the child list) and abstract interpretation of every tree-editing method on small DOM heaps compared with a plain list model',
 },
 'C07': {
  'not_decided': 'word order and multiplicity for concrete documents.',
  'note': 'Trusted: CPython ast, sa/absint.py. Two known findings (substitutions inside math arrays and ensuremath).',
  'technique': 'per-iteration path enumeration with event counting (token linearity, generator helpers and their consuming loops included), level tables by constant propagation, paragraph regrouping, normalisation with substitutions and row deletion on DOM heaps',
 },
 'C08': {
  'not_decided': 'the numbers of a whole generated document.',
  'note': 'Trusted: CPython ast, sa/absint.py, the LaTeX counter declarations of book/article as encoded in the checker.',
  'technique': 'class set-up interpreted on a recording heap (reset tree), counter protocol on small heaps, constant folding of the pure representation functions over their domain',
 },
 'C09': {
  'not_decided': 'identity of the resolved object for all documents and orders beyond the call sequences of the rules.',
  'note': 'Trusted: CPython ast, sa/absint.py.',
  'technique': 'abstract interpretation of Context.label / Context.ref call sequences on a small heap, who-may-write scan, per-instance-state check',
 },
 'C10': {
  'not_decided': 'contents and borders of concrete generated tables beyond the scenario families of the rules.',
  'note': 'Trusted: CPython ast, sa/absint.py, sa/flow.py.',
  'technique': 'push/pop counter dataflow; abstract interpretation of the table and list methods on DOM heaps and token streams (phantoms, digestion, spans, rule scans, column specification)',
 },
 'C11': {
  'not_decided': 'token-for-token equality of the reconstructed math source with the formula for every formula (composition over arbitrary trees).',
  'note': 'Trusted: CPython ast, sa/absint.py, sa/flow.py. Two known findings (substitutions inside math arrays and ensuremath change the math source). The list of LaTeX text boxes is a frozen table confirmed on the reference tree.',
  'technique': 'abstract interpretation of the verbatim and \\verb scanners on scripted character streams, of the source properties and of normalize() on DOM heaps, and of the box parsers on a scripted math-shift tracker',
 },
 'C12': {
  'not_decided': 'the decoded text of whole rendered pages; regex-level reasoning about the image-attribute post-processing.',
  'note': 'Trusted: CPython ast, jinja2 parser (from the repository environment), html.parser, the context tracker in sa/templates.py. Typed string arguments (url, names) and ids are not text positions of this property. Two templates that do not parse as jinja2 are in a frozen skip table.',
  'technique': 'template context analysis (jinja2 AST + HTML tokenizer state) with source/sanitiser/sink classification; abstract interpretation of the escaping hook, the render recursion (scripted renderer), the ZPT engine writers and the high-character escaping',
 },
 'C13': {
  'not_decided': 'the partition of body text over files for every split level and template.',
  'note': 'Trusted: CPython ast, sa/absint.py, sa/flow.py. The uniqueness clause reuses the C15 generator rules.',
  'technique': 'abstract interpretation of the render recursion, the file-name property, cacheFilenames, the split-level detection and the footnote owner on small heaps with a scripted renderer, file system and name generator; Renderer.render interpreted end to end as an event list (mix-in, names, rendering, saving of labels, removal); forbidden-call scan',
 },
 'C14': {
  'not_decided': 'that every link of a concrete output lands on an existing target.',
  'note': 'Trusted: CPython ast, jinja2 parser, html.parser, sa/templates.py. Link-target kinds that only exist in packages are listed in the evidence notes, not armed. One known finding (eqnarray rows in HTML5).',
  'technique': 'cross-module table agreement (labelable classes from the model vs id-emitting templates), abstract interpretation of url composition and of the name generator',
 },
 'C15': {
  'not_decided': 'uniqueness over unbounded request histories (decided for the scripted request sequences of the rule, which include exhaustion and static-name reuse).',
  'note': 'Trusted: CPython ast, sa/absint.py (generator interpretation).',
  'technique': 'abstract interpretation of the generator against scripted request sequences; parse/extension functions on concrete strings',
 },
 'C16': {
  'not_decided': 'the value x source product for arbitrary configurations (decided per option on representative values and one end-to-end layering).',
  'note': 'Trusted: CPython ast, sa/absint.py; a small model of argparse (store, store_true/false, append, nargs, type) and of configparser (sections, items, optionxform) in the checker.',
  'technique': 'the configuration object is built by abstract interpretation of defaultConfig/addConfig on a heap; conversions, registration/read-back, interpolation, file reading and layering are interpreted on it',
 },
 'C17': {
  'not_decided': 'equality of trees and files for concrete document sequences.',
  'note': 'Trusted: CPython ast, sa/effects.py resolves class references through the static model (also through locals and loop variables bound to classes, and rows of constant tables). 11 known findings (register values, List.depth, MathShift.inEnv, article/natbib class patching, defcitealias aliases).',
  'technique': 'whole-package effect/ownership scan with allow-table keyed by the state cell written, path-sensitive balance, abstract interpretation of the paired writes (class attributes followed by value; Renderer.render, the box parsers and the $ handler on scripted trackers)',
 },
 'C18': {
  'not_decided': 'collation order of arbitrary key multisets (delegated to pyuca / str.lower) and balance of the column split.',
  'note': 'Trusted: CPython ast, sa/absint.py, jinja2 parser, the reference reader of the makeindex syntax and the small jinja2/TAL interpreters in the checker (sa/tplinterp.py).',
  'technique': 'bounded exhaustive abstract interpretation of the entry parser over token kinds; merge, groups, columns and key text on DOM heaps; the index templates interpreted on a scripted index node',
 },
 'C19': {
  'not_decided': 'evaluation of macro-produced operands and lengths in mixed units; expressions beyond the generated families.',
  'note': 'Trusted: CPython ast, sa/absint.py, the reference evaluator in the checker (not tightest, and/or equal precedence left to right, parentheses, number relations) written from the property text.',
  'technique': 'abstract interpretation of the evaluator on generated token sequences against a reference evaluator; branch selection, loop rounds and atoms interpreted with scripted expansions',
 },
 'C20': {
  'not_decided': 'each individual truncation point or bit flip of a saved file (subsumed by the envelope rule) and equality of concrete restored label sets.',
  'note': 'Trusted: CPython ast, sa/absint.py with precise exception edges; relies on `except Exception` catching every error an unpickler can raise.',
  'technique': 'abstract interpretation of persist / restore / the xr reader against a scripted file system (each failure kind injected), attribute round trip on heap objects; Renderer.render and Compile.parse interpreted for the file name, the renderer key and the moment of saving',
 },
}
