#!/bin/bash
# usage: m2sweep.sh C04 C05 ...  -> validates round-2 changes in /tmp/r2/m2-<P>-out against the check of <P> (with the suite)
for P in "$@"; do
  for f in /tmp/r2/m2-$P-out/mut*.diff; do
    k=$(basename $f .diff | sed 's/mut//')
    ( timeout 2400 /venv/bin/python /verif/tools/seedtest.py $P $f /tmp/r2/m2-$P-out/demo$k.py --suite | /venv/bin/python -c "
import json,sys; r=json.load(sys.stdin); print('$P-m$k', 'apply',r['apply'],'demo',r['demo_clean'],r['demo_mut'], 'suite', r.get('suite'), {p:(v['exit'],[x.split('instance=')[-1][:70] for x in v['fails'][:2]]) for p,v in r['checks'].items()})" ) &
  done
done
wait
