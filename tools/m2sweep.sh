#!/bin/bash
# usage: m2sweep.sh [--suite] C04 C05 ...  -> runs the check of <P> against the round-2 changes kept in /verif/pending/<P>-m<k>
SUITE=""; if [ "$1" == "--suite" ]; then SUITE="--suite"; shift; fi
for P in "$@"; do
  for d in /verif/pending/$P-m* /verif/seeded/$P-m*; do
    [ -f $d/patch.diff ] || continue
    k=$(basename $d)
    ( timeout 2400 /venv/bin/python /verif/tools/seedtest.py $P $d/patch.diff $d/demo.py $SUITE | /venv/bin/python -c "
import json,sys; r=json.load(sys.stdin); print('$k', 'apply',r['apply'],'demo',r['demo_clean'],r['demo_mut'], r.get('suite',''), {p:(v['exit'],[x.split('instance=')[-1][:70] for x in v['fails'][:2]]) for p,v in r['checks'].items()})" ) &
  done
done
wait
