"""Regenerate /verif/MANIFEST.json from the table below (keeps it schema-valid)."""
import json, os
V = os.path.dirname(os.path.dirname(os.path.abspath(__file__)))

CLAIMS = {
 # id: (level text, level note, technique, design ref)
}

def load_claims():
    import importlib.util
    p = os.path.join(V, 'tools', 'claims.py')
    spec = importlib.util.spec_from_file_location('claims', p)
    mod = importlib.util.module_from_spec(spec); spec.loader.exec_module(mod)
    return mod.CLAIMS, mod.NOT_APPLICABLE, mod.COMMON_SCOPE


def rules_of(pid):
    """the rule texts as the check itself wrote them into its evidence file"""
    ev = json.load(open(os.path.join(V, 'evidence', '%s.json' % pid)))
    ex = ev['coverage']['explanation']
    return ex.split('): ', 1)[1] if '): ' in ex else ex

def main():
    claims, na, scope = load_claims()
    checks = []
    for pid in sorted(claims):
        c = claims[pid]
        checks.append({
            'property_id': pid,
            'quick_cmd': '/venv/bin/python -m sa.check %s --tier quick' % pid,
            'thorough_cmd': '/venv/bin/python -m sa.check %s --tier thorough' % pid,
            'evidence_file': 'evidence/%s.json' % pid,
            'replay_cmd_template': 'cat {path}',
            'engine': 'sa',
            'level_claimed': {'category': 'other', 'text': scope + rules_of(pid) + '. NOT decided: ' + c['not_decided'],
                              'design_ref': 'DESIGN.md section 12 (as rebuilt) and section 4, %s' % pid},
            'level_note': c['note'],
            'technique': c['technique'],
        })
    m = {
        'version': 1,
        'setup_cmd': '/venv/bin/python -m compileall -q sa selftest tools',
        'hooks': {
            'guard': 'PLASTEX_VERIF',
            'enable': 'none needed: every check is a static analysis of the working tree of /repo; the guard guards nothing',
            'baseline_off_cmd': 'cd /repo && /venv/bin/python -m pytest -ra -q -p no:cacheprovider --timeout=900 --continue-on-collection-errors',
            'source_commits': [],
            'add_only': True,
        },
        'engines': [{
            'name': 'sa', 'path': 'sa/',
            'serves_properties': sorted(claims),
            'kind_free_text': 'repository-specific static analysis: ast-based repository model (imports, static C3 MRO, constant folding), path-sensitive abstract interpretation with a small heap (constant propagation over finite scenario families; unknown outcomes are exit 2), structural dataflow, effect and ownership scans, jinja2/ZPT template context analysis and template interpretation; no execution of plasTeX',
        }],
        'checks': checks,
        'not_applicable': [{'property_id': k, 'reason': v} for k, v in sorted(na.items()) if k not in claims],
        'notes': 'Exit 0 = all rule instances hold (KNOWN-FINDING lines allowed), 1 = VIOLATION, 2 = ANALYSIS-ERROR (checker could not analyse; never a silent pass). Known findings: known_findings.json. Each check decides the structural clauses named in its level text, not the runtime behaviour as a whole (DESIGN.md sections 4 and 5).',
    }
    json.dump(m, open(os.path.join(V, 'MANIFEST.json'), 'w'), indent=1)
    print('MANIFEST: %d checks, %d not_applicable' % (len(checks), len(m['not_applicable'])))

main()
