#!/bin/bash
# runs the thorough tier of all 20 checks, 5 at a time; prints exit code and the last line of each
cd /verif
run() { p=$1; out=$(timeout 3000 /venv/bin/python -m sa.check $p --tier thorough 2>&1); echo "rc=$? $(echo "$out" | tail -1 | cut -c1-200)"; }
export -f run
printf 'C%02d\n' $(seq 1 20) | xargs -P 5 -I{} bash -c 'run {}'
