"""Developer tool: run checks against every behaviour-preserving refactoring in /verif/benign.
usage: benignsweep.py [--props C01,C04] [--only C01-1,C02-3] [--out file]
Prints one line per (patch, check) that does not exit 0 and a scoreboard."""
import glob, json, os, shutil, subprocess, sys, tempfile
from concurrent.futures import ThreadPoolExecutor

args = sys.argv[1:]
def opt(name, default=None):
    return args[args.index(name) + 1] if name in args else default
allprops = [c['property_id'] for c in json.load(open('/verif/MANIFEST.json'))['checks']]
props = opt('--props').split(',') if opt('--props') else allprops
home = opt('--home', '/verif')      # where the checker code is taken from (a frozen copy keeps a long sweep consistent)
only = set(opt('--only').split(',')) if opt('--only') else None
patches = sorted(d for d in glob.glob('/verif/benign/*/') if only is None or os.path.basename(d.rstrip('/')) in only)

def one(d):
    name = os.path.basename(d.rstrip('/'))
    tmp = tempfile.mkdtemp(prefix='benign-')
    out = []
    try:
        shutil.copytree('/repo/plasTeX', tmp + '/plasTeX', ignore=shutil.ignore_patterns('__pycache__'))
        a = subprocess.run(['git', 'apply', '--whitespace=nowarn', d + 'patch.diff'], cwd=tmp, capture_output=True, text=True)
        if a.returncode != 0:
            return [(name, '*', 'STALE', a.stderr.strip()[:100])]
        for p in props:
            env = dict(os.environ, VERIF_REPO=tmp, VERIF_SUBRUN='1', VERIF_SUBRUN_OUT=tmp + '/out')
            try:
                r = subprocess.run(['/venv/bin/python', '-m', 'sa.check', p], cwd=home, env=env, capture_output=True, text=True, timeout=900)
            except subprocess.TimeoutExpired:
                out.append((name, p, 'ANALYSIS-ERROR', 'timeout after 900 s'))
                continue
            if r.returncode != 0:
                lines = [l for l in r.stdout.splitlines() if l.startswith(('FAIL', 'ANALYSIS-ERROR'))]
                out.append((name, p, 'VIOLATION' if r.returncode == 1 else 'ANALYSIS-ERROR',
                            ' | '.join((l.split('instance=')[-1] if 'instance=' in l else l.replace('ANALYSIS-ERROR property=%s ' % p, ''))[:90] for l in lines[:3])))
    finally:
        shutil.rmtree(tmp, ignore_errors=True)
    return out

with ThreadPoolExecutor(14) as ex:
    results = [x for r in ex.map(one, patches) for x in r]
viol = [r for r in results if r[2] == 'VIOLATION']
err = [r for r in results if r[2] == 'ANALYSIS-ERROR']
for r in sorted(results):
    print('%-8s %-4s %-14s %s' % r)
print('patches=%d checks=%d  false VIOLATIONs=%d  ANALYSIS-ERRORs=%d' % (len(patches), len(props), len(viol), len(err)))
by = {}
for r in results:
    by.setdefault(r[1], [0, 0])[0 if r[2] == 'VIOLATION' else 1] += 1
print('per check (violations, analysis-errors):', dict(sorted(by.items())))
if opt('--out'):
    json.dump(results, open(opt('--out'), 'w'), indent=1)
