"""Developer probe (not a check): render a .tex file with the plastex CLI entry point."""
import sys
from plasTeX.client import main
main(sys.argv[1:])
