"""Keep validated round-2 changes:  keeppending.py [ID ...]   (default: every directory of /verif/pending)
Re-validates each change (demo on the clean tree and on the changed tree, py_compile, the unedited suite against the
baseline, the property's own check) in a scratch worktree of /repo HEAD and, when it is a confirmed breaking change that
the check reports, moves it to /verif/seeded/<ID>/ with a meta.json.  Changes that no longer break anything (their demo
passes on the changed tree) are reported and left in pending/."""
import json, os, shutil, subprocess, sys
from concurrent.futures import ThreadPoolExecutor
V = '/verif'
ids = sys.argv[1:] or sorted(d for d in os.listdir(V + '/pending') if os.path.isdir(V + '/pending/' + d))

def one(i):
    src = '%s/pending/%s' % (V, i)
    prop = i.split('-')[0]
    r = subprocess.run(['/venv/bin/python', V + '/tools/seedtest.py', prop, src + '/patch.diff', src + '/demo.py', '--suite'], capture_output=True, text=True)
    try:
        res = json.loads(r.stdout)
    except Exception:
        return i, 'ERROR', r.stdout[-300:] + r.stderr[-300:]
    ok = res.get('apply') == 0 and res.get('demo_clean') == 0 and res.get('demo_mut') not in (0, None) and res.get('compiles') and 'missing=0' in res.get('suite', '')
    caught = {p: v for p, v in res['checks'].items() if v['exit'] == 1}
    if not ok:
        return i, 'NOT-A-BREAKING-CHANGE', json.dumps({k: res.get(k) for k in ('apply', 'demo_clean', 'demo_mut', 'compiles', 'suite')})
    if not caught:
        return i, 'NOT-DETECTED', json.dumps(res['checks'])[:300]
    dst = '%s/seeded/%s' % (V, i)
    os.makedirs(dst, exist_ok=True)
    for f in ('patch.diff', 'demo.py', 'note.md'):
        if os.path.exists(src + '/' + f):
            shutil.copy(src + '/' + f, dst + '/' + f)
    note = open(src + '/note.md').read().strip().splitlines()[:12] if os.path.exists(src + '/note.md') else []
    meta = {'property': prop, 'round': 4 if '-p' in i else (3 if '-n' in i else 2), 'breaks': note,
            'source': 'independent sub-agent given only the property text and its own scratch worktree (later round, after the checks were hardened)',
            'rebased': None,
            'validated_by_me': {'how': 'tools/seedtest.py in a scratch worktree of /repo HEAD: demo on clean tree, git apply, demo on changed tree, py_compile, '
                                       'unedited suite vs BASELINE stable_pass, then sa.check',
                                'demo_exit_clean': res['demo_clean'], 'demo_exit_changed': res['demo_mut'], 'suite_with_change': res['suite'],
                                'repo_head': subprocess.run(['git', '-C', '/repo', 'rev-parse', '--short', 'HEAD'], capture_output=True, text=True).stdout.strip()},
            'check_result': res['checks'], 'detected': True, 'detected_by': {p: v['fails'] for p, v in caught.items()}}
    json.dump(meta, open(dst + '/meta.json', 'w'), indent=1)
    shutil.rmtree(src)
    return i, 'KEPT', ''

with ThreadPoolExecutor(max_workers=10) as ex:
    for i, st, detail in ex.map(one, ids):
        print(i, st, detail, flush=True)
