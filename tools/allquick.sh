#!/bin/bash
# runs the 20 quick checks in parallel against /repo (or $VERIF_REPO); prints one summary line per check
cd /verif
for i in 01 02 03 04 05 06 07 08 09 10 11 12 13 14 15 16 17 18 19 20; do
  ( out=$(/venv/bin/python -m sa.check C$i 2>&1); rc=$?; echo "rc=$rc $(echo "$out" | tail -1 | cut -c1-160)" ) &
done
wait
