"""Developer tool: take the refactorings written by the third round of sub-agents (/tmp/r4/rf3-<ID>-out/ref<k>.diff, same<k>.py,
note<k>.md) into /verif/benign/<ID>-<8+k>/ when the patch applies to the current /repo tree.  usage: addbenign3.py C01 C02 ..."""
import os, shutil, subprocess, sys, tempfile
for pid in sys.argv[1:]:
    src = '/tmp/r4/rf3-%s-out' % pid
    for k in range(1, 5):
        diff = os.path.join(src, 'ref%d.diff' % k)
        if not os.path.exists(diff):
            print(pid, k, 'missing')
            continue
        tmp = tempfile.mkdtemp(prefix='ab-')
        try:
            shutil.copytree('/repo/plasTeX', tmp + '/plasTeX', ignore=shutil.ignore_patterns('__pycache__'))
            r = subprocess.run(['git', 'apply', '--whitespace=nowarn', diff], cwd=tmp, capture_output=True, text=True)
            if r.returncode != 0:
                print(pid, k, 'does not apply:', r.stderr.strip()[:120])
                continue
            c = subprocess.run(['/venv/bin/python', '-m', 'compileall', '-q', tmp + '/plasTeX'], capture_output=True, text=True)
            if c.returncode != 0:
                print(pid, k, 'does not compile')
                continue
        finally:
            shutil.rmtree(tmp, ignore_errors=True)
        dst = '/verif/benign/%s-%d' % (pid, 8 + k)
        os.makedirs(dst, exist_ok=True)
        shutil.copy(diff, dst + '/patch.diff')
        for a, b in (('same%d.py' % k, 'same.py'), ('note%d.md' % k, 'note.md')):
            if os.path.exists(os.path.join(src, a)):
                shutil.copy(os.path.join(src, a), os.path.join(dst, b))
        print(pid, k, '->', dst)
