"""Developer tool: run every registered check against a behaviour-preserving refactoring.
usage: reftest.py <patch.diff> <same.py> [PROP ...]   (default: all checks)
Validates the refactoring (digest identical on clean and refactored tree), then reports any
check that does not exit 0 (a VIOLATION on behaviour-preserving code is a false alarm)."""
import json, os, subprocess, sys, tempfile, shutil
from concurrent.futures import ThreadPoolExecutor

def sh(cmd, **kw):
    return subprocess.run(cmd, shell=True, capture_output=True, text=True, **kw)

def main():
    patch, same = sys.argv[1:3]
    props = sys.argv[3:] or [c['property_id'] for c in json.load(open('/verif/MANIFEST.json'))['checks']]
    wt = tempfile.mkdtemp(prefix='ref-', dir='/tmp'); os.rmdir(wt)
    assert sh('git -C /repo worktree add -q --detach %s HEAD' % wt).returncode == 0
    res = {'patch': patch}
    try:
        env = dict(os.environ, PYTHONPATH=wt)
        d0 = sh('timeout 180 /venv/bin/python %s' % same, env=env, cwd='/tmp')
        a = sh('git -C %s apply %s' % (wt, patch))
        res['apply'] = a.returncode
        d1 = sh('timeout 180 /venv/bin/python %s' % same, env=env, cwd='/tmp')
        res['digest_same'] = (d0.returncode == 0 and d1.returncode == 0 and d0.stdout == d1.stdout)
        def run(p):
            k = sh('timeout 600 /venv/bin/python -m sa.check %s' % p, env=dict(os.environ, VERIF_REPO=wt), cwd='/verif')
            return p, k.returncode, [l for l in k.stdout.splitlines() if l.startswith(('FAIL', 'ANALYSIS-ERROR'))][:4]
        with ThreadPoolExecutor(8) as ex:
            out = list(ex.map(run, props))
        res['alarms'] = {p: {'exit': rc, 'lines': ls} for p, rc, ls in out if rc != 0}
    finally:
        sh('git -C /repo worktree remove --force %s' % wt); shutil.rmtree(wt, ignore_errors=True)
    print(json.dumps(res, indent=1))
main()
