"""Maintain known_findings.json:  kf.py <property> <rule> <status> <commit|-> <key> <what>"""
import json, sys, os
p = os.path.join(os.path.dirname(os.path.dirname(os.path.abspath(__file__))), 'known_findings.json')
d = json.load(open(p))
prop, rule, status, commit, key, what = sys.argv[1:7]
e = {'property': prop, 'rule': rule, 'key': key, 'status': status}
if commit != '-':
    e['commit'] = commit
if status == 'fixed':
    what = 'fixed: property=%s %s %s' % (prop, commit, what)
e['what'] = what
d['findings'] = [x for x in d['findings'] if not (x['property'] == prop and x['rule'] == rule and x['key'] == key)] + [e]
json.dump(d, open(p, 'w'), indent=1)
print('ok', len(d['findings']))
