#!/bin/bash
# usage: refsweep.sh C01 C02 ...   -> every ref*.diff of the property's refactor agent against ALL checks
for P in "$@"; do
  for f in /tmp/r2/rf-$P-out/ref*.diff; do
    [ -f "$f" ] || continue
    k=$(basename $f .diff | sed 's/ref//')
    timeout 1500 /venv/bin/python /verif/tools/reftest.py $f /tmp/r2/rf-$P-out/same$k.py | /venv/bin/python -c "
import json,sys; r=json.load(sys.stdin); print('$P-ref$k', 'apply',r['apply'],'same',r.get('digest_same'), {p:(v['exit'],[x.split('instance=')[-1][:80] if 'instance=' in x else x[:100] for x in v['lines'][:2]]) for p,v in r.get('alarms',{}).items()})"
  done
done
