"""Collect the fourth-round breaking changes ("a clean-up that is subtly not equivalent") from the sub-agents' output directories
into /verif/pending/<ID>-p<k>/ (patch.diff, demo.py, note.md).  usage: addpending4.py C01 C02 ..."""
import os, shutil, sys
for P in sys.argv[1:]:
    src = '/tmp/r5/m4-%s-out' % P
    for k in (1, 2, 3):
        if not all(os.path.exists('%s/%s%d.%s' % (src, a, k, e)) for a, e in (('mut', 'diff'), ('demo', 'py'))):
            continue
        dst = '/verif/pending/%s-p%d' % (P, k)
        os.makedirs(dst, exist_ok=True)
        shutil.copy('%s/mut%d.diff' % (src, k), dst + '/patch.diff')
        shutil.copy('%s/demo%d.py' % (src, k), dst + '/demo.py')
        if os.path.exists('%s/note%d.md' % (src, k)):
            shutil.copy('%s/note%d.md' % (src, k), dst + '/note.md')
        print(P, k, '->', dst)
