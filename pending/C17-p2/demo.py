r"""
C17 demo: the result of a document must not depend on the documents that
were processed before it, and the argument-scanning switch of the parameters
(ParameterCommand.enabled / ParameterCommand._enablelevel) must be back at
its initial value once a document has been processed.

Document A opens an output stream with \openout (its file name is read with
the `any' argument type).  Document B uses length registers as arguments
(\begin{minipage}{\textwidth}, \hspace{\parindent}).
B is processed alone, then A, then B again: both results of B must agree.
"""
import logging
import re

from plasTeX import TeXDocument, ParameterCommand
from plasTeX.TeX import TeX

logging.disable(logging.CRITICAL)

A = r'''\documentclass{article}
\newwrite\notesfile
\begin{document}
\immediate\openout\notesfile=notes.tmp
Some text.
\end{document}
'''

B = r'''\documentclass{article}
\begin{document}
Left\hspace{\parindent}right.

\begin{minipage}{\textwidth}
Full width.
\end{minipage}
\end{document}
'''


def process(source):
    doc = TeXDocument()
    tex = TeX(doc)
    tex.input(source)
    tex.parse()
    # generated identifiers do not matter
    return re.sub(r'\ba\d{10}\b', 'ID', doc.toXML())


def switch():
    return ParameterCommand.enabled, ParameterCommand._enablelevel


def lengths(xml):
    return re.findall(r'<plastex:arg name="(?:len|width)">([^<]*)<', xml)


initial = switch()
assert initial == (True, 0), initial

alone = process(B)
assert switch() == initial, 'B alone moved the switch: %r' % (switch(),)

process(A)
afterA = switch()
after = process(B)

assert after == alone, \
    'document B depends on history: alone its lengths are %r, after A they are %r' % (
        lengths(alone), lengths(after))
assert afterA == initial, \
    'parameter switch not back at its initial value after document A: %r' % (afterA,)
print('ok')
