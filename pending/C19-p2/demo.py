"""\\whiledo must run its body exactly as often as the test holds.

The body steps counters; their values after the loop tell how often the body
was really processed.  Exits 0 when all loops ran the right number of times.
"""
import logging
import os
import shutil
import tempfile

logging.disable(logging.CRITICAL)


def render(body):
    from plasTeX.TeX import TeX
    from plasTeX import TeXDocument
    doc = TeXDocument()
    tex = TeX(doc)
    tex.disableLogging()
    tex.input('\\documentclass{article}\\usepackage{ifthen}'
              '\\begin{document}' + body + '\\end{document}')
    tex.parse()
    return doc.getElementsByTagName('document')[0].textContent.strip()


LOOP = (r'\newcounter{i}\newcounter{runs}\setcounter{i}{%d}'
        r'\whiledo{\value{i}<%d}{x\stepcounter{i}\stepcounter{runs}}'
        r'[i=\arabic{i},runs=\arabic{runs}]')


def main():
    failures = []
    for start, limit in [(0, 3), (2, 3), (5, 3), (3, 3), (0, 6), (-2, 0)]:
        n = max(0, limit - start)
        want = 'x' * n + '[i=%d,runs=%d]' % (start + n, n)
        out = render(LOOP % (start, limit))
        if out != want:
            failures.append('i from %d while i<%d: expected %r, got %r'
                            % (start, limit, want, out))
    assert not failures, ('\\whiledo did not run its body exactly as often as '
                          'the test held:\n  ' + '\n  '.join(failures))
    print('ok: all loops ran the expected number of times')


if __name__ == '__main__':
    workdir = tempfile.mkdtemp(prefix='ifthen-demo-')
    old = os.getcwd()
    os.chdir(workdir)
    try:
        main()
    finally:
        os.chdir(old)
        shutil.rmtree(workdir, ignore_errors=True)
