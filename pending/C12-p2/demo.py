"""C12 demo 2: angle brackets in ordinary document text (running text, title,
list item, table cell, footnote, caption, verbatim) must be *displayed* as
those very characters: decoding the HTML gives back "<" and ">", not "&lt;".

Exit 0 when the property holds, AssertionError otherwise."""
import glob, importlib, os, shutil, sys, tempfile
from html.parser import HTMLParser

SRC = r'''\documentclass{article}
\begin{document}
\section{Title a<b>c}
Running x<y>z text\footnote{Foot f<g>h}.
\begin{itemize}\item Item i<j>k\end{itemize}
\begin{tabular}{l} Cell m<n>o \\ \end{tabular}
\begin{figure}\caption{Caption p<q>r}\end{figure}
\begin{verbatim}
Verb <tt>&amp;</tt>
\end{verbatim}
\end{document}
'''

EXPECT = ['Title a<b>c', 'Running x<y>z text', 'Foot f<g>h', 'Item i<j>k',
          'Cell m<n>o', 'Caption p<q>r', 'Verb <tt>&amp;</tt>']


class Collect(HTMLParser):
    def __init__(self):
        super().__init__(convert_charrefs=True)
        self.tags, self.text = set(), []

    def handle_starttag(self, tag, attrs):
        self.tags.add(tag)

    def handle_data(self, data):
        self.text.append(data)


def render(renderer):
    from plasTeX import TeXDocument
    from plasTeX.Config import defaultConfig
    from plasTeX.TeX import TeX
    tmp = tempfile.mkdtemp(prefix='c12demo2-')
    cwd = os.getcwd()
    try:
        os.chdir(tmp)
        config = defaultConfig()
        config['general']['renderer'] = renderer
        config['files']['split-level'] = -100
        config['images']['imager'] = 'none'
        config['images']['vector-imager'] = 'none'
        doc = TeXDocument(config=config)
        doc.userdata['jobname'] = 'demo'
        doc.userdata['working-dir'] = tmp
        tex = TeX(doc)
        tex.input(SRC)
        tex.parse()
        importlib.import_module('plasTeX.Renderers.' + renderer).Renderer().render(doc)
        out = ''
        for f in sorted(glob.glob(os.path.join(tmp, '*.html'))):
            with open(f, encoding='utf-8') as fd:
                out += fd.read()
        return out
    finally:
        os.chdir(cwd)
        shutil.rmtree(tmp, ignore_errors=True)


def main():
    import logging
    logging.disable(logging.CRITICAL)
    for renderer in ('HTML5', 'XHTML'):
        page = render(renderer)
        p = Collect()
        p.feed(page)
        p.close()
        shown = ' '.join(''.join(p.text).split())
        assert 'tt' not in p.tags, '%s: verbatim text became markup' % renderer
        for want in EXPECT:
            assert want in shown, \
                '%s: the browser does not display %r; page text is %r' % (
                    renderer, want, shown[-330:])
    print('ok: angle brackets in text are displayed as themselves')


if __name__ == '__main__':
    main()
