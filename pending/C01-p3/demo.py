"""
C01 / change 3: a character gets the category that is in force when the
tokenizer turns it into a token.

To find the end of a control word the tokenizer has to look one character
ahead.  That character is not a token yet: if the control word changes the
category codes (\\makeatletter, \\catcode, verbatim-like macros), the
character after it must be tokenized under the NEW codes, as in TeX.
"""
from plasTeX.TeX import TeX
from plasTeX.Tokenizer import Token

ESC, LET, OTH, SPC = (Token.CC_ESCAPE, Token.CC_LETTER, Token.CC_OTHER,
                      Token.CC_SPACE)

# 1. token stream, category codes changed between two tokens
tex = TeX()
tex.input('\\foo@bar x')
tokens = tex.itertokens()
first = next(tokens)
assert (first.catcode, str(first)) == (ESC, 'foo'), first
tex.ownerDocument.context.catcode('@', Token.CC_LETTER)
got = [(t.catcode, str(t)) for t in tokens]
expected = [(LET, '@'), (LET, 'b'), (LET, 'a'), (LET, 'r'), (SPC, ' '), (LET, 'x')]
assert got == expected, (
    "after \\foo, with @ made a letter: expected %r, got %r" % (expected, got))

# 2. the same with a character that stops being a comment character
tex = TeX()
tex.input('\\foo%bar\nx')
tokens = tex.itertokens()
next(tokens)
tex.ownerDocument.context.catcode('%', Token.CC_OTHER)
got = [(t.catcode, str(t)) for t in tokens]
expected = [(OTH, '%'), (LET, 'b'), (LET, 'a'), (LET, 'r'), (SPC, ' '), (LET, 'x')]
assert got == expected, (
    "after \\foo, with %% made other: expected %r, got %r" % (expected, got))

# 3. through the macros of a document: \makeatletter is executed before the
#    character that follows it is tokenized
tex = TeX()
tex.input('\\makeatletter@ \\makeatother @')
got = [(t.catcode, str(t)) for t in tex if isinstance(t, Token)]
expected = [(LET, '@'), (SPC, ' '), (OTH, '@')]
assert got == expected, (
    "\\makeatletter@ \\makeatother @: expected %r, got %r" % (expected, got))

# sanity: without a change of codes the look-ahead character is unaffected
tex = TeX()
tex.input('\\foo@bar')
got = [(t.catcode, str(t)) for t in tex.itertokens()]
assert got == [(ESC, 'foo'), (OTH, '@'), (LET, 'b'), (LET, 'a'), (LET, 'r')], got

print('ok')
