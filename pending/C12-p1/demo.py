"""C12 demo 1: macros that stand for a single character (\\&, \\textless,
\\textgreater) must come out of the HTML renderers as *text*.

Exit 0 when the property holds, AssertionError otherwise."""
import glob, importlib, os, shutil, sys, tempfile
from html.parser import HTMLParser

SRC = r'''\documentclass{article}
\begin{document}
\section{Tom \& Jerry \&lt;3}
START \&lt;b\&gt; \textless blink\textgreater hi\textless /blink\textgreater{} \&\#60; END
\begin{itemize}\item I\textless J \& K\&amp;L\end{itemize}
\end{document}
'''

# what a browser must display (after whitespace normalisation)
EXPECT = [
    'Tom & Jerry &lt;3',
    'START &lt;b&gt; <blink>hi</blink> &#60; END',
    'I<J & K&amp;L',
]


class Collect(HTMLParser):
    def __init__(self):
        super().__init__(convert_charrefs=True)
        self.tags, self.text = set(), []

    def handle_starttag(self, tag, attrs):
        self.tags.add(tag)

    def handle_data(self, data):
        self.text.append(data)


def render(renderer):
    from plasTeX import TeXDocument
    from plasTeX.Config import defaultConfig
    from plasTeX.TeX import TeX
    import plasTeX.Logging
    tmp = tempfile.mkdtemp(prefix='c12demo1-')
    cwd = os.getcwd()
    try:
        os.chdir(tmp)
        config = defaultConfig()
        config['general']['renderer'] = renderer
        config['files']['split-level'] = -100
        config['images']['imager'] = 'none'
        config['images']['vector-imager'] = 'none'
        doc = TeXDocument(config=config)
        doc.userdata['jobname'] = 'demo'
        doc.userdata['working-dir'] = tmp
        tex = TeX(doc)
        tex.input(SRC)
        tex.parse()
        importlib.import_module('plasTeX.Renderers.' + renderer).Renderer().render(doc)
        out = ''
        for f in sorted(glob.glob(os.path.join(tmp, '*.html'))):
            with open(f, encoding='utf-8') as fd:
                out += fd.read()
        return out
    finally:
        os.chdir(cwd)
        shutil.rmtree(tmp, ignore_errors=True)


def main():
    import logging
    logging.disable(logging.CRITICAL)
    for renderer in ('HTML5', 'XHTML'):
        page = render(renderer)
        p = Collect()
        p.feed(page)
        p.close()
        shown = ' '.join(''.join(p.text).split())
        assert 'blink' not in p.tags, \
            '%s: document text "<blink>" became an element' % renderer
        for want in EXPECT:
            assert want in shown, \
                '%s: the browser does not display %r; page text is %r' % (
                    renderer, want, shown[-300:])
    print('ok: character macros are displayed as text')


if __name__ == '__main__':
    main()
