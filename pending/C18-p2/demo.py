"""C18 demo 2: entries with the same key path are merged into ONE line of the
index, and every level is ordered by the sort part of sort@display keys.

The document uses two main entries that share the sort key "python" but are
displayed differently (and likewise for "sigma"), each with sub-entries whose
sort keys interleave.
"""
import collections
import logging
logging.disable(logging.CRITICAL)

from plasTeX.TeX import TeX, TeXDocument

ENTRIES = [
    r'python@Python (language)!classes',
    r'python@python (snake)!habitat',
    r'python@Python (language)!types',
    r'sigma@sigma-algebra!generated',
    r'sigma@Sigma notation!index of summation',
    r'sigma@sigma-algebra!product',
    r'python@Python (language)!classes',
    r'zebra',
]


def build(entries):
    body = '\n'.join('word%d\\index{%s}' % (i, e) for i, e in enumerate(entries))
    doc = TeXDocument()
    tex = TeX(doc)
    tex.input('\\documentclass{article}\n\\usepackage{makeidx}\n\\makeindex\n'
              '\\begin{document}\n%s\n\\printindex\n\\end{document}\n' % body)
    out = tex.parse()
    return out.getElementsByTagName('printindex')[0]


def paths(node, prefix=()):
    for child in node:
        path = prefix + (child.key.textContent,)
        yield path, len(child.pages)
        yield from paths(child, path)


def main():
    got = list(paths(build(ENTRIES)))

    # what the document asks for: display path -> number of occurrences
    wanted = collections.Counter(
        tuple(level.split('@')[-1] for level in e.split('!')) for e in ENTRIES)

    lines = [p for p, n in got]
    dup = [p for p, c in collections.Counter(lines).items() if c > 1]
    assert not dup, (
        'the same key path is listed more than once in the index: %r\n  index: %r'
        % (['!'.join(p) for p in dup], ['!'.join(p) for p in lines]))

    pages = {p: n for p, n in got if n}
    assert pages == dict(wanted), (
        'page references do not match the entries: got %r, expected %r'
        % (pages, dict(wanted)))

    expected_lines = sorted(set(wanted) | {p[:i] for p in wanted for i in range(1, len(p))})
    assert sorted(lines) == expected_lines, (lines, expected_lines)
    print('ok')


if __name__ == '__main__':
    main()
