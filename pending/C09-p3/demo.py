r"""
C09 demo 3: what a \ref resolves to is decided by the document it is in.

Two independent documents are processed one after the other in the same
interpreter (as plasTeX is used from a build script or a test-suite).  In
the second one
  * \ref{eq:energy} names a label that does not exist in that document, so
    it must resolve to no object at all, and
  * \ref{sec:method} is a forward reference to the document's own second
    section, so it must resolve to that very node and print "2".

Run as:  PYTHONPATH=<tree> /venv/bin/python demo3.py
"""
from plasTeX.TeX import TeX
from plasTeX.Logging import disableLogging

disableLogging()

FIRST = r'''\documentclass{article}
\begin{document}
\section{Method}\label{sec:method}
\begin{equation} E = mc^2 \label{eq:energy} \end{equation}
See \ref{sec:method} and (\ref{eq:energy}).
\end{document}
'''

SECOND = r'''\documentclass{article}
\begin{document}
As shown in Section~\ref{sec:method} and in (\ref{eq:energy}).
\section{Introduction}
Text.
\section{Method}\label{sec:method}
Text, see \ref{sec:method}.
\end{document}
'''


def parse(source):
    tex = TeX()
    tex.input(source)
    return tex.parse()


def contains(doc, node):
    """ Is `node` part of the tree of `doc`? """
    while node is not None:
        if node is doc:
            return True
        node = node.parentNode
    return False


def main():
    first = parse(FIRST)
    for ref in first.getElementsByTagName('ref'):
        assert contains(first, ref.idref['label']), 'first document is broken already'

    doc = parse(SECOND)
    sections = doc.getElementsByTagName('section')
    method = sections[1]
    assert method.id == 'sec:method', method.id
    own_labels = {n.attributes['label'] for n in doc.getElementsByTagName('label')}

    problems = []
    for ref in doc.getElementsByTagName('ref'):
        label = ref.attributes['label']
        target = ref.idref['label']
        number = target.ref.textContent if getattr(target, 'ref', None) is not None else None
        if label in own_labels:
            if target is not method:
                problems.append('\\ref{%s} resolved to a %s numbered %r that is %spart of this '
                                'document, instead of its own section 2'
                                % (label, type(target).__name__, number,
                                   '' if contains(doc, target) else 'NOT '))
            elif number != '2':
                problems.append('\\ref{%s} prints %r instead of 2' % (label, number))
        else:
            if number is not None or label in doc.context.labels:
                problems.append('\\ref{%s}: the label does not exist in this document but the '
                                'reference resolved to a %s numbered %r'
                                % (label, type(target).__name__, number))
    for p in problems:
        print('VIOLATION', p)
    assert not problems, 'references of the second document resolved to foreign objects (%d)' % len(problems)
    print('ok: the second document resolves its references on its own')


if __name__ == '__main__':
    main()
