"""Glue with higher fil orders: 'plus 1fill' / 'minus 1filll' must denote
second/third order infinities and the whole keyword must be consumed."""
import logging
from plasTeX.TeX import TeX
from plasTeX import dimen, glue
from plasTeX.Tokenizer import EscapeSequence

logging.disable(logging.CRITICAL)

# 1. direct use of the scanner
t = TeX()
t.input(r'3pt plus 1fill minus 1filll\foo')
g = t.readGlue()
rest = [x for x in t.itertokens()]
assert g.pt == 3, g.pt
assert g.stretch == dimen('1fill'), 'stretch of "plus 1fill" read as %r' % (g.stretch,)
assert g.shrink == dimen('1filll'), 'shrink of "minus 1filll" read as %r' % (g.shrink,)
assert g.source == '3.0pt plus 1.0fill minus 1.0filll', g.source
assert rest == [EscapeSequence('foo')], 'tokens left after the glue: %r' % (rest,)

# every order, as stretch and as shrink
for unit in ('fil', 'fill', 'filll'):
    t = TeX()
    t.input(r'0pt plus 1%s minus -1 %s X' % (unit, unit))
    g = t.readGlue()
    assert g.stretch == dimen('1' + unit), (unit, g.stretch)
    assert g.shrink == dimen('-1' + unit), (unit, g.shrink)
    rest = ''.join(t.itertokens())
    assert rest == 'X', 'after %s glue the stream holds %r' % (unit, rest)

# 2. through a macro whose signature declares a Glue argument (skip register)
t = TeX()
t.input(r'\newskip\myskip \myskip=2pt plus 1fill minus 1filll after')
doc = t.parse()
value = t.ownerDocument.context['myskip'].value
assert value == glue('2pt', plus='1fill', minus='1filll'), value.source
assert value.stretch == dimen('1fill'), value.stretch
assert value.shrink == dimen('1filll'), value.shrink
assert doc.textContent.strip() == 'after', 'text following the assignment: %r' % doc.textContent
print('ok')
