"""
C04 / change 2: name lookup goes through every live frame, however many
groups are open and whether or not they hold definitions of their own
(ContextItem.keys, used by \\@ifundefined, \\newif, \\newcommand,
\\newenvironment to find out whether a name is already defined).
"""
import logging
logging.disable(logging.CRITICAL)

from plasTeX.TeX import TeX, TeXDocument


def run(source):
    doc = TeXDocument()
    tex = TeX(doc)
    tex.disableLogging()
    tex.input(source)
    tex.parse()
    return doc


# 1. the context API: the set of visible names does not depend on depth --
doc = TeXDocument()
ctx = doc.context
ctx.loadBaseMacros()
visible = set(ctx.keys())
assert 'textbf' in visible
for depth in (2, 3, 4):
    ctx.push()
    now = set(ctx.keys())
    assert now == visible, \
        '%d names visible at depth 1, %d at depth %d (textbf listed: %s, ' \
        'context["textbf"] still resolves: %s)' % (
            len(visible), len(now), depth, 'textbf' in now,
            ctx['textbf'].__name__ == 'textbf')
for depth in (2, 3, 4):
    ctx.pop()
assert len(ctx.contexts) == 1

# 2. \@ifundefined inside two groups / inside a command argument --------
doc = run(r'\makeatletter{{\@ifundefined{textbf}{UNDEF}{DEF}}}')
assert doc.textContent.strip() == 'DEF', \
    '\\@ifundefined{textbf} inside {{ }} says %r' % doc.textContent
doc = run(r'\makeatletter\textit{\@ifundefined{textbf}{UNDEF}{DEF}}')
assert doc.textContent.strip() == 'DEF', \
    '\\@ifundefined{textbf} inside \\textit{ } says %r' % doc.textContent

# 3. a \newif switch survives: a repeated \newif deeper down must find it -
doc = run(r'\newif\iffoo \footrue {{\newif\iffoo}} \iffoo T\else F\fi')
assert doc.textContent.strip() == 'T', \
    '\\iffoo was reset by a \\newif two groups down: %r' % doc.textContent
doc = run(r'\documentclass{article}\begin{document}\newif\iffoo \footrue '
          r'\begin{center}\newif\iffoo\end{center} \iffoo T\else F\fi'
          r'\end{document}')
assert doc.textContent.strip() == 'T', \
    '\\iffoo was reset by a \\newif inside an environment: %r' % doc.textContent

# 4. \newcommand does not replace a built-in it can see ------------------
doc = run(r'{{\newcommand{\textbf}[1]{X}}}\textbf{a}')
assert doc.textContent.strip() == 'a', \
    '\\textbf was replaced from inside {{ }}: %r' % doc.textContent

print('ok')
