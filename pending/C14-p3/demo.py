"""
C14 demo 3: every footnote mark must link to a footnote text that is
present in the same output file.

Exit status 0 when every internal link of the rendered document resolves,
AssertionError otherwise.
"""

import logging, os, re, shutil, sys, tempfile
from html.parser import HTMLParser


class _Page(HTMLParser):
    """Collect the ids and the hyperlinks of one output file."""

    def __init__(self):
        super().__init__(convert_charrefs=True)
        self.ids, self.hrefs = [], []

    def handle_starttag(self, tag, attrs):
        attrs = dict(attrs)
        if attrs.get('id') is not None:
            self.ids.append(attrs['id'])
        if tag == 'a' and attrs.get('name') not in (None, attrs.get('id')):
            self.ids.append(attrs['name'])
        if tag == 'a' and 'href' in attrs:
            self.hrefs.append(attrs['href'])


def render(source, renderer='HTML5', **options):
    """Run plasTeX on `source` in a scratch directory; return {file: _Page}."""
    import importlib
    from plasTeX import TeXDocument
    from plasTeX.Config import defaultConfig
    from plasTeX.TeX import TeX
    logging.disable(logging.CRITICAL)
    config = defaultConfig()
    module = importlib.import_module('plasTeX.Renderers.' + renderer)
    if renderer == 'HTML5':
        from plasTeX.Renderers.HTML5.Config import addConfig
        addConfig(config)
    config['files']['log'] = False
    config['general']['renderer'] = renderer
    for key, value in options.items():
        section, name = key.split('__')
        config[section][name.replace('_', '-')] = value
    cwd = os.getcwd()
    tmp = tempfile.mkdtemp(prefix='c14demo')
    os.chdir(tmp)
    try:
        document = TeXDocument(config=config)
        tex = TeX(document)
        tex.input(source)
        tex.parse()
        module.Renderer().render(document)
        pages = {}
        for name in sorted(os.listdir(tmp)):
            if name.endswith('.html'):
                page = _Page()
                with open(name, encoding='utf-8') as f:
                    page.feed(f.read())
                pages[name] = page
        return pages
    finally:
        os.chdir(cwd)
        shutil.rmtree(tmp, ignore_errors=True)


def dangling(pages):
    """Internal links that do not land on an existing file / element."""
    bad = []
    for name, page in pages.items():
        for href in page.hrefs:
            if re.match(r'[a-zA-Z][a-zA-Z0-9+.-]*:', href):
                continue                      # external link
            target, _, fragment = href.partition('#')
            target = target or name
            if target not in pages:
                bad.append('%s: href=%r names a file that was not produced'
                           % (name, href))
            elif fragment and fragment not in pages[target].ids:
                bad.append('%s: href=%r has no element with that id in %s'
                           % (name, href, target))
    return bad


SOURCE = r"""
\documentclass{book}
\begin{document}
Preface\footnote{Note in the front matter.}
\chapter{First}
Text\footnote{Note in the first chapter.}
\section{Inner}
More text\footnote{Note in a section.}
\subsection{Deeper}
And more\footnote{Note in a subsection.}
\chapter{Second}
Closing\footnote{Note in the second chapter.}
\end{document}
"""


def main():
    for renderer in ('HTML5', 'XHTML'):
        for level in (-10, 1, 2):
            pages = render(SOURCE, renderer, files__split_level=level)
            marks = [h for p in pages.values() for h in p.hrefs
                     if re.match(r'#a\d{10}$', h)]
            assert len(marks) == 5, (renderer, level, marks)
            bad = dangling(pages)
            assert not bad, ('%s split-level=%s: dangling links:\n  %s'
                             % (renderer, level, '\n  '.join(bad)))
    print('ok: all footnote marks resolve')


if __name__ == '__main__':
    main()
