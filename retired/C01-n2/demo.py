"""
The category of a character is whatever the last \\catcode assignment in
force says it is.  A series of assignments in the same group, with some text
tokenized after each one, must always tokenize the text under the table that
results from all the assignments so far.
"""
import random
import signal
signal.alarm(120)

from plasTeX.TeX import TeX
from plasTeX.Logging import disableLogging
disableLogging()

CHARS = '@!?;:'
TEXT = 'a@!?;:\\x@y!z '


def expected(model):
    # reference lexer for TEXT: only the letter/other distinction matters
    out = []
    i = 0
    while i < len(TEXT):
        ch = TEXT[i]
        if ch == '\\':
            j = i + 1
            name = ''
            while j < len(TEXT) and model.get(TEXT[j], 12) == 11:
                name += TEXT[j]
                j += 1
            if not name:
                name = TEXT[j]
                j += 1
            else:
                while j < len(TEXT) and TEXT[j] == ' ':
                    j += 1
            out.append((0, name))
            i = j
            continue
        if ch == ' ':
            out.append((10, ' '))
        else:
            out.append((model.get(ch, 12), ch))
        i += 1
    return out


def run(seed):
    rnd = random.Random(seed)
    tex = TeX()
    doc = tex.ownerDocument
    ctx = doc.context
    model = dict((c, 11) for c in 'abcdefghijklmnopqrstuvwxyz')
    for c in CHARS:
        model[c] = 12
    for step in range(60):
        ch = rnd.choice(CHARS)
        code = rnd.choice((11, 12))
        ctx.catcode(ch, code)
        model[ch] = code
        t = TeX(ownerDocument=doc)
        t.input(TEXT)
        got = [(tok.catcode, str(tok)) for tok in t.itertokens()]
        want = expected(model)
        assert got == want, \
            'seed %s step %s: after \\catcode`\\%s=%s\n got  %r\n want %r' % (
                seed, step, ch, code, got, want)
        # what the context reports must agree as well
        for c in CHARS:
            assert ctx.whichCode(c) == model[c], (seed, step, c)


for seed in range(20):
    run(seed)
print('ok')
