"""HTML5 renderer: the body of a listings environment / \\lstinline without an
explicit language is verbatim material and must come out as text."""
import os, sys, shutil, signal, tempfile, logging
from html.parser import HTMLParser

signal.alarm(120)          # guard against hangs
logging.disable(logging.CRITICAL)

from plasTeX import TeXDocument
from plasTeX.TeX import TeX
from plasTeX.Config import defaultConfig
from plasTeX.Renderers.HTML5.Config import addConfig
from plasTeX.Renderers.HTML5 import Renderer

BLOCK = 'if (a<b && c>d) { s = "<b id=x>&amp;</b><script>1</script>"; }'
INLINE = '<i>&lt;</i>'

SRC = r'''\documentclass{article}
\usepackage{listings}
\begin{document}
before
\begin{lstlisting}
%s
\end{lstlisting}
inline \lstinline|%s| text
\end{document}
''' % (BLOCK, INLINE)


class Collect(HTMLParser):
    def __init__(self):
        HTMLParser.__init__(self, convert_charrefs=True)
        self.tags = []
        self.stack = []
        self.text_in_main = []
    def handle_starttag(self, tag, attrs):
        self.tags.append((tag, attrs))
        if tag == 'div' and ('class', 'main-text') in attrs:
            self.stack.append('main')
        elif self.stack and tag == 'div':
            self.stack.append('div')
    def handle_endtag(self, tag):
        if self.stack and tag == 'div':
            self.stack.pop()
    def handle_data(self, data):
        if self.stack:
            self.text_in_main.append(data)


def main():
    tmp = tempfile.mkdtemp(prefix='c12demo2')
    cwd = os.getcwd()
    try:
        os.chdir(tmp)
        config = defaultConfig()
        addConfig(config)
        doc = TeXDocument(config=config)
        doc.userdata['working-dir'] = tmp
        doc.userdata['jobname'] = 'demo'
        tex = TeX(doc)
        tex.input(SRC)
        tex.parse()
        Renderer().render(doc)
        with open(os.path.join(tmp, 'index.html'), encoding='utf-8') as f:
            html = f.read()
    finally:
        os.chdir(cwd)
        shutil.rmtree(tmp, ignore_errors=True)

    p = Collect()
    p.feed(html)
    p.close()
    text = ''.join(p.text_in_main)
    tags = [t for t, a in p.tags]
    assert 'b' not in tags and 'i' not in tags, \
        'listing content became elements: %r' % [t for t in tags if t in ('b', 'i')]
    assert BLOCK in text, 'listing text not preserved: %r' % text
    assert INLINE in text, 'inline listing text not preserved: %r' % text
    print('ok')


if __name__ == '__main__':
    main()
