"""Engine D: effect / ownership scanner.

Finds, inside function bodies (module top level = import time is excluded),
every write to interpreter-wide state:

* class attributes:  type(self).x = .., self.__class__.x = .., cls.x = ..
  (classmethods), ClassName.x = .. (resolved through the model), setattr /
  delattr on those, attribute stores on context[...] results (class patching);
* class-level mutable containers: mutator calls and subscript stores on
  Class.attr / type(self).attr and on local aliases of them;
* module globals: `global` assignments, mutator calls and subscript stores on
  module-level mutable objects.
"""
import ast

from . import model as M

MUTATORS = {'append', 'extend', 'insert', 'pop', 'remove', 'clear', 'update', 'setdefault',
            'sort', 'reverse', 'add', 'discard', 'popitem', '__setitem__', '__delitem__'}


class Effect:
    def __init__(self, fn, node, kind, target, detail=''):
        self.fn, self.node, self.kind, self.target, self.detail = fn, node, kind, target, detail

    @property
    def key(self):
        return '%s :: %s %s' % (self.fn.fullname, self.kind, self.target)

    def __repr__(self):
        return '<%s line %s>' % (self.key, getattr(self.node, 'lineno', '?'))


def all_functions(model, include=lambda mod: True):
    for mod in model.modules.values():
        if not include(mod):
            continue
        for f in mod.functions.values():
            yield f
        stack = list(mod.classes.values())
        while stack:
            c = stack.pop()
            for f in c.methods.values():
                yield f
            for p in c.properties.values():
                for f in p.values():
                    if f not in c.methods.values():
                        yield f
            stack.extend(c.nested.values())


def _nested_functions(fn):
    """FunctionDef nodes nested inside fn (analysed with the same scope)."""
    out = []
    for n in ast.walk(fn.node):
        if n is not fn.node and isinstance(n, (ast.FunctionDef, ast.AsyncFunctionDef, ast.Lambda)):
            out.append(n)
    return out


_CLASS_LOCALS = {}


def class_locals(model, fn):
    """Local names of fn bound to class objects: x = Class ; for x in (A, B): ...  -> {name: [class descriptions]}."""
    if fn not in _CLASS_LOCALS:
        _CLASS_LOCALS[fn] = {}          # (guards the recursion through class_ref)
        out = {}

        def descs(e):
            if isinstance(e, (ast.Tuple, ast.List, ast.Set)):
                ds = []
                for x in e.elts:
                    d = descs(x)
                    if d is None:
                        return None
                    ds += d
                return ds
            if isinstance(e, (ast.Name, ast.Attribute)):
                if isinstance(e, ast.Name) and e.id in _locals(fn):
                    return None
                r = model.resolve_expr(fn, e)
                if isinstance(r, tuple) and r and r[0] == 'assign' and isinstance(r[2][-1], (ast.Tuple, ast.List, ast.Name, ast.Attribute)):
                    saved = fn
                    sub = r[2][-1]
                    if isinstance(sub, (ast.Tuple, ast.List)):
                        ds = []
                        for x in sub.elts:
                            rr = model.resolve_expr(r[1], x) if isinstance(x, (ast.Name, ast.Attribute)) else None
                            if not isinstance(rr, M.ClassInfo):
                                return None
                            ds.append(rr.fullname)
                        return ds
                    rr = model.resolve_expr(r[1], sub)
                    return [rr.fullname] if isinstance(rr, M.ClassInfo) else None
                if isinstance(r, M.ClassInfo):
                    return [r.fullname]
            if isinstance(e, ast.Subscript) and M.norm(e.value).endswith('context'):
                return ['context[%s]' % M.norm(e.slice)]
            return None
        nodes = list(M.walk_no_nested(fn.node))
        for n in nodes:
            tgt = val = None
            if isinstance(n, ast.Assign) and len(n.targets) == 1 and isinstance(n.targets[0], ast.Name):
                tgt, val = n.targets[0].id, descs(n.value)
            elif isinstance(n, (ast.For, ast.comprehension)) and isinstance(n.target, ast.Name):
                tgt, val = n.target.id, descs(n.iter) if isinstance(n.iter, (ast.Tuple, ast.List, ast.Set, ast.Name, ast.Attribute)) else None
                if isinstance(n.iter, (ast.Name, ast.Attribute)) and val is not None and len(val) == 1 and not isinstance(
                        (model.resolve_expr(fn, n.iter) or (None,))[0] if isinstance(model.resolve_expr(fn, n.iter), tuple) else None, str):
                    pass
            if tgt is not None and val:
                out.setdefault(tgt, [])
                for d in val:
                    if d not in out[tgt]:
                        out[tgt].append(d)
        # a name with any other binding is not (only) a class
        for n in nodes:
            if isinstance(n, ast.Name) and isinstance(n.ctx, ast.Store) and n.id in out:
                pass
        _CLASS_LOCALS[fn] = out
    return _CLASS_LOCALS[fn]


def class_ref(model, fn, expr, aliases):
    """If `expr` denotes a class object, return a description string ('{A|B}' when it can be one of several)."""
    t = M.norm(expr)
    if t in ('type(self)', 'self.__class__', 'tself') or t in aliases.get('class', ()):
        return 'type(self)'
    if isinstance(expr, ast.Name):
        args = fn.node.args.args
        if args and expr.id == args[0].arg and args[0].arg == 'cls':
            return 'cls'
        if expr.id in _locals(fn):
            ds = class_locals(model, fn).get(expr.id)
            if ds:
                return ds[0] if len(ds) == 1 else '{%s}' % '|'.join(ds)
            return None
    if isinstance(expr, (ast.Name, ast.Attribute)):
        r = model.resolve_expr(fn, expr)
        if isinstance(r, tuple) and r and r[0] == 'assign':
            # alias at module/class level to a class
            r2 = model.resolve_expr(r[1], r[2][-1]) if isinstance(r[2][-1], (ast.Name, ast.Attribute)) else None
            r = r2
        if isinstance(r, M.ClassInfo):
            return r.fullname
    # context['name'] / self.ownerDocument.context[...]  -> a macro class
    if isinstance(expr, ast.Subscript) and M.norm(expr.value).endswith('context'):
        return 'context[%s]' % M.norm(expr.slice)
    return None


_LOCALS = {}


def _locals(fn):
    if fn not in _LOCALS:
        names = set()
        gl = set()
        for x in M.walk_no_nested(fn.node):
            if isinstance(x, ast.Global):
                gl.update(x.names)
        for x in M.walk_no_nested(fn.node):
            if isinstance(x, ast.Name) and isinstance(x.ctx, (ast.Store, ast.Del)):
                names.add(x.id)
        a = fn.node.args
        for arg in a.posonlyargs + a.args + a.kwonlyargs + [a.vararg, a.kwarg]:
            if arg is not None:
                names.add(arg.arg)
        _LOCALS[fn] = (names - gl, gl)
    return _LOCALS[fn][0]


def _globals_declared(fn):
    _locals(fn)
    return _LOCALS[fn][1]


def module_mutables(mod):
    """Module-level names bound to mutable containers (list/dict/set literals or calls)."""
    out = set()
    for name, exprs in mod.assigns.items():
        e = exprs[-1]
        if isinstance(e, (ast.List, ast.Dict, ast.Set, ast.ListComp, ast.DictComp, ast.SetComp)):
            out.add(name)
        elif isinstance(e, ast.Call) and M.norm(e.func) in ('list', 'dict', 'set', 'defaultdict', 'collections.defaultdict', 'OrderedDict', 'collections.OrderedDict'):
            out.add(name)
    return out


def scan_function(model, fn):
    effects = []
    body_nodes = list(M.walk_no_nested(fn.node))
    for nested in _nested_functions(fn):
        body_nodes.extend(ast.walk(nested))
    # aliases:  x = type(self) ;  inEnv = type(self).inEnv ; c = Class.attr
    aliases = {'class': set(), 'classattr': {}}
    changed = True
    while changed:
        changed = False
        for n in body_nodes:
            if isinstance(n, ast.Assign) and len(n.targets) == 1 and isinstance(n.targets[0], ast.Name):
                name = n.targets[0].id
                v = n.value
                if M.norm(v) in ('type(self)', 'self.__class__') and name not in aliases['class']:
                    aliases['class'].add(name)
                    changed = True
                elif isinstance(v, ast.Attribute) and name not in aliases['classattr']:
                    c = class_ref(model, fn, v.value, aliases)
                    if c is not None and not c.startswith('context['):
                        aliases['classattr'][name] = '%s.%s' % (c, v.attr)
                        changed = True
    mod_mut = module_mutables(fn.module)
    local = _locals(fn)
    gdecl = _globals_declared(fn)

    def classattr_of(expr):
        """expr denotes Class.attr (a class-level object): description or None."""
        if isinstance(expr, ast.Name) and expr.id in aliases['classattr']:
            return aliases['classattr'][expr.id]
        if isinstance(expr, ast.Attribute):
            c = class_ref(model, fn, expr.value, aliases)
            if c is not None:
                return '%s.%s' % (c, expr.attr)
        return None

    def store_target(t, node, how):
        if isinstance(t, (ast.Tuple, ast.List)):
            for e in t.elts:
                store_target(e, node, how)
            return
        if isinstance(t, ast.Attribute):
            c = class_ref(model, fn, t.value, aliases)
            if c is not None:
                effects.append(Effect(fn, node, 'classattr-store', '%s.%s' % (c, t.attr), how))
        elif isinstance(t, ast.Subscript):
            ca = classattr_of(t.value)
            if ca is not None:
                effects.append(Effect(fn, node, 'classattr-setitem', ca, how))
            elif isinstance(t.value, ast.Name) and t.value.id in mod_mut and t.value.id not in local:
                effects.append(Effect(fn, node, 'global-setitem', '%s.%s' % (fn.module.name, t.value.id), how))
        elif isinstance(t, ast.Name):
            if t.id in gdecl:
                effects.append(Effect(fn, node, 'global-store', '%s.%s' % (fn.module.name, t.id), how))

    for n in body_nodes:
        if isinstance(n, ast.Assign):
            for t in n.targets:
                store_target(t, n, 'assign')
        elif isinstance(n, ast.AugAssign):
            store_target(n.target, n, 'augassign')
        elif isinstance(n, ast.AnnAssign) and n.value is not None:
            store_target(n.target, n, 'assign')
        elif isinstance(n, ast.Delete):
            for t in n.targets:
                store_target(t, n, 'del')
        elif isinstance(n, ast.Call):
            fname = M.call_name(n)
            if fname in ('setattr', 'delattr') and n.args:
                c = class_ref(model, fn, n.args[0], aliases)
                if c is not None:
                    attr = M.norm(n.args[1]) if len(n.args) > 1 else '?'
                    if len(n.args) > 1 and isinstance(n.args[1], ast.Name):
                        # resolve a local constant name
                        for x in body_nodes:
                            if isinstance(x, ast.Assign) and len(x.targets) == 1 and M.norm(x.targets[0]) == n.args[1].id \
                               and isinstance(x.value, ast.Constant):
                                attr = repr(x.value.value)
                    effects.append(Effect(fn, n, 'classattr-%s' % fname, '%s[%s]' % (c, attr)))
            elif isinstance(n.func, ast.Attribute) and n.func.attr in MUTATORS:
                recv = n.func.value
                ca = classattr_of(recv)
                if ca is not None:
                    effects.append(Effect(fn, n, 'classattr-mutate', ca, n.func.attr))
                elif isinstance(recv, ast.Name) and recv.id in mod_mut and recv.id not in local:
                    effects.append(Effect(fn, n, 'global-mutate', '%s.%s' % (fn.module.name, recv.id), n.func.attr))
            if fname.split('.')[-1] not in _PURE_CALLS and not fname.startswith('log'):
                # a class-level mutable container handed to other code may be changed there
                for a in list(n.args) + [k.value for k in n.keywords]:
                    if isinstance(a, ast.Attribute) and isinstance(a.value, ast.Name) and a.value.id not in ('self',):
                        c = class_ref(model, fn, a.value, aliases)
                        if c is None or c.startswith('context['):
                            continue
                        if c in ('type(self)', 'cls'):
                            owner = fn.cls
                        else:
                            owner = next((k for k in model.all_classes if k.fullname == c), None)
                        if owner is None:
                            continue
                        oc = model.find_attr_class(owner, a.attr)
                        if oc is None or a.attr not in oc.assigns:
                            continue
                        e = oc.assigns[a.attr][-1]
                        if (isinstance(e, (ast.List, ast.Dict, ast.Set)) or (isinstance(e, ast.Call) and M.call_name(e) in ('dict', 'list', 'set'))) \
                           and _may_keep_or_change(model, fn, n, a):
                            effects.append(Effect(fn, n, 'classattr-escape', '%s.%s' % (c, a.attr), 'passed to %s()' % fname))
    # a local that can be one of several classes: one effect per class
    import re as _re
    out = []
    for e in effects:
        mo = _re.search(r'\{([^{}]*\|[^{}]*)\}', e.target)
        if mo:
            for alt in mo.group(1).split('|'):
                out.append(Effect(e.fn, e.node, e.kind, e.target.replace(mo.group(0), alt), e.detail))
        else:
            out.append(e)
    return out


_PURE_CALLS = {'len', 'list', 'sorted', 'iter', 'tuple', 'set', 'dict', 'str', 'enumerate', 'reversed', 'isinstance', 'bool', 'any',
               'all', 'min', 'max', 'sum', 'repr', 'print', 'frozenset', 'zip', 'map', 'filter', 'copy', 'deepcopy', 'update',
               'get', 'join', 'format', 'getattr', 'hasattr', 'id', 'type', 'issubclass', 'debug', 'info', 'warning', 'error'}


def _resolve_callee(model, fn, call):
    f = call.func
    if isinstance(f, ast.Attribute) and isinstance(f.value, ast.Name) and f.value.id in ('self', 'cls') and fn.cls is not None:
        return model.find_method(fn.cls, f.attr), 1
    if isinstance(f, (ast.Name, ast.Attribute)):
        r = model.resolve_expr(fn, f)
        if isinstance(r, M.FunctionInfo):
            return r, (1 if r.cls is not None else 0)
        if isinstance(r, M.ClassInfo):
            init = model.find_method(r, '__init__')
            if init is not None:
                return init, 1
    return None, 0


def _aliases_name(v, name):
    """May the value of expression `v` be the very object bound to `name` (not a copy)?"""
    if isinstance(v, ast.Name):
        return v.id == name
    if isinstance(v, ast.IfExp):
        return _aliases_name(v.body, name) or _aliases_name(v.orelse, name)
    if isinstance(v, ast.BoolOp):
        return any(_aliases_name(x, name) for x in v.values)
    if isinstance(v, ast.NamedExpr):
        return _aliases_name(v.value, name)
    return False


def _may_keep_or_change(model, fn, call, argnode, depth=0):
    """Can the callee change or retain the object passed as `argnode`?  Unresolvable callees: yes."""
    callee, skip = _resolve_callee(model, fn, call)
    if callee is None or depth > 2:
        return True
    params = [a.arg for a in callee.node.args.posonlyargs + callee.node.args.args][skip:]
    name = None
    if argnode in call.args:
        i = call.args.index(argnode)
        if i < len(params):
            name = params[i]
    else:
        for k in call.keywords:
            if k.value is argnode:
                name = k.arg
    if name is None or name not in [a.arg for a in callee.node.args.posonlyargs + callee.node.args.args + callee.node.args.kwonlyargs]:
        return True
    for x in M.walk_no_nested(callee.node):
        if isinstance(x, ast.Call):
            if isinstance(x.func, ast.Attribute) and x.func.attr in MUTATORS and M.norm(x.func.value) == name:
                return True
            if M.call_name(x).split('.')[-1] in _PURE_CALLS or M.call_name(x).startswith('log'):
                continue
            for a in list(x.args) + [k.value for k in x.keywords]:
                if isinstance(a, ast.Name) and a.id == name and _may_keep_or_change(model, callee, x, a, depth + 1):
                    return True
        elif isinstance(x, (ast.Assign, ast.AugAssign, ast.AnnAssign)):
            tgts = x.targets if isinstance(x, ast.Assign) else [x.target]
            for t in tgts:
                if isinstance(t, ast.Subscript) and M.norm(t.value) == name:
                    return True
                if isinstance(t, ast.Attribute) and x.value is not None and _aliases_name(x.value, name):
                    return True       # retained in an object
        elif isinstance(x, ast.Return) and isinstance(x.value, ast.Name) and x.value.id == name:
            return True
    return False


def param_mutators(model):
    """Module-level functions that setattr/delattr on one of their parameters:
    {function name: parameter index}."""
    out = {}
    for mod in model.modules.values():
        for f in mod.functions.values():
            params = [a.arg for a in f.node.args.args]
            for n in M.walk_no_nested(f.node):
                if isinstance(n, ast.Call) and M.call_name(n) in ('setattr', 'delattr') and n.args \
                   and isinstance(n.args[0], ast.Name) and n.args[0].id in params:
                    out[f.name] = params.index(n.args[0].id)
    return out


def shared_default_sites(model, fn):
    """self.X.<mutator>() / self.X[k] = v where X is a class-level mutable
    default that no method of the hierarchy rebinds per instance."""
    out = []
    if fn.cls is None:
        return out
    PURE = {'len', 'list', 'sorted', 'iter', 'tuple', 'set', 'dict', 'str', 'enumerate', 'reversed', 'isinstance',
            'bool', 'any', 'all', 'min', 'max', 'sum', 'repr', 'print', 'frozenset', 'zip', 'map', 'filter'}
    for n in M.walk_no_nested(fn.node):
        recv = None
        how = ''
        if isinstance(n, ast.Call) and M.call_name(n) not in PURE and not M.call_name(n).startswith('log'):
            for a in list(n.args) + [k.value for k in n.keywords]:
                if isinstance(a, ast.Attribute) and M.norm(a.value) == 'self':
                    recv, how = a, 'passed to %s()' % M.call_name(n)
        if isinstance(n, ast.Call) and isinstance(n.func, ast.Attribute) and n.func.attr in MUTATORS:
            recv, how = n.func.value, n.func.attr
        elif isinstance(n, (ast.Assign, ast.AugAssign)):
            tgts = n.targets if isinstance(n, ast.Assign) else [n.target]
            for t in tgts:
                if isinstance(t, ast.Subscript):
                    recv, how = t.value, 'setitem'
        if isinstance(recv, ast.Attribute) and M.norm(recv.value) == 'self':
            attr = recv.attr
            owner = model.find_attr_class(fn.cls, attr)
            if owner is None or attr not in owner.assigns:
                continue
            e = owner.assigns[attr][-1]
            if not isinstance(e, (ast.List, ast.Dict, ast.Set)):
                continue
            # rebound per instance anywhere in the hierarchy (self.attr = ...)?
            rebound = False
            for k in model.subclasses(owner) + [c for c in model.mro(fn.cls) if isinstance(c, M.ClassInfo)]:
                for f in list(k.methods.values()):
                    for x in M.walk_no_nested(f.node):
                        if isinstance(x, ast.Assign) and any(M.norm(t) == 'self.' + attr for t in x.targets):
                            rebound = True
            if not rebound:
                out.append(Effect(fn, n, 'shared-default-mutate', '%s.%s' % (owner.fullname, attr), how))
    return out


def _expand_loop_names(model, fn, effects):
    """context[name].attr = ... / setattr(context[name], attr, v) inside `for name, attr, ... in <constant table>`: one effect per row of
    the table (the loop variables of one row are substituted together)."""
    import re
    loops = []          # (loop node, [variable names], [rows])
    for n in M.walk_no_nested(fn.node):
        if not isinstance(n, ast.For):
            continue
        try:
            items = model.eval_const(fn, n.iter)
        except Exception:
            continue
        if not isinstance(items, (list, tuple)) or not items or len(items) > 60:
            continue
        if isinstance(n.target, ast.Name):
            loops.append((n, [n.target.id], [(x,) for x in items]))
        elif isinstance(n.target, (ast.Tuple, ast.List)) and all(isinstance(t, ast.Name) for t in n.target.elts) \
                and all(isinstance(x, (tuple, list)) and len(x) == len(n.target.elts) for x in items):
            loops.append((n, [t.id for t in n.target.elts], [tuple(x) for x in items]))
    if not loops:
        return _normalise_setattr(effects)
    out = []
    for e in effects:
        used = None
        for loop, names, rows in loops:
            inside = any(x is e.node for x in ast.walk(loop))
            hit = [nm for nm in names if re.search(r'\[%s\]' % re.escape(nm), e.target)]
            if inside and hit:
                used = (names, rows)
                break
        if used is None:
            out.append(e)
            continue
        names, rows = used
        seen = set()
        for row in rows:
            t = e.target
            ok = True
            for nm, v in zip(names, row):
                if re.search(r'\[%s\]' % re.escape(nm), t):
                    if not isinstance(v, str):
                        ok = False
                        break
                    t = re.sub(r'\[%s\]' % re.escape(nm), lambda mo, v=v: '[%r]' % v, t)
            if ok and t not in seen:
                seen.add(t)
                out.append(Effect(e.fn, e.node, e.kind, t, e.detail))
            elif not ok:
                out.append(e)
                break
    return _normalise_setattr(out)


def _normalise_setattr(effects):
    """setattr(C, 'name', v) with a constant identifier writes the same cell as C.name = v."""
    import re
    out = []
    for e in effects:
        mo = re.fullmatch(r"(.+)\['([A-Za-z_]\w*)'\]", e.target) if e.kind in ('classattr-setattr', 'classattr-delattr') else None
        if mo and not mo.group(2).startswith('@'):
            out.append(Effect(e.fn, e.node, 'classattr-store', '%s.%s' % (mo.group(1), mo.group(2)), e.detail or e.kind.split('-')[1]))
        else:
            out.append(e)
    return out


def scan(model, include=lambda mod: True):
    out = []
    pm = param_mutators(model)
    for fn in all_functions(model, include):
        out.extend(_expand_loop_names(model, fn, scan_function(model, fn)))
        out.extend(shared_default_sites(model, fn))
        for n in M.walk_no_nested(fn.node):
            if isinstance(n, ast.Call):
                nm = M.call_name(n).split('.')[-1]
                if nm in pm and len(n.args) > pm[nm] and fn.name not in pm:
                    c = class_ref(model, fn, n.args[pm[nm]], {'class': set(), 'classattr': {}})
                    if c is not None:
                        out.append(Effect(fn, n, 'class-%s' % nm, c))
    return out
