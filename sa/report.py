"""Engine F: rule registry, obligations, known findings, evidence, exit codes.

Exit codes: 0 = every rule instance holds (KNOWN-FINDING lines allowed),
1 = at least one VIOLATION not listed in known_findings.json,
2 = ANALYSIS-ERROR (the checker could not analyse: vanished anchor, parse
error, unmodelled construct, instance count below the confirmed minimum)."""
import json
import os
import re
import sys
import time
import traceback

VERIF = os.path.dirname(os.path.dirname(os.path.abspath(__file__)))
REPO = os.environ.get('VERIF_REPO', '/repo')


class AnalysisError(Exception):
    """The checker cannot give a verdict (never a silent pass)."""


def need(cond, msg):
    if not cond:
        raise AnalysisError(msg)
    return cond


def relpath(path):
    path = str(path)
    if path.startswith(REPO.rstrip('/') + '/'):
        return path[len(REPO.rstrip('/')) + 1:]
    return path


class Finding:
    def __init__(self, rule, key, msg, where):
        self.rule, self.key, self.msg, self.where = rule, key, msg, where

    def as_dict(self):
        return {'rule': self.rule, 'key': self.key, 'message': self.msg,
                'where': self.where}


_UNKNOWN_RX = re.compile(r"(?<![A-Za-z_])TOP(?![A-Za-z_])|Sym\(|(?<![A-Za-z_])Obj\(\w+@\d+\)")


class Check:
    """Collects the obligations of one property run."""

    def __init__(self, prop, tier='quick'):
        self.prop = prop
        self.tier = tier
        self.t0 = time.time()
        self.obligations = []      # (rule, key, ok, detail)
        self.findings = []         # Finding
        self.undec = []            # Finding: instances without a verdict
        self.rules = {}            # rule id -> dict(text=..., min=..., n=0)
        self.functions = set()     # functions analysed (qualified names)
        self.files = set()
        self.paths = 0
        self.call_sites = 0
        self.notes = []
        self.declined = []
        self.selftest = None
        self.assumptions = [
            'only normal-exit paths are obligations (paths that leave through '
            'an exception abort the document)',
            'Python semantics of the modelled statement/expression subset; an '
            'unmodelled construct is ANALYSIS-ERROR (exit 2), never a verdict',
            'names are resolved by the static repository model (imports, '
            'static C3 MRO, class-level constants)',
            'a rule decided by abstract interpretation of a function on scenarios '
            '(small heaps, token streams, scripted files) holds for the enumerated '
            'scenario family, which is named in the rule text and in the instance '
            'keys - it is a necessary condition of the property, not the property '
            'for every input; an outcome the interpretation cannot determine ends '
            'the run with ANALYSIS-ERROR (exit 2)',
        ]
        self._model = None

    # -- model ---------------------------------------------------------
    @property
    def model(self):
        if self._model is None:
            from . import model
            self._model = model.load(REPO)
        return self._model

    # -- rules -----------------------------------------------------------
    def rule(self, rid, text, min_instances=1):
        self.rules[rid] = {'text': text, 'min': min_instances, 'n': 0,
                           'fail': 0}
        return rid

    def where(self, fn_or_mod, node=None):
        """file:line description for a FunctionInfo/ClassInfo/ModuleInfo."""
        path = getattr(fn_or_mod, 'path', None) or str(fn_or_mod)
        line = getattr(node, 'lineno', None)
        if line is None:
            n = getattr(fn_or_mod, 'node', None)
            line = getattr(n, 'lineno', None)
        q = getattr(fn_or_mod, 'qualname', '')
        s = relpath(path)
        if line:
            s += ':%d' % line
        if q:
            s += ' (%s)' % q
        return s

    def _drain(self):
        from . import absint
        notes = list(absint.IMPRECISION)
        del absint.IMPRECISION[:]
        return notes

    def ok(self, rid, key, detail=''):
        r = self.rules[rid]
        r['n'] += 1
        self.obligations.append((rid, key, True, detail))
        self._drain()

    def fail(self, rid, key, msg, where=''):
        notes = self._drain()
        if not notes and _UNKNOWN_RX.search(msg):
            # the outcome the message reports contains a value the interpretation did not determine
            notes = ['the reported outcome contains an undetermined value (TOP)']
        if notes:
            # the interpretation this verdict rests on lost an effect or could not determine a test: no verdict
            r = self.rules[rid]
            r['n'] += 1
            self.undec.append(Finding(rid, key, 'not determined (%s); would-be finding: %s' % ('; '.join(sorted(set(notes))[:2]), msg), where))
            return
        r = self.rules[rid]
        r['n'] += 1
        r['fail'] += 1
        self.obligations.append((rid, key, False, msg))
        self.findings.append(Finding(rid, key, msg, where))

    def verdict(self, rid, key, cond, msg, where='', detail=''):
        if cond:
            self.ok(rid, key, detail)
        else:
            self.fail(rid, key, msg, where)
        return cond

    def undecided(self, rid, key, msg, where=''):
        """The analysis of this instance is too imprecise for a verdict (an
        unrecognised code shape): never a VIOLATION, never a silent pass - the run
        ends ANALYSIS-ERROR (exit 2) unless a real violation is reported as well."""
        r = self.rules[rid]
        r['n'] += 1
        self.undec.append(Finding(rid, key, msg, where))
        self._drain()

    def decide(self, rid, key, got, want, msg, where='', detail=''):
        """Verdict from a set of abstract outcomes: holds when it equals `want`;
        FAILS when the outcomes are all definite; undecided when an outcome
        mentions an unknown value (TOP)."""
        if got == want:
            self.ok(rid, key, detail or str(sorted(map(str, got))))
            return True
        if not got or any('TOP' in repr(g) or 'Sym(' in repr(g) for g in got):
            self.undecided(rid, key, 'outcome not determined by the abstract interpretation (%s); %s' % (sorted(map(repr, got))[:6], msg), where)
            return None
        self.fail(rid, key, msg, where)
        return False

    def analysed(self, fn):
        """Record that a function/class/template was analysed."""
        self.functions.add(getattr(fn, 'fullname', None) or str(fn))
        p = getattr(fn, 'path', None)
        if p:
            self.files.add(relpath(p))

    def note(self, text):
        self.notes.append(text)

    def decline(self, text):
        self.declined.append(text)


def load_known():
    path = os.path.join(VERIF, 'known_findings.json')
    if not os.path.exists(path):
        return []
    with open(path) as fh:
        return json.load(fh)['findings']


def finish(chk, level='other'):
    """Evaluate minimum-instance obligations, match known findings, write the
    evidence file, print the verdict lines; returns the exit code."""
    for rid, r in chk.rules.items():
        if r['n'] < r['min']:
            raise AnalysisError(
                'rule %s matched %d instance(s), fewer than the %d confirmed '
                'by hand on the reference tree - an anchor moved or vanished'
                % (rid, r['n'], r['min']))
    known = [k for k in load_known() if k['property'] == chk.prop]
    active = {(k['rule'], k['key']): k for k in known
              if k.get('status') == 'known'}
    violations, knowns = [], []
    for f in chk.findings:
        k = active.get((f.rule, f.key))
        if k is not None:
            knowns.append((f, k))
        else:
            violations.append(f)
    quiet = bool(os.environ.get('VERIF_SUBRUN'))
    outdir = os.environ.get('VERIF_SUBRUN_OUT') or os.path.join(VERIF, 'out')
    os.makedirs(outdir, exist_ok=True)
    os.makedirs(os.path.join(VERIF, 'evidence'), exist_ok=True)
    replay = os.path.join(outdir, '%s.violations.json' % chk.prop)
    for f, k in knowns:
        print('KNOWN-FINDING: property=%s rule=%s %s -- %s [%s]'
              % (chk.prop, f.rule, f.key, k.get('what', f.msg), f.where))
    if violations:
        with open(replay, 'w') as fh:
            json.dump({'property': chk.prop, 'tier': chk.tier,
                       'violations': [f.as_dict() for f in violations]},
                      fh, indent=1)
        for f in violations:
            print('FAIL %s rule=%s instance=%s\n     at %s\n     %s'
                  % (chk.prop, f.rule, f.key, f.where, f.msg))
        print('VIOLATION property=%s replay=%s' % (chk.prop, replay))
    elif os.path.exists(replay):
        os.remove(replay)

    for f in chk.undec:
        print('UNDECIDED %s rule=%s instance=%s\n     at %s\n     %s' % (chk.prop, f.rule, f.key, f.where, f.msg))
    if chk.undec and not violations:
        raise AnalysisError('%d rule instance(s) could not be decided on this tree (unrecognised code shape): %s'
                            % (len(chk.undec), ['%s %s' % (f.rule, f.key) for f in chk.undec][:5]))

    n_obl = len(chk.obligations)
    n_ok = sum(1 for o in chk.obligations if o[2])
    distinct = len({(o[0], o[1]) for o in chk.obligations})
    samples = []
    seen_rules = set()
    for rid, key, ok, detail in chk.obligations:
        if rid in seen_rules and ok:
            continue
        seen_rules.add(rid)
        samples.append({'rule': rid, 'instance': key,
                        'verdict': 'holds' if ok else 'FAILS',
                        'detail': str(detail)[:300]})
    samples = samples[:60]
    ev = {
        'property_id': chk.prop,
        'tier': chk.tier,
        'seed': int(os.environ.get('VERIF_SEED', '0') or 0),
        'level': level,
        'coverage': {
            'explanation':
                'static analysis of /repo working tree (no execution of '
                'plasTeX): ' + '; '.join(
                    '%s: %s' % (rid, r['text'])
                    for rid, r in chk.rules.items()),
            'obligations': n_obl,
            'discharged': n_ok,
            'evaluations': n_obl,
            'distinct_nontrivial': distinct,
            'rule': 'one obligation per (rule, resolved construct) instance '
                    'enumerated from the source on this run; distinct = '
                    'distinct (rule, instance-key) pairs; every rule has a '
                    'hand-confirmed minimum instance count, so an instance is '
                    'never vacuous',
            'rules': {rid: {'instances': r['n'], 'failing': r['fail'],
                            'min_instances': r['min']}
                      for rid, r in chk.rules.items()},
            'functions_analysed': len(chk.functions),
            'functions': sorted(chk.functions)[:400],
            'files': sorted(chk.files),
            'paths': chk.paths,
            'call_sites': chk.call_sites,
            'samples': samples,
            'known_findings_reported': [f.key for f, _ in knowns],
            'declined_clauses': chk.declined,
            'notes': chk.notes,
            'checker_cmd': '/venv/bin/python -m sa.check %s --tier %s'
                           % (chk.prop, chk.tier),
            'trusted_base': ['CPython ast module', 'the checker itself',
                             'oracle tables in the checker (TeXbook / LaTeX '
                             'rules as worded by the property)'],
        },
        'assumptions': chk.assumptions,
        'wall_s': round(time.time() - chk.t0, 3),
        'violations': len(violations),
    }
    if chk.selftest is not None:
        ev['coverage']['selftest'] = chk.selftest
    if not quiet:
        with open(os.path.join(VERIF, 'evidence', '%s.json' % chk.prop), 'w') as fh:
            json.dump(ev, fh, indent=1, default=str)
    print('%s tier=%s obligations=%d discharged=%d known=%d violations=%d '
          'functions=%d wall=%.2fs'
          % (chk.prop, chk.tier, n_obl, n_ok, len(knowns), len(violations),
             len(chk.functions), time.time() - chk.t0))
    return 1 if violations else 0


def run(prop, tier, body):
    """Run `body(chk)` under the three-outcome protocol."""
    chk = Check(prop, tier)
    try:
        body(chk)
        known_keys = {(k['rule'], k['key']) for k in load_known() if k['property'] == prop and k.get('status') == 'known'}
        clean = all((f.rule, f.key) in known_keys for f in chk.findings)
        if tier == 'thorough' and clean and not os.environ.get('VERIF_SUBRUN'):
            # the self-test only makes sense on a tree where the property's rules hold
            from . import selftest
            chk.selftest = selftest.run_for(prop)
            missed = [x for x in chk.selftest['results'] if x['status'] != 'DETECTED']       # MISSED, ANALYSIS-ERROR and STALE all count
            if missed:
                raise AnalysisError('checker self-test: %d seeded change(s) that break %s are no longer detected: %s'
                                    % (len(missed), prop, [x['seed'] for x in missed]))
        return finish(chk)
    except AnalysisError as e:
        print('ANALYSIS-ERROR property=%s %s' % (prop, e))
        return 2
    except Exception:
        traceback.print_exc(file=sys.stdout)
        print('ANALYSIS-ERROR property=%s internal error in checker' % prop)
        return 2
