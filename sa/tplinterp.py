"""Template interpretation over scripted data (no renderer is run): the jinja2 AST (jinja2's own parser) and the TAL
attribute language of the ZPT templates are evaluated against small scenario objects, and the result is the sequence of
*events* the template would write: ('text', literal), ('value', object, filters) for an expression written into the
output, ('attr', name, object) for a TAL attribute.

Anything the interpreter does not model raises Undecided: the rule instance has no verdict (exit 2), never a guess."""
import ast as pyast
import re
from html.parser import HTMLParser


class Undecided(Exception):
    pass


class _Undef:
    """jinja2's Undefined: falsy, empty, attribute access stays undefined"""

    def __bool__(self):
        return False

    def __iter__(self):
        return iter(())

    def __len__(self):
        return 0

    def __repr__(self):
        return 'UNDEF'

    def __str__(self):
        return ''


UNDEF = _Undef()


class Data:
    """A scenario object: attributes, optional children (iteration / truth / len), a label."""

    def __init__(self, label, children=None, kind=None, **attrs):
        self.label, self.children, self.kind, self.attrs = label, children, kind, attrs

    def __bool__(self):
        return True if self.children is None else bool(self.children)

    def __len__(self):
        if self.children is None:
            raise Undecided('len() of %s' % self.label)
        return len(self.children)

    def __iter__(self):
        if self.children is None:
            raise Undecided('iteration over %s' % self.label)
        return iter(self.children)

    def __getitem__(self, i):
        if isinstance(i, (int, slice)) and self.children is not None:
            return self.children[i]
        if isinstance(i, str) and i in self.attrs:
            return self.attrs[i]
        raise KeyError(i)

    def get(self, name):
        if name in self.attrs:
            return self.attrs[name]
        if name == 'childNodes' and self.children is not None:
            return self.children
        return UNDEF

    def __repr__(self):
        return '<%s>' % self.label

    def __str__(self):
        return str(self.attrs.get('__str', self.label))


# ---------------------------------------------------------------------------
# jinja2
class _LoopCtx:
    def __init__(self, seq, depth0, recurse):
        self.seq, self.i, self.depth0, self.recurse = seq, 0, depth0, recurse

    def get(self, name):
        n = len(self.seq)
        table = {'index': self.i + 1, 'index0': self.i, 'first': self.i == 0, 'last': self.i == n - 1, 'length': n,
                 'revindex': n - self.i, 'revindex0': n - self.i - 1, 'depth': self.depth0 + 1, 'depth0': self.depth0,
                 'previtem': self.seq[self.i - 1] if self.i else UNDEF,
                 'nextitem': self.seq[self.i + 1] if self.i + 1 < n else UNDEF}
        if name in table:
            return table[name]
        raise Undecided('loop.%s' % name)


_TRANSPARENT_FILTERS = {'e', 'escape', 'striptags', 'safe', 'trim', 'string', 'forceescape', 'lower', 'upper', 'title', 'capitalize', 'urlencode'}


class Jinja:
    def __init__(self, env=None, filters=None, max_events=20000):
        self.events = []
        self.max_events = max_events
        self.globals = dict(env or {})
        self.filters = dict(filters or {})

    def emit(self, ev):
        self.events.append(ev)
        if len(self.events) > self.max_events:
            raise Undecided('output too long')

    def run(self, tree):
        from jinja2 import nodes
        self.N = nodes
        self.block(tree.body, [dict(self.globals)])
        return self.events

    # scopes: list of dicts, innermost last
    def lookup(self, name, sc):
        for d in reversed(sc):
            if name in d:
                return d[name]
        return UNDEF

    def block(self, body, sc):
        N = self.N
        for n in body:
            if isinstance(n, N.Output):
                for part in n.nodes:
                    if isinstance(part, N.TemplateData):
                        self.emit(('text', part.data))
                    else:
                        v, fl = self.ev_out(part, sc)
                        self.emit(('value', v, tuple(fl)))
            elif isinstance(n, N.For):
                self.do_for(n, sc, 0)
            elif isinstance(n, N.If):
                if self.truth(self.ev(n.test, sc)):
                    self.block(n.body, sc)
                else:
                    done = False
                    for e in n.elif_:
                        if self.truth(self.ev(e.test, sc)):
                            self.block(e.body, sc)
                            done = True
                            break
                    if not done:
                        self.block(n.else_, sc)
            elif isinstance(n, N.Assign):
                self.assign(n.target, self.ev(n.node, sc), sc[-1])
            elif isinstance(n, (N.Scope,)):
                self.block(n.body, sc + [{}])
            elif isinstance(n, N.With):
                d = {}
                for t, v in zip(n.targets, n.values):
                    self.assign(t, self.ev(v, sc), d)
                self.block(n.body, sc + [d])
            elif isinstance(n, N.ExprStmt):
                self.ev(n.node, sc)
            else:
                raise Undecided('jinja2 statement %s' % type(n).__name__)

    def assign(self, target, value, d):
        N = self.N
        if isinstance(target, N.Name):
            d[target.name] = value
        elif isinstance(target, N.Tuple):
            vals = list(value)
            if len(vals) != len(target.items):
                raise Undecided('tuple assignment')
            for t, v in zip(target.items, vals):
                self.assign(t, v, d)
        else:
            raise Undecided('assignment target %s' % type(target).__name__)

    def do_for(self, n, sc, depth0, seq=None):
        if seq is None:
            seq = self.ev(n.iter, sc)
        if seq is UNDEF:
            seq = []
        if isinstance(seq, dict):
            seq = list(seq)
        try:
            items = list(seq)
        except TypeError:
            raise Undecided('iteration over %r' % (seq,))
        if n.test is not None:
            kept = []
            for it in items:
                d = {}
                self.assign(n.target, it, d)
                if self.truth(self.ev(n.test, sc + [d])):
                    kept.append(it)
            items = kept
        if not items:
            self.block(n.else_, sc)
            return

        def recurse(sub):
            if not n.recursive:
                raise Undecided('loop() in a non-recursive loop')
            self.do_for(n, sc, depth0 + 1, seq=sub)
            return ''
        lc = _LoopCtx(items, depth0, recurse)
        for i, it in enumerate(items):
            lc.i = i
            d = {'loop': lc}
            self.assign(n.target, it, d)
            self.block(n.body, sc + [d])

    def truth(self, v):
        if isinstance(v, _LoopCtx):
            return True
        try:
            return bool(v)
        except Undecided:
            raise
        except Exception:
            raise Undecided('truth of %r' % (v,))

    def ev_out(self, n, sc):
        """value written to the output and the filters applied to it"""
        N = self.N
        fl = []
        while isinstance(n, N.Filter) and n.name in _TRANSPARENT_FILTERS and n.node is not None:
            fl.append(n.name)
            n = n.node
        if isinstance(n, N.MarkSafe):
            n = n.expr
        return self.ev(n, sc), fl

    def getattr(self, v, name):
        if isinstance(v, (Data, _LoopCtx)):
            return v.get(name)
        if v is UNDEF:
            return UNDEF
        if isinstance(v, dict):
            return v.get(name, UNDEF)
        if isinstance(v, (str, list, tuple, int)):
            return UNDEF
        raise Undecided('attribute %s of %r' % (name, v))

    def ev(self, n, sc):
        N = self.N
        if isinstance(n, N.Const):
            return n.value
        if isinstance(n, N.TemplateData):
            return n.data
        if isinstance(n, N.Name):
            return self.lookup(n.name, sc)
        if isinstance(n, N.Getattr):
            return self.getattr(self.ev(n.node, sc), n.attr)
        if isinstance(n, N.Getitem):
            v, k = self.ev(n.node, sc), self.ev(n.arg, sc)
            if isinstance(k, str):
                return self.getattr(v, k)
            try:
                return v[k]
            except Undecided:
                raise
            except Exception:
                return UNDEF
        if isinstance(n, N.Slice):
            return slice(*(None if x is None else self.ev(x, sc) for x in (n.start, n.stop, n.step)))
        if isinstance(n, N.CondExpr):
            if self.truth(self.ev(n.test, sc)):
                return self.ev(n.expr1, sc)
            return self.ev(n.expr2, sc) if n.expr2 is not None else UNDEF
        if isinstance(n, N.Not):
            return not self.truth(self.ev(n.node, sc))
        if isinstance(n, N.And):
            l = self.ev(n.left, sc)
            return self.ev(n.right, sc) if self.truth(l) else l
        if isinstance(n, N.Or):
            l = self.ev(n.left, sc)
            return l if self.truth(l) else self.ev(n.right, sc)
        if isinstance(n, N.Compare):
            l = self.ev(n.expr, sc)
            for op in n.ops:
                r = self.ev(op.expr, sc)
                try:
                    ok = {'eq': lambda: l == r, 'ne': lambda: l != r, 'lt': lambda: l < r, 'lteq': lambda: l <= r,
                          'gt': lambda: l > r, 'gteq': lambda: l >= r, 'in': lambda: l in r, 'notin': lambda: l not in r}[op.op]()
                except Undecided:
                    raise
                except Exception:
                    raise Undecided('comparison %s' % op.op)
                if not ok:
                    return False
                l = r
            return True
        if isinstance(n, N.Filter):
            if n.name in self.filters:
                return self.filters[n.name](self, self.ev(n.node, sc), [self.ev(a, sc) for a in n.args])
            v = self.ev(n.node, sc) if n.node is not None else UNDEF
            if n.name in ('length', 'count'):
                try:
                    return len(v)
                except TypeError:
                    raise Undecided('length of %r' % (v,))
            if n.name == 'default' or n.name == 'd':
                args = [self.ev(a, sc) for a in n.args]
                boolean = len(args) > 1 and args[1]
                for kw in n.kwargs:
                    if kw.key == 'boolean':
                        boolean = self.ev(kw.value, sc)
                if v is UNDEF or (boolean and not self.truth(v)):
                    return args[0] if args else ''
                return v
            if n.name in ('list',):
                return list(v)
            if n.name in ('first', 'last'):
                seq = list(v)
                return (seq[0] if n.name == 'first' else seq[-1]) if seq else UNDEF
            if n.name == 'reverse':
                return list(reversed(list(v)))
            if n.name == 'join':
                return Data('join(%s)' % ','.join(map(str, v)))
            if n.name in _TRANSPARENT_FILTERS:
                return v
            raise Undecided('filter %s' % n.name)
        if isinstance(n, N.Test):
            v = self.ev(n.node, sc)
            table = {'defined': lambda: v is not UNDEF, 'undefined': lambda: v is UNDEF, 'none': lambda: v is None,
                     'string': lambda: isinstance(v, str), 'iterable': lambda: isinstance(v, (list, tuple, str, dict)) or (isinstance(v, Data) and v.children is not None),
                     'sequence': lambda: isinstance(v, (list, tuple, str)) or (isinstance(v, Data) and v.children is not None),
                     'mapping': lambda: isinstance(v, dict), 'number': lambda: isinstance(v, (int, float)) and not isinstance(v, bool),
                     'true': lambda: v is True, 'false': lambda: v is False}
            if n.name in table:
                return table[n.name]()
            if n.name in ('odd', 'even') and isinstance(v, int):
                return (v % 2 == 1) == (n.name == 'odd')
            raise Undecided('test %s' % n.name)
        if isinstance(n, N.Call):
            f = n.node
            if isinstance(f, N.Name) and isinstance(self.lookup(f.name, sc), _LoopCtx) and len(n.args) == 1:
                self.lookup(f.name, sc).recurse(self.ev(n.args[0], sc))
                return ''
            fv = self.ev(f, sc)
            if callable(fv):
                return fv(*[self.ev(a, sc) for a in n.args])
            raise Undecided('call of %s' % type(f).__name__)
        if isinstance(n, (N.Tuple, N.List)):
            vals = [self.ev(x, sc) for x in n.items]
            return tuple(vals) if isinstance(n, N.Tuple) else vals
        if isinstance(n, N.Dict):
            return {self.ev(p.key, sc): self.ev(p.value, sc) for p in n.items}
        if isinstance(n, N.Concat):
            return ''.join(str(self.ev(x, sc)) for x in n.nodes)
        if isinstance(n, (N.Add, N.Sub, N.Mul, N.Div, N.FloorDiv, N.Mod)):
            l, r = self.ev(n.left, sc), self.ev(n.right, sc)
            try:
                return {'Add': lambda: l + r, 'Sub': lambda: l - r, 'Mul': lambda: l * r, 'Div': lambda: l / r,
                        'FloorDiv': lambda: l // r, 'Mod': lambda: l % r}[type(n).__name__]()
            except Exception:
                raise Undecided('arithmetic on %r, %r' % (l, r))
        if isinstance(n, N.Neg):
            return -self.ev(n.node, sc)
        if isinstance(n, N.MarkSafe):
            return self.ev(n.expr, sc)
        raise Undecided('jinja2 expression %s' % type(n).__name__)


def run_jinja(body, env, filters=None):
    from .templates import jinja_env
    tree = jinja_env().parse(body)
    return Jinja(env, filters).run(tree)


# ---------------------------------------------------------------------------
# TAL (simpleTAL as used by the PageTemplate renderer)
VOID = {'br', 'hr', 'img', 'meta', 'link', 'input', 'area', 'base', 'col', 'embed', 'param', 'source', 'track', 'wbr'}


class _El:
    def __init__(self, tag, attrs, line):
        self.tag, self.attrs, self.line, self.children = tag, attrs, line, []


class _Tree(HTMLParser):
    def __init__(self):
        HTMLParser.__init__(self, convert_charrefs=False)
        self.root = _El(None, [], 0)
        self.stack = [self.root]

    def handle_starttag(self, tag, attrs):
        e = _El(tag, attrs, self.getpos()[0])
        self.stack[-1].children.append(e)
        if tag not in VOID:
            self.stack.append(e)

    def handle_startendtag(self, tag, attrs):
        self.stack[-1].children.append(_El(tag, attrs, self.getpos()[0]))

    def handle_endtag(self, tag):
        for i in range(len(self.stack) - 1, 0, -1):
            if self.stack[i].tag == tag:
                del self.stack[i:]
                return

    def handle_data(self, data):
        self.stack[-1].children.append(data)

    def handle_entityref(self, name):
        self.stack[-1].children.append('&%s;' % name)

    def handle_charref(self, name):
        self.stack[-1].children.append('&#%s;' % name)

    def handle_comment(self, data):
        pass


class _Repeat:
    def __init__(self, seq):
        self.seq, self.i = seq, 0

    def get(self, name):
        n = len(self.seq)
        table = {'index': self.i, 'number': self.i + 1, 'even': self.i % 2 == 0, 'odd': self.i % 2 == 1,
                 'start': self.i == 0, 'end': self.i == n - 1, 'length': n}
        if name in table:
            return table[name]
        raise Undecided('repeat variable %s' % name)


NOTHING = None


class Tal:
    def __init__(self, env, prefixes=None, max_events=20000):
        self.events = []
        self.env = dict(env)
        self.prefixes = dict(prefixes or {})
        self.max_events = max_events

    def emit(self, ev):
        self.events.append(ev)
        if len(self.events) > self.max_events:
            raise Undecided('output too long')

    def run(self, body):
        p = _Tree()
        p.feed(body)
        p.close()
        sc = [dict(self.env), {'repeat': {}}]
        self.children(p.root, sc)
        return self.events

    def children(self, el, sc):
        for c in el.children:
            if isinstance(c, str):
                self.emit(('text', c))
            else:
                self.element(c, sc)

    def lookup(self, name, sc):
        for d in reversed(sc):
            if name in d:
                return d[name]
        raise KeyError(name)

    def element(self, el, sc):
        attrs = dict((k, v) for k, v in el.attrs)
        for k in attrs:
            if k.startswith('metal:') or (k.startswith('tal:') and k not in ('tal:define', 'tal:condition', 'tal:repeat', 'tal:content', 'tal:replace', 'tal:attributes', 'tal:omit-tag')):
                raise Undecided('%s' % k)
        sc = sc + [{}]
        if 'tal:define' in attrs:
            for part in re.split(r'(?<!;);(?!;)', attrs['tal:define']):
                part = part.strip().replace(';;', ';')
                if not part:
                    continue
                bits = part.split(None, 1)
                glob = False
                if bits[0] in ('global', 'local') and len(bits) == 2:
                    glob = bits[0] == 'global'
                    bits = bits[1].split(None, 1)
                if len(bits) != 2:
                    raise Undecided('tal:define %r' % part)
                (sc[0] if glob else sc[-1])[bits[0]] = self.expr(bits[1], sc)
        if 'tal:condition' in attrs and not self.truth(self.expr(attrs['tal:condition'], sc)):
            return
        if 'tal:repeat' in attrs:
            bits = attrs['tal:repeat'].strip().split(None, 1)
            if len(bits) != 2:
                raise Undecided('tal:repeat %r' % attrs['tal:repeat'])
            seq = self.expr(bits[1], sc)
            if seq is None:
                return
            try:
                items = list(seq)
            except TypeError:
                raise Undecided('tal:repeat over %r' % (seq,))
            rp = _Repeat(items)
            reps = dict(self.lookup('repeat', sc))
            reps[bits[0]] = rp
            for i, it in enumerate(items):
                rp.i = i
                self.body(el, attrs, sc + [{bits[0]: it, 'repeat': reps}])
            return
        self.body(el, attrs, sc)

    def body(self, el, attrs, sc):
        if 'tal:attributes' in attrs:
            for part in re.split(r'(?<!;);(?!;)', attrs['tal:attributes']):
                part = part.strip().replace(';;', ';')
                if not part:
                    continue
                bits = part.split(None, 1)
                if len(bits) != 2:
                    raise Undecided('tal:attributes %r' % part)
                try:
                    v = self.expr(bits[1], sc)
                except Undecided as e:
                    v = Data('undetermined(%s)' % e)
                self.emit(('attr', bits[0], v))
        for key in ('tal:replace', 'tal:content'):
            if key in attrs:
                e = attrs[key].strip()
                structure = False
                if e.startswith('structure ') or e.startswith('text '):
                    structure = e.startswith('structure ')
                    e = e.split(None, 1)[1]
                v = self.expr(e, sc)
                if v is DEFAULT:
                    self.children(el, sc)
                elif v is not None:
                    self.emit(('value', v, ('structure',) if structure else ()))
                return
        self.children(el, sc)

    def truth(self, v):
        if v is DEFAULT:
            return True
        try:
            return bool(v)
        except Undecided:
            raise
        except Exception:
            raise Undecided('truth of %r' % (v,))

    def expr(self, e, sc):
        e = e.strip()
        m = re.match(r'([A-Za-z][\w-]*):', e)
        kind = m.group(1) if m else 'path'
        rest = e[m.end():] if m else e
        if kind == 'path' or kind not in ('not', 'string', 'python', 'exists', 'nocall', 'structure') and kind not in self.prefixes:
            if m and kind != 'path':
                # "a:b" that is not a known prefix: a path
                rest = e
            return self.path_alternatives(rest, sc)
        if kind == 'not':
            return not self.truth(self.expr(rest, sc))
        if kind == 'exists':
            try:
                self.path_one(rest.strip(), sc)
                return True
            except (KeyError, AttributeError):
                return False
        if kind == 'nocall':
            return self.path_alternatives(rest, sc)
        if kind == 'string':
            def sub(mm):
                if mm.group(0) == '$$':
                    return '$'
                return str(self.path_alternatives(mm.group(1) or mm.group(2), sc))
            return re.sub(r'\$\$|\$\{([^}]*)\}|\$([A-Za-z_][\w/]*)', sub, rest)
        if kind == 'python':
            return self.python(rest, sc)
        if kind in self.prefixes:
            return self.prefixes[kind](self, self.path_alternatives(rest, sc))
        raise Undecided('TALES prefix %s' % kind)

    def path_alternatives(self, e, sc):
        alts = [a.strip() for a in e.split('|')]
        for i, a in enumerate(alts):
            if re.match(r'(not|string|python|exists|nocall):', a):
                return self.expr(a, sc)
            try:
                return self.path_one(a, sc)
            except (KeyError, AttributeError):
                if i == len(alts) - 1:
                    return None     # plasTeX's simpleTAL: a path that does not resolve is nothing
        return None

    def path_one(self, p, sc):
        parts = p.split('/')
        head = parts[0]
        if head == 'nothing':
            return None
        if head == 'default':
            return DEFAULT
        v = self.lookup(head, sc)
        for name in parts[1:]:
            if name.startswith('?'):
                name = str(self.lookup(name[1:], sc))
            if isinstance(v, (Data, _Repeat)):
                r = v.get(name)
                if r is UNDEF:
                    raise KeyError(name)
                v = r
            elif isinstance(v, dict):
                v = v[name]
            elif isinstance(v, (list, tuple)) and name.isdigit():
                v = v[int(name)]
            else:
                raise Undecided('path step %s on %r' % (name, v))
            if callable(v) and not isinstance(v, Data):
                v = v()
        return v

    def python(self, src, sc):
        try:
            tree = pyast.parse(src.strip(), mode='eval').body
        except SyntaxError:
            raise Undecided('python: %s' % src)
        return self.py(tree, sc)

    def py(self, n, sc):
        if isinstance(n, pyast.Constant):
            return n.value
        if isinstance(n, pyast.Name):
            try:
                return self.lookup(n.id, sc)
            except KeyError:
                raise Undecided('python name %s' % n.id)
        if isinstance(n, pyast.Attribute):
            v = self.py(n.value, sc)
            if isinstance(v, Data):
                r = v.get(n.attr)
                if r is UNDEF:
                    raise Undecided('python attribute %s' % n.attr)
                return r
            raise Undecided('python attribute %s of %r' % (n.attr, v))
        if isinstance(n, pyast.Call) and isinstance(n.func, pyast.Name) and not n.keywords:
            args = [self.py(a, sc) for a in n.args]
            f = n.func.id
            try:
                if f == 'path' and len(args) == 1:
                    return self.path_alternatives(args[0], sc)
                if f == 'len' and len(args) == 1:
                    return len(args[0])
                if f in ('int', 'str', 'float', 'bool') and len(args) == 1 and isinstance(args[0], (int, float, str, bool)):
                    return {'int': int, 'str': str, 'float': float, 'bool': bool}[f](args[0])
                if f == 'test' and len(args) >= 2:
                    for i in range(0, len(args) - 1, 2):
                        if self.truth(args[i]):
                            return args[i + 1]
                    return args[-1] if len(args) % 2 else None
            except Undecided:
                raise
            except Exception:
                raise Undecided('python call %s' % f)
            raise Undecided('python call %s' % f)
        if isinstance(n, pyast.BinOp):
            l, r = self.py(n.left, sc), self.py(n.right, sc)
            ops = {pyast.Add: lambda: l + r, pyast.Sub: lambda: l - r, pyast.Mult: lambda: l * r, pyast.Div: lambda: l / r,
                   pyast.FloorDiv: lambda: l // r, pyast.Mod: lambda: l % r}
            if type(n.op) in ops and all(isinstance(x, (int, float, str, tuple)) for x in (l, r)):
                try:
                    return ops[type(n.op)]()
                except Exception:
                    raise Undecided('python arithmetic')
            raise Undecided('python arithmetic')
        if isinstance(n, pyast.Compare) and len(n.ops) == 1:
            l, r = self.py(n.left, sc), self.py(n.comparators[0], sc)
            ops = {pyast.Eq: lambda: l == r, pyast.NotEq: lambda: l != r, pyast.Lt: lambda: l < r, pyast.LtE: lambda: l <= r,
                   pyast.Gt: lambda: l > r, pyast.GtE: lambda: l >= r, pyast.In: lambda: l in r, pyast.NotIn: lambda: l not in r,
                   pyast.Is: lambda: l is r, pyast.IsNot: lambda: l is not r}
            try:
                return ops[type(n.ops[0])]()
            except Exception:
                raise Undecided('python comparison')
        if isinstance(n, pyast.BoolOp):
            v = None
            for x in n.values:
                v = self.py(x, sc)
                if isinstance(n.op, pyast.And) and not self.truth(v):
                    return v
                if isinstance(n.op, pyast.Or) and self.truth(v):
                    return v
            return v
        if isinstance(n, pyast.UnaryOp) and isinstance(n.op, pyast.Not):
            return not self.truth(self.py(n.operand, sc))
        if isinstance(n, pyast.Tuple):
            return tuple(self.py(x, sc) for x in n.elts)
        raise Undecided('python expression %s' % type(n).__name__)


class _Default:
    def __repr__(self):
        return 'default'


DEFAULT = _Default()


def run_tal(body, env, prefixes=None):
    return Tal(env, prefixes).run(body)
