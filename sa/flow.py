"""Engine B (i): structural forward dataflow with small finite value sets.

`run(stmts, init, transfer)` propagates a set of abstract values (hashable,
e.g. tuples of counters) through a statement list.  Every branch is taken as
feasible (path-insensitive), joins are set unions, loops are iterated to a
fixed point.  A loop whose body keeps producing new values (non-zero net
effect) is reported as AnalysisError instead of being widened.

transfer(node, value) -> value   is applied, in source order, to every ast
node of the simple statements and of the tests (the client looks at Call /
Assign / Delete nodes it is interested in and returns the value unchanged
otherwise)."""
import ast

from .report import AnalysisError

MAXSET = 64


class Multi(frozenset):
    """Returned by a transfer function that has several possible results (e.g. the
    summary of a helper with more than one exit)."""


def _apply(node, vals, transfer):
    """Apply transfer over all sub-nodes of an expression/simple statement."""
    if node is None:
        return vals
    nodes = [n for n in ast.walk(node)
             if not isinstance(n, (ast.FunctionDef, ast.AsyncFunctionDef, ast.ClassDef, ast.Lambda)) or n is node]
    nodes.sort(key=lambda n: (getattr(n, 'lineno', 0), getattr(n, 'col_offset', 0)))
    out = set(vals)
    for n in nodes:
        nxt = set()
        for v in out:
            r = transfer(n, v)
            if isinstance(r, Multi):
                nxt.update(r)
            else:
                nxt.add(r)
        out = nxt
    return out


def run(stmts, init, transfer, seen=None):
    """Returns dict kind -> set(values) with kinds fall/return/raise/break/continue.
    `seen`, if given, collects every intermediate value set (for try handlers)."""
    outs = {'return': set(), 'raise': set(), 'break': set(), 'continue': set()}
    cur = set(init)

    def note(s):
        if seen is not None:
            seen.update(s)

    note(cur)
    for st in stmts:
        if not cur:
            break
        if isinstance(st, (ast.FunctionDef, ast.AsyncFunctionDef, ast.ClassDef)):
            continue
        if isinstance(st, ast.If):
            t = _apply(st.test, cur, transfer)
            a = run(st.body, t, transfer, seen)
            b = run(st.orelse, t, transfer, seen) if st.orelse else {'fall': t}
            cur = set(a.get('fall', set())) | set(b.get('fall', set()))
            for k in outs:
                outs[k] |= a.get(k, set()) | b.get(k, set())
        elif isinstance(st, (ast.For, ast.While)):
            head = _apply(st.iter if isinstance(st, ast.For) else st.test, cur, transfer)
            S = set(head)
            breaks = set()
            for _ in range(200):
                r = run(st.body, S, transfer, seen)
                for k in ('return', 'raise'):
                    outs[k] |= r.get(k, set())
                breaks |= r.get('break', set())
                back = r.get('fall', set()) | r.get('continue', set())
                if isinstance(st, ast.While):
                    back = _apply(st.test, back, transfer)
                new = S | back
                if len(new) > MAXSET:
                    raise AnalysisError('loop at line %d has a body with non-zero net effect (value set keeps growing)' % st.lineno)
                if new == S:
                    break
                S = new
            else:
                raise AnalysisError('no fixed point for loop at line %d' % st.lineno)
            infinite = isinstance(st, ast.While) and isinstance(st.test, ast.Constant) and bool(st.test.value)
            exits = set() if infinite else S
            if st.orelse and exits:
                r = run(st.orelse, exits, transfer, seen)
                for k in outs:
                    outs[k] |= r.get(k, set())
                exits = r.get('fall', set())
            cur = exits | breaks
        elif isinstance(st, ast.Try):
            inner = set()
            r = run(st.body, cur, transfer, inner)
            note(inner)
            res = {k: set(v) for k, v in r.items()}
            raised = res.pop('raise', set())
            hin = inner | raised | set(cur)
            hf = set()                       # values at which a handler falls through (these skip orelse)
            if st.handlers:
                for h in st.handlers:
                    hr = run(h.body, hin, transfer, seen)
                    for k, v in hr.items():
                        if k == 'fall':
                            hf.update(v)
                        else:
                            res.setdefault(k, set()).update(v)
            else:
                res.setdefault('raise', set()).update(raised)
            if st.orelse:
                res.pop('fall', None)
                er = run(st.orelse, r.get('fall', set()), transfer, seen)
                for k, v in er.items():
                    res.setdefault(k, set()).update(v)
            res.setdefault('fall', set()).update(hf)
            if st.finalbody:
                fin = {}
                for k, v in res.items():
                    if not v:
                        continue
                    fr = run(st.finalbody, v, transfer, seen)
                    for k2, v2 in fr.items():
                        fin.setdefault(k if k2 == 'fall' else k2, set()).update(v2)
                res = fin
            cur = set(res.get('fall', set()))
            for k in outs:
                outs[k] |= res.get(k, set())
        elif isinstance(st, (ast.With, ast.AsyncWith)):
            v = cur
            for item in st.items:
                v = _apply(item.context_expr, v, transfer)
            r = run(st.body, v, transfer, seen)
            cur = set(r.get('fall', set()))
            for k in outs:
                outs[k] |= r.get(k, set())
        elif isinstance(st, ast.Return):
            v = _apply(st.value, cur, transfer)
            for x in v:
                r = transfer(st, x)
                outs['return'] |= (set(r) if isinstance(r, Multi) else {r})
            cur = set()
        elif isinstance(st, ast.Raise):
            outs['raise'] |= _apply(st.exc, cur, transfer)
            cur = set()
        elif isinstance(st, ast.Break):
            outs['break'] |= cur
            cur = set()
        elif isinstance(st, ast.Continue):
            outs['continue'] |= cur
            cur = set()
        else:
            cur = _apply(st, cur, transfer)
        note(cur)
    outs['fall'] = cur
    return outs


def function_exits(fn_node, init, transfer):
    """Value sets at the normal exits (return + fall off the end) of a function."""
    r = run(fn_node.body, {init}, transfer)
    return r['return'] | r['fall'], r['raise']
