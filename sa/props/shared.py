"""Rule packs shared by several properties: mechanisms of the core (per-class memo
tables, context frames, number readers) that many properties rest on.  Each
pack is registered under the rule id the including checker passes."""
import ast
import re

from .. import absint as A
from .. import effects as E
from .. import model as M
from ..report import AnalysisError, need
from ..util import SelfHooks, text


# ---------------------------------------------------------------------------
# per-class memo tables
# ---------------------------------------------------------------------------
def _const_str(fn, node):
    if isinstance(node, ast.Constant) and isinstance(node.value, str):
        return node.value
    if isinstance(node, ast.Name):
        vals = [x.value for x in M.walk_no_nested(fn.node) if isinstance(x, ast.Assign) and len(x.targets) == 1
                and isinstance(x.targets[0], ast.Name) and x.targets[0].id == node.id]
        if len(vals) == 1 and isinstance(vals[0], ast.Constant) and isinstance(vals[0].value, str):
            return vals[0].value
    return None


def _is_own_class(model, fn, expr):
    return E.class_ref(model, fn, expr, {'class': {x.targets[0].id for x in M.walk_no_nested(fn.node)
                                                  if isinstance(x, ast.Assign) and len(x.targets) == 1 and isinstance(x.targets[0], ast.Name)
                                                  and M.norm(x.value) in ('type(self)', 'self.__class__')}, 'classattr': {}}) in ('type(self)', 'cls')


class ClassObjHooks(A.Hooks):
    """Classes as heap objects: type(x) gives the object's class object; vars(C) is C's own dictionary; getattr / hasattr /
    setattr on a class object follow Python (own dictionary first, then the base classes, stores into the own dictionary)."""
    def __init__(self, model, cls):
        self.model, self.cls = model, cls

    @staticmethod
    def _lookup(c, name):
        while isinstance(c, A.Obj):
            d = c.attrs.get('__vars')
            if isinstance(d, dict) and name in d:
                return (d[name],)
            c = c.attrs.get('__base')
        return None

    def call(self, interp, node, fname, args, kwargs, state):
        if fname == 'type' and len(args) == 1 and isinstance(args[0], A.Obj) and isinstance(args[0].attrs.get('__classobj'), A.Obj):
            return args[0].attrs['__classobj']
        if fname == 'vars' and len(args) == 1 and isinstance(args[0], A.Obj) and isinstance(args[0].attrs.get('__vars'), dict):
            return args[0].attrs['__vars']
        if fname in ('getattr', 'hasattr', 'setattr', 'delattr') and args and isinstance(args[0], A.Obj) and isinstance(args[0].attrs.get('__vars'), dict) \
           and len(args) >= 2 and isinstance(args[1], str):
            c, name = args[0], args[1]
            if fname == 'setattr' and len(args) == 3:
                c.attrs['__vars'][name] = args[2]
                if name.isidentifier():
                    c.attrs[name] = args[2]
                return A.NONE
            hit = self._lookup(c, name)
            if fname == 'hasattr':
                return hit is not None
            if fname == 'getattr':
                if hit is not None:
                    return A.NONE if hit[0] is None else hit[0]
                if len(args) == 3:
                    return A.NONE if args[2] is None else args[2]
                state.env['__exc'] = 'AttributeError'
                return A.TOP
        if fname == 'ismacro' and len(args) == 1:
            return isinstance(args[0], A.Obj) and args[0].label.startswith('macro:')
        if fname == 'macroName' and len(args) == 1 and isinstance(args[0], A.Obj) and args[0].label.startswith('macro:'):
            return args[0].label[6:]
        if re.match(r'(log|status|deflog)\.\w+$', fname):
            return A.NONE
        return None


def class_objects(m, cls, args_base='', args_sub=''):
    """Two class objects Base <- Sub of the repository class `cls` and one instance of each."""
    def mk(label, base, own):
        c = A.Obj('class:' + label, {'__vars': dict(own), '__base': base}, cls=cls)
        c.attrs.update({k: v for k, v in own.items() if k.isidentifier()})
        if base is not None:
            for k, v in base.attrs.items():
                if not k.startswith('__') and k not in c.attrs:
                    c.attrs[k] = v               # inherited class attributes are visible on the subclass
        c.attrs['__mro__'] = (c,) + (base.attrs['__mro__'] if base is not None else ())
        c.attrs['__name__'] = label
        return c
    base = mk('Base', None, {'args': args_base, 'X': A.Obj('macro:X', {})})
    sub = mk('Sub', base, {'args': args_sub, 'Y': A.Obj('macro:Y', {})} if args_sub is not None else {'Y': A.Obj('macro:Y', {})})
    ib = A.Obj('a-Base', {'__classobj': base}, cls=cls)
    isub = A.Obj('a-Sub', {'__classobj': sub}, cls=cls)
    return base, sub, ib, isub


def cache_rules(chk, m, rid):
    R = chk.rule(rid, 'per-class memo tables (Macro.arguments, Macro.locals) interpreted on two class objects Base <- Sub, the base class '
                 'used first: the subclass gets its own table (not the object computed for the base class), stored in its own class '
                 'dictionary; a second call gives the same object again; the table of the base class is left as it was', 4)
    Macro = m.cls('plasTeX', 'Macro')
    entries = []
    for name in ('arguments', 'locals'):
        fn = m.find_method(Macro, name)
        need(fn is not None, 'Macro.%s not found' % name)
        entries.append((name, fn))
        chk.analysed(fn)

    def run(fn, me, extra):
        h = ClassObjHooks(m, Macro)
        h.keep = lambda ev: False
        it = A.Interp(model=m, scope=fn, hooks=h, max_iter=40, exc_edges=False, inline=5, heap=True, precise_exc=True, max_states=20000)
        env = {'self': me}
        env.update(extra)
        outs = it.run_function(fn, env=env)
        if it.imprecise or it.unknown_branches:
            raise Undetermined('; '.join(sorted(set(list(it.imprecise) + list(it.unknown_branches)))[:3]))
        if len(outs) != 1:
            raise Undetermined('%d outcomes' % len(outs))
        return outs[0]

    class Undetermined(Exception):
        pass

    def describe(name, v):
        if name == 'arguments':
            return 'a list of %d' % len(v) if isinstance(v, list) else repr(v)
        return 'names %s' % sorted(v) if isinstance(v, dict) else repr(v)
    for name, fn in entries:
        key = '@' + name
        for label, args_base, args_sub in (('both classes without arguments', '', ''),) + ((('the subclass inherits the argument string', '', None),
                                                                                             ('both classes with the same argument string', 'title', 'title'))
                                                                                            if name == 'arguments' else ()):
            base, sub, ib, isub = class_objects(m, Macro, args_base, args_sub)
            keep = {'__base': base, '__sub': sub, '__ib': ib, '__isub': isub}
            inst = 'Macro.%s: %s' % (name, label)
            try:
                shared = lambda st: {k: v for k, v in st.env.items() if k.startswith('__cls:')}      # (class-level tables live on between the calls)
                k1, s1, v1 = run(fn, ib, keep)
                ib, isub, base, sub = s1.env['__ib'], s1.env['__isub'], s1.env['__base'], s1.env['__sub']
                keep = dict(shared(s1), **{'__base': base, '__sub': sub, '__ib': ib, '__isub': isub, '__v1': v1})
                k2, s2, v2 = run(fn, isub, keep)
                ib, isub, base, sub, v1 = (s2.env[x] for x in ('__ib', '__isub', '__base', '__sub', '__v1'))
                keep = dict(shared(s2), **{'__base': base, '__sub': sub, '__ib': ib, '__isub': isub, '__v1': v1, '__v2': v2})
                k3, s3, v3 = run(fn, isub, keep)
                base, sub, v1, v2 = (s3.env[x] for x in ('__base', '__sub', '__v1', '__v2'))
            except Undetermined as e:
                chk.undecided(R, inst, str(e), chk.where(fn))
                continue
            except AnalysisError as e:
                chk.undecided(R, inst, str(e), chk.where(fn))
                continue
            want_desc = {'arguments': 'a list of 0', 'locals': None}[name]
            facts = (k1, k2, k3,
                     'the subclass has its own table' if (v2 is not v1 and isinstance(v2, (list, dict))) else 'the subclass got the table of the base class',
                     'stored in the own class dictionary' if sub.attrs['__vars'].get(key) is v2 else 'not stored in the own class dictionary',
                     'base class table kept' if base.attrs['__vars'].get(key) is v1 else 'base class table replaced',
                     'second call gives the same table' if v3 is v2 else 'second call gives another table',
                     describe(name, v1), describe(name, v2))
            want = ('return', 'return', 'return', 'the subclass has its own table', 'stored in the own class dictionary', 'base class table kept',
                    'second call gives the same table',
                    ('a list of %d' % (1 if args_base else 0)) if name == 'arguments' else "names ['X']",
                    ('a list of %d' % (1 if args_sub else 0)) if name == 'arguments' else "names ['X', 'Y']")
            chk.decide(R, inst, {facts}, {want},
                       'Macro.%s on an instance of Base, then twice on an instance of Sub(Base): %s; expected %s - attribute lookup follows the '
                       'class hierarchy, so a class whose base class was used earlier in the process must not get the table computed for the '
                       'base class (eqnarray after eqnarray*, longtable after tabular), and classes must not share one mutable table'
                       % (name, facts, want), chk.where(fn))


# ---------------------------------------------------------------------------
# number readers
# ---------------------------------------------------------------------------
def tok(char, catcode=12, element=False):
    return A.Sym('tok:%s' % char, truthy=True,
                 attrs={'char': char, 'catcode': catcode, 'nodeType': 1 if element else 3, 'distinct': True, 'nodeName': char})


class TokenStreamHooks(SelfHooks):
    """`for t in self` walks the expanded token stream, `self.itertokens()` the unexpanded one;
    a token compares equal to a string when its character does."""

    def __init__(self, model, cls, expanded, raw):
        SelfHooks.__init__(self, model, cls)
        self.expanded, self.raw = list(expanded), list(raw)

    def iter_item(self, interp, loop, k, state):
        src = text(loop.iter).replace(' ', '')
        if src in ('self', 'iter(self)', 'tex', 'iter(tex)'):
            items = self.expanded
        elif src in ('self.itertokens()', 'iter(self.itertokens())', 'tex.itertokens()', 'iter(tex.itertokens())'):
            items = self.raw
        else:
            v = interp.ev(loop.iter, state)
            if isinstance(v, A.Sym) and v.label == 'rawstream':
                items = self.raw
            elif isinstance(v, A.Sym) and v.label == 'expandedstream':
                items = self.expanded
            else:
                return None
        pos = state.env.get('__pos', 0)
        if pos >= len(items):
            return A.STOP
        state.env['__pos'] = pos + 1
        return items[pos]

    def take(self, interp, v, state):
        if isinstance(v, A.Sym) and v.label in ('rawstream', 'expandedstream'):
            items = self.raw if v.label == 'rawstream' else self.expanded
            pos = state.env.get('__pos', 0)
            if pos >= len(items):
                return A.STOP
            state.env['__pos'] = pos + 1
            return items[pos]
        return NotImplemented

    def call(self, interp, node, fname, args, kwargs, state):
        if fname in ('self.itertokens', 'tex.itertokens') and not args:
            return A.Sym('rawstream')
        if fname == 'iter' and len(args) == 1 and isinstance(args[0], A.Sym) and args[0].label in ('rawstream', 'expandedstream'):
            return args[0]
        if fname == 'iter' and len(node.args) == 1 and text(node.args[0]) in ('self', 'tex'):
            return A.Sym('expandedstream')            # iter(self): the expanded stream (next(iter(self), default) reads one token)
        if fname == 'next' and args and isinstance(args[0], A.Sym) and args[0].label in ('rawstream', 'expandedstream'):
            items = self.raw if args[0].label == 'rawstream' else self.expanded
            pos = state.env.get('__pos', 0)
            if pos < len(items):
                state.env['__pos'] = pos + 1
                return items[pos]
            if len(args) > 1:
                return A.NONE if args[1] is None else args[1]
            state.env['__exc'] = 'StopIteration'
            return A.TOP
        if fname == 'str' and len(args) == 1:
            if isinstance(args[0], A.Sym) and 'char' in args[0].attrs:
                return args[0].attrs['char']
            if isinstance(args[0], A.Inst) and args[0].args and isinstance(args[0].args[0], str):
                return args[0].args[0]
            if isinstance(args[0], A.Obj) and args[0].attrs.get('__args') and isinstance(args[0].attrs['__args'][0], str):
                return args[0].attrs['__args'][0]          # (heap mode: a token object built from a character)
        return None

    def decide(self, interp, test, state):
        if isinstance(test, ast.Compare) and len(test.ops) == 1 and isinstance(test.ops[0], (ast.Eq, ast.NotEq, ast.In, ast.NotIn)):
            l = interp.ev(test.left, state)
            r = interp.ev(test.comparators[0], state)
            if isinstance(r, A.Sym) and 'char' in r.attrs and (isinstance(l, (str, A.Inst)) or (isinstance(l, A.Obj) and l.attrs.get('__args'))):
                l, r = r, l
            if isinstance(r, A.Inst) and r.args and isinstance(r.args[0], str):
                r = r.args[0]          # a token object built from a character: Other('[')
            if isinstance(r, A.Obj) and r.attrs.get('__args') and isinstance(r.attrs['__args'][0], str):
                r = r.attrs['__args'][0]
            if isinstance(l, A.Sym) and 'char' in l.attrs and isinstance(r, (str, tuple, list)):
                if isinstance(test.ops[0], (ast.Eq, ast.NotEq)):
                    res = isinstance(r, str) and l.attrs['char'] == r
                    return res if isinstance(test.ops[0], ast.Eq) else not res
                res = l.attrs['char'] in r
                return res if isinstance(test.ops[0], ast.In) else not res
        return None


def sign_rules(chk, m, rid):
    R = chk.rule(rid, 'readOptionalSigns (abstract interpretation over token streams): every "-" flips the sign, "+" and blanks '
                 'are skipped, the first other token is pushed back exactly once, and the signs are taken from the expanded '
                 'stream (a sign produced by a macro counts)', 6)
    TeX = m.cls('plasTeX.TeX', 'TeX')
    fn = m.find_method(TeX, 'readOptionalSigns')
    need(fn is not None, 'TeX.readOptionalSigns not found')
    chk.analysed(fn)
    minus, plus, sp = tok('-'), tok('+'), tok(' ', 10)
    d3 = tok('3')
    mac = tok('n', 0, element=True)     # an unexpanded macro \n whose expansion is "-5"
    cases = [('no sign', [d3], None, 1, ['tok:3']),
             ('one minus', [minus, d3], None, -1, ['tok:3']),
             ('two minus signs cancel', [minus, minus, d3], None, 1, ['tok:3']),
             ('three minus signs', [minus, minus, minus, d3], None, -1, ['tok:3']),
             ('plus signs and blanks are skipped', [minus, plus, sp, minus, plus, d3], None, 1, ['tok:3']),
             ('a sign produced by a macro counts', [minus, tok('5')], [mac], -1, ['tok:5']),
             ('end of input', [minus], None, -1, [])]
    for label, expanded, raw, want, pushed in cases:
        h = TokenStreamHooks(m, TeX, expanded, raw if raw is not None else expanded)
        h.keep = lambda ev: ev[0] == 'call' and ev[1] in ('self.pushToken', 'self.pushTokens')
        h.should_inline = A.private_only
        it = A.Interp(model=m, scope=fn, hooks=h, max_iter=len(expanded) + 2, exc_edges=False, heap=True, precise_exc=True, inline=3)
        outs = it.run_function(fn, env={})
        chk.paths += len(outs)
        got = set()
        for kind, s2, v in outs:
            back = [a.label if isinstance(a, A.Sym) else repr(a) for e in s2.trace for a in e[2]]
            got.add((kind, repr(v), tuple(back)))
        chk.decide(R, 'readOptionalSigns: %s' % label, got, {('return', repr(want), tuple(pushed))},
                   'reading the signs of %s gives (outcome, sign, tokens pushed back) %s; expected sign %+d with %s pushed back'
                   % ([t.attrs['char'] for t in expanded], sorted(got), want, pushed), chk.where(fn))


def grouping_rules(chk, m, rid):
    R = chk.rule(rid, 'readGrouping (abstract interpretation over token streams): a present group yields the list of its tokens '
                 '(an empty list when it is empty, never "absent"), nested delimiters are counted, a control sequence named like a '
                 'delimiter (\\[ \\]) is not a delimiter, and a token that does not open the group is pushed back', 6)
    TeX = m.cls('plasTeX.TeX', 'TeX')
    fn = m.find_method(TeX, 'readGrouping')
    need(fn is not None, 'TeX.readGrouping not found')
    chk.analysed(fn)
    LB, RB = (lambda: tok('[')), (lambda: tok(']'))
    a, b = tok('a', 11), tok('b', 11)
    ELB, ERB = tok('[', 0, element=True), tok(']', 0, element=True)
    cases = [('empty group', [LB(), RB()], ('list', [])),
             ('one token', [LB(), a, RB()], ('list', ['tok:a'])),
             ('nested delimiters', [LB(), LB(), a, RB(), RB()], ('list', ['tok:[', 'tok:a', 'tok:]'])),
             ('a control sequence \\[ does not open a group', [ELB, a, RB()], ('absent', 'tok:[')),
             ('a control sequence \\] does not close the group', [LB(), a, ERB, b, RB()], ('list', ['tok:a', 'tok:]', 'tok:b'])),
             ('another token is pushed back', [a], ('absent', 'tok:a'))]
    for label, stream, want in cases:
        h = TokenStreamHooks(m, TeX, stream, stream)
        h.keep = lambda ev: ev[0] == 'call' and ev[1] == 'self.pushToken'
        h.should_inline = A.private_only
        it = A.Interp(model=m, scope=fn, hooks=h, max_iter=len(stream) + 2, exc_edges=False, inline=2, heap=True, precise_exc=True)
        outs = it.run_function(fn, env={'chars': '[]', 'expanded': False, 'parentNode': None})
        chk.paths += len(outs)
        got = set()
        for kind, s2, v in outs:
            if kind != 'return':
                continue
            pushed = [x.label if isinstance(x, A.Sym) else repr(x) for e in s2.trace for x in e[2]]
            first = v[0] if isinstance(v, tuple) and v else A.TOP
            if isinstance(first, list):
                got.add(('list', tuple(x.label if isinstance(x, A.Sym) else repr(x) for x in first)) + ((tuple(pushed),) if pushed else ()))
            elif first is None:
                got.add(('absent', pushed[0] if len(pushed) == 1 else tuple(pushed)))
            else:
                got.add(('TOP',))
        w = ('list', tuple(want[1])) if want[0] == 'list' else want
        chk.decide(R, 'readGrouping: %s' % label, got, {w},
                   'readGrouping("[]") on %s gives %s, expected %s' % ([t.attrs['char'] if t.attrs['catcode'] else '\\' + t.attrs['char'] for t in stream],
                                                                    sorted(got, key=repr), w), chk.where(fn))


# ---------------------------------------------------------------------------
# numeric readers, decided on concrete character tokens
# ---------------------------------------------------------------------------
SIGN = 3        # marker returned for readOptionalSigns: a result shows how often the sign was applied


def ch(c, catcode=12):
    return A.TokStr(c, nodeType=3, catcode=catcode, param=False)


def param(value):
    return A.TokStr('', nodeType=1, catcode=0, param=True, value=value, nodeName='reg')


class NumHooks(TokenStreamHooks):
    READERS = {'self.readDecimal': 5.0, 'self.readUnitOfMeasure': 7, 'self.readDimen': 10, 'self.readMuDimen': 10, 'self.readStretch': 1,
               'self.readShrink': 2, 'self.readMuStretch': 1, 'self.readMuShrink': 2, 'self.readInteger': 11, 'self.readNumber': 11}

    def __init__(self, model, cls, stream, own):
        TokenStreamHooks.__init__(self, model, cls, stream, stream)
        self.own = own        # name of the reader under analysis (never answered by a marker)

    def call(self, interp, node, fname, args, kwargs, state):
        import string
        if fname == 'self.readOptionalSigns':
            state.env['__signs'] = state.env.get('__signs', 0) + 1
            return SIGN
        if fname == 'self.readSequence' and args:
            chars = args[0]
            seq = {string.octdigits: '17', string.hexdigits: '1F', string.digits: '2'}.get(chars)
            if seq is None:
                return None
            opt = kwargs.get('optspace', args[1] if len(args) > 1 else True)
            state.env['__optspace'] = state.env.get('__optspace', ()) + (opt,)
            return seq
        if fname == 'self.readOneOptionalSpace':
            state.env['__optspace'] = state.env.get('__optspace', ()) + (True,)
            return A.NONE
        if fname in self.READERS and fname != 'self.' + self.own:
            return self.READERS[fname]
        if fname not in ('number', 'dimen', 'mudimen', 'float', 'glue', 'muglue') and isinstance(node.func, ast.Name):
            fv = state.env.get(node.func.id)
            if isinstance(fv, M.ClassInfo) and fv.name in ('number', 'dimen', 'mudimen', 'glue', 'muglue'):
                fname = fv.name         # a numeric class handed over as a value
        if fname in ('number', 'dimen', 'mudimen', 'float', 'glue', 'muglue') and len(args) == 1 and not kwargs:
            a = args[0]
            if isinstance(a, A.TokStr) and a._attrs.get('param'):
                return a._attrs['value']
            if isinstance(a, (int, float)) and not isinstance(a, bool):
                return float(a) if fname == 'float' else a
            if fname == 'float' and isinstance(a, str):
                try:
                    return float(a)
                except ValueError:
                    return None
            return A.TOP if fname != 'float' else None       # a numeric object built from a value that is not determined
        if fname in ('glue', 'muglue') and len(args) == 3:
            return (fname,) + tuple(args)
        if fname == 'isinstance' and len(args) == 2 and isinstance(args[0], A.TokStr) and text(node.args[1]).endswith('ParameterCommand'):
            return bool(args[0]._attrs.get('param'))
        return TokenStreamHooks.call(self, interp, node, fname, args, kwargs, state)

    def keep(self, ev):
        return ev[0] == 'call' and ev[1] in ('self.pushToken', 'self.pushTokens')


class BracketHooks(NumHooks):
    """NumHooks that also follow the enable level of ParameterCommand (by the function a call resolves to) and note that level at
    every read from the expanded stream."""

    def _note(self, state, what):
        state.env['__reads_at'] = state.env.get('__reads_at', ()) + ((what, state.env.get('__plevel', 0)),)

    def call(self, interp, node, fname, args, kwargs, state):
        last = fname.rsplit('.', 1)[-1]
        if last in ('enable', 'disable'):
            info = interp.resolve_callee(node, state)
            if fname.endswith(('ParameterCommand.enable', 'ParameterCommand.disable')) or \
               (info is not None and info.cls is not None and info.cls.name == 'ParameterCommand' and info.name in ('enable', 'disable')):
                state.env['__plevel'] = state.env.get('__plevel', 0) + (1 if last == 'enable' else -1)
                state.env['__bracket_seen'] = True
                return A.NONE
        if fname == 'self.readOptionalSigns' or (fname in self.READERS and fname != 'self.' + self.own) or fname in ('self.readKeyword', 'self.readSequence'):
            self._note(state, fname[5:])
        return NumHooks.call(self, interp, node, fname, args, kwargs, state)

    def iter_item(self, interp, loop, k, state):
        r = NumHooks.iter_item(self, interp, loop, k, state)
        if r is not None and text(loop.iter).replace(' ', '') in ('self', 'iter(self)'):
            self._note(state, 'token')
        return r

    def should_inline(self, fname, node, info):
        return A.private_only(fname, node, info) or (info is not None and info.cls is not None and info.cls.name == 'ParameterCommand'
                                                     and info.name not in ('enable', 'disable'))


def bracket_rules(chk, m, rid):
    R = chk.rule(rid, 'numbers are read with the registers switched off: in readInteger, readDimen, readGlue, readMuGlue and '
                 'readUnitOfMeasure, interpreted on a scripted stream, every read from the expanded stream - the signs, the tokens, the '
                 'sub-readers - happens while ParameterCommand is disabled (a register met there would otherwise run as an assignment), '
                 'and the level is back where it was on return', 5)
    TeX = m.cls('plasTeX.TeX', 'TeX')
    for fname, stream, env in (('readInteger', [ch('4'), ch('x', 11)], {'optspace': True}), ('readDimen', [ch('1')], {'units': ['pt']}),
                               ('readGlue', [ch('1')], {}), ('readMuGlue', [ch('1')], {}), ('readUnitOfMeasure', [ch('p', 11)], {'units': ['pt']})):
        fn = m.find_method(TeX, fname)
        need(fn is not None, 'TeX.%s not found' % fname)
        chk.analysed(fn)
        h = BracketHooks(m, TeX, stream, fname)
        it = A.Interp(model=m, scope=fn, hooks=h, max_iter=len(stream) + 2, exc_edges=False, inline=3, heap=True, precise_exc=True)
        try:
            outs = it.run_function(fn, env=dict(env))
        except AnalysisError as e:
            chk.undecided(R, '%s reads under the bracket' % fname, str(e), chk.where(fn))
            continue
        chk.paths += len(outs)
        got = set()
        if not any(s2.env.get('__bracket_seen') for kind, s2, v in outs):
            # no disable()/enable() was recognised at all on this tree: the bracket may be spelled in a way the scenario does not follow
            chk.undecided(R, '%s reads under the bracket' % fname, 'no call of ParameterCommand.disable/enable was recognised in %s' % fname, chk.where(fn))
            continue
        for kind, s2, v in outs:
            if kind != 'return':
                continue
            reads = s2.env.get('__reads_at', ())
            outside = tuple(sorted({w for w, lv in reads if lv >= 0}))
            got.add(('reads: %d' % len(reads) if reads else 'nothing read', outside, s2.env.get('__plevel', 0)))
        bad = {g for g in got if g[1] or g[2] != 0 or g[0] == 'nothing read'}
        chk.decide(R, '%s reads under the bracket' % fname, {('ok',)} if got and not bad else bad or {('no path',)}, {('ok',)},
                   '%s: (reads, reads made while parameters are enabled, level on return) = %s; every read of the expanded stream must '
                   'happen between disable() and enable()' % (fname, sorted(bad)), chk.where(fn))


def number_rules(chk, m, rid):
    R = chk.rule(rid, 'numeric scanners on concrete character tokens (abstract interpretation): readInteger reads decimal, octal '
                 "('), hexadecimal (\") and alphabetic (`) constants and registers, readDecimal fractions, readDimen/readGlue/"
                 'readMuGlue their parts; the sign read by readOptionalSigns is applied exactly once to every value, a constant '
                 'takes one optional space, and a token that is not part of the number is pushed back; stretch/shrink accept the units of '
                 'their own dimension class plus the fil orders', 18)
    TeX = m.cls('plasTeX.TeX', 'TeX')
    S = SIGN
    cases = [
        ('readInteger', 'octal constant', [ch("'")], {'optspace': True}, S * 0o17, (), (True,)),
        ('readInteger', 'hexadecimal constant', [ch('"')], {'optspace': True}, S * 0x1F, (), (True,)),
        ('readInteger', 'decimal constant', [ch('4'), ch('x', 11)], {'optspace': True}, S * 42, ('x',), (True,)),
        ('readInteger', 'alphabetic constant', [ch('`'), ch('A', 11)], {'optspace': True}, S * 65, (), (True,)),
        ('readInteger', 'register', [param(7)], {'optspace': True}, S * 7, (), ()),
        ('readInteger', 'constant times register', [ch('4'), param(5)], {'optspace': True}, S * 42 * 5, (), (True,)),
        ('readDecimal', 'digits and fraction', [ch('4'), ch('.')], {}, S * 42.2, (), None),
        ('readDecimal', 'digits only', [ch('4'), ch('x', 11)], {}, S * 42.0, ('x',), None),
        ('readDecimal', 'leading point', [ch('.')], {}, S * 0.2, (), None),
        ('readDecimal', 'radix constant', [ch("'")], {}, S * 11, ("'",), None),
        ('readDimen', 'register', [param(7)], {'units': ['pt']}, S * 7, (), None),
        ('readDimen', 'number and unit', [ch('1')], {'units': ['pt']}, S * 5.0 * 7, ('1',), None),
        ('readGlue', 'register', [param(7)], {}, S * 7, (), None),
        ('readGlue', 'dimension, stretch, shrink', [ch('1')], {}, ('glue', S * 10, 1, 2), ('1',), None),
        ('readMuGlue', 'register', [param(7)], {}, S * 7, (), None),
        ('readMuGlue', 'dimension, stretch, shrink', [ch('1')], {}, ('muglue', S * 10, 1, 2), ('1',), None),
    ]
    for fname, label, stream, env, want, pushed, optspace in cases:
        fn = m.find_method(TeX, fname)
        need(fn is not None, 'TeX.%s not found' % fname)
        chk.analysed(fn)
        h = NumHooks(m, TeX, stream, fname)
        h.should_inline = A.private_only
        it = A.Interp(model=m, scope=fn, hooks=h, max_iter=len(stream) + 2, exc_edges=False, inline=3, heap=True, precise_exc=True)
        outs = it.run_function(fn, env=dict(env))
        chk.paths += len(outs)
        got = set()
        for kind, s2, v in outs:
            if kind != 'return':
                continue
            back = tuple(str(a) for e in s2.trace for a in e[2] if isinstance(a, str))
            val = v
            if isinstance(v, float):
                val = round(v, 6)
            rec = (repr(val), back)
            if optspace is not None:
                rec += (s2.env.get('__optspace', ()),)
            got.add(rec)
        w = (repr(round(want, 6) if isinstance(want, float) else want), tuple(pushed)) + ((optspace,) if optspace is not None else ())
        chk.decide(R, '%s: %s' % (fname, label), got, {w},
                   '%s on %s (sign marker %d): (value, tokens pushed back%s) = %s, expected %s - the sign must be applied exactly once, '
                   'the constant read in its radix, and a token that is not part of the number given back'
                   % (fname, [str(t) or '<register>' for t in stream], S, ', optional-space flags' if optspace is not None else '',
                      sorted(got, key=repr), w), chk.where(fn))

    # the digit collector itself: digits come from the *expanded* stream (a digit produced by a macro counts)
    import string as _string
    seqfn = m.find_method(TeX, 'readSequence')
    need(seqfn is not None, 'TeX.readSequence not found')
    chk.analysed(seqfn)
    MAC = A.TokStr('', nodeType=1, catcode=0, param=False, nodeName='two')          # an unexpanded macro whose expansion is "2"
    ELEM = A.TokStr('', nodeType=1, catcode=0, param=False, nodeName='relax')
    for label, expanded, raw, optspace, want, pushed in (
            ('digits up to a letter', [ch('1'), ch('2'), ch('x', 11)], None, True, '12', ('x',)),
            ('a digit produced by a macro counts', [ch('1'), ch('2'), ch('x', 11)], [ch('1'), MAC, ch('x', 11)], True, '12', ('x',)),
            ('one optional space is absorbed', [ch('7'), ch(' ', 10), ch('x', 11)], None, True, '7', ()),
            ('no space is absorbed when not allowed', [ch('7'), ch(' ', 10)], None, False, '7', (' ',)),
            ('a control sequence ends the number and stays', [ch('4'), ELEM], None, True, '4', ('',)),
            ('no digit at all gives the default', [ch('x', 11)], None, True, 'DEFAULT', ('x',))):
        h = TokenStreamHooks(m, TeX, expanded, raw if raw is not None else expanded)
        h.keep = lambda ev: ev[0] == 'call' and ev[1] in ('self.pushToken', 'self.pushTokens')
        h.should_inline = A.private_only
        it = A.Interp(model=m, scope=seqfn, hooks=h, max_iter=len(expanded) + 2, exc_edges=False, heap=True, precise_exc=True, inline=3)
        outs = it.run_function(seqfn, env={'chars': _string.digits, 'optspace': optspace, 'default': 'DEFAULT'})
        got = set()
        for kind, s2, v in outs:
            back = tuple(str(a) for e in s2.trace for a in e[2] if isinstance(a, str))
            got.add((kind, repr(str(v)) if isinstance(v, str) else repr(v), back))
        chk.decide(R, 'readSequence: %s' % label, got, {('return', repr(want), tuple(pushed))},
                   'collecting digits from %s gives (outcome, text, tokens pushed back) %s; expected %r with %s pushed back'
                   % ([str(t) or '<control sequence>' for t in expanded], sorted(got), want, list(pushed)), chk.where(seqfn))

    # unit tables of the stretch / shrink components
    dimen = m.cls('plasTeX', 'dimen')
    mudimen = m.cls('plasTeX', 'mudimen')
    base = {'readStretch': m.class_const(dimen, 'units'), 'readShrink': m.class_const(dimen, 'units'),
            'readMuStretch': m.class_const(mudimen, 'units'), 'readMuShrink': m.class_const(mudimen, 'units')}
    for fname, own in base.items():
        fn = m.find_method(TeX, fname)
        need(fn is not None and isinstance(own, list), 'TeX.%s / unit tables not found' % fname)
        chk.analysed(fn)

        class UH(SelfHooks):
            def call(self, interp, node, fname2, args, kwargs, state):
                if fname2 == 'self.readKeyword':
                    return 'plus'
                if fname2 in ('self.readDimen', 'self.readMuDimen'):
                    state.env['__units'] = kwargs.get('units', args[0] if args else 'default')
                    return 1
                return None

            def keep(self, ev):
                return False
        h = UH(m, TeX)
        h.should_inline = A.private_only
        it = A.Interp(model=m, scope=fn, hooks=h, max_iter=2, exc_edges=False, inline=2, heap=True, precise_exc=True)
        got = set()
        for kind, s2, v in it.run_function(fn, env={}):
            u = s2.env.get('__units')
            got.add(tuple(sorted(u)) if isinstance(u, (list, tuple)) and A.is_concrete(u) else repr(u))
        want = tuple(sorted(set(own) | {'fil', 'fill', 'filll'}))
        chk.decide(R, '%s: units accepted' % fname, got, {want},
                   '%s reads its amount with the units %s; expected the units of %s plus fil, fill, filll (%s)'
                   % (fname, sorted(got, key=repr), 'mudimen' if 'Mu' in fname else 'dimen', list(want)), chk.where(fn))


# ---------------------------------------------------------------------------
# verbatim environments: subclasses pass the scanned tokens through
# ---------------------------------------------------------------------------
OVERRIDE_SAMPLE = '''
class verbatim(VerbatimEnvironment):
    def invoke(self, tex):
        tokens = VerbatimEnvironment.invoke(self, tex)
        tokens.pop()
        return tokens
'''


def _edits_base_result(fnode):
    """An invoke() override that obtains the base class result and edits it (or returns something else)."""
    holders = set()
    for x in ast.walk(fnode):
        if isinstance(x, ast.Assign) and isinstance(x.value, ast.Call) and re.search(r'(^|\.)invoke$', M.call_name(x.value)) \
           and re.search(r'^(super\(.*\)|\w*VerbatimEnvironment|\w+)\.invoke$', M.call_name(x.value)):
            for t in x.targets:
                if isinstance(t, ast.Name):
                    holders.add(t.id)
    if not holders:
        return None
    bad = []
    for x in ast.walk(fnode):
        if isinstance(x, ast.Call) and isinstance(x.func, ast.Attribute) and isinstance(x.func.value, ast.Name) and x.func.value.id in holders \
           and x.func.attr in E.MUTATORS:
            bad.append(text(x))
        if isinstance(x, (ast.Assign, ast.AugAssign, ast.Delete)):
            tg = x.targets if not isinstance(x, ast.AugAssign) else [x.target]
            for t in tg:
                if isinstance(t, ast.Subscript) and isinstance(t.value, ast.Name) and t.value.id in holders:
                    bad.append(text(x))
                if isinstance(t, ast.Name) and t.id in holders and not isinstance(x, ast.Delete) and isinstance(x, ast.AugAssign):
                    bad.append(text(x))
        if isinstance(x, ast.Return) and x.value is not None and isinstance(x.value, ast.Subscript) and isinstance(x.value.value, ast.Name) \
           and x.value.value.id in holders:
            bad.append(text(x))
    return bad


def verbatim_override_rules(chk, m, rid):
    R = chk.rule(rid, 'a subclass of VerbatimEnvironment that overrides invoke() and calls the inherited scanner hands its token '
                 'list on unchanged (no token of the verbatim text is removed or replaced on the way)', 2)
    need(_edits_base_result(ast.parse(OVERRIDE_SAMPLE)) == ['tokens.pop()'], 'self-test of the verbatim-override rule failed')
    VE = m.cls('plasTeX', 'VerbatimEnvironment')
    n = 0
    for c in sorted(m.subclasses(VE, strict=True), key=lambda c: c.fullname):
        n += 1
        fn = c.methods.get('invoke')
        if fn is None:
            chk.ok(R, '%s.invoke' % c.fullname, 'inherited')
            continue
        chk.analysed(fn)
        bad = _edits_base_result(fn.node)
        if bad is None:
            chk.ok(R, '%s.invoke' % c.fullname, 'own scanner (does not call the inherited one)')
            continue
        chk.verdict(R, '%s.invoke' % c.fullname, not bad,
                    '%s.invoke edits the token list returned by the inherited verbatim scanner (%s): characters of the verbatim '
                    'text are lost' % (c.fullname, bad), chk.where(fn), 'passes the tokens through')
    need(n >= 2, 'subclasses of VerbatimEnvironment not found')


# ---------------------------------------------------------------------------
# which .paux files a run loads
# ---------------------------------------------------------------------------
def paux_rules(chk, m, rid):
    R = chk.rule(rid, 'Compile.parse (interpreted with a scripted directory listing): every .paux file of the working directory and '
                 'of the configured paux-dirs is restored with the configured renderer name, except files named <jobname>.paux - the '
                 'name is derived from the job name (not from the path given on the command line) and compared with the base name', 1)
    fn = m.func_or_none('plasTeX.Compile', 'parse')
    need(fn is not None, 'plasTeX.Compile.parse not found')
    chk.analysed(fn)
    listing = {'/w/*.paux': ['/w/doc.paux', '/w/other.paux', '/w/userdoc.paux'], '/x/*.paux': ['/x/lib.paux', '/x/doc.paux']}

    class H(A.Hooks):
        def call(self, interp, node, fname, args, kwargs, state):
            if fname in ('os.getcwd',):
                return '/w'
            if fname == 'glob.glob' and len(args) == 1 and isinstance(args[0], str):
                need(args[0] in listing, 'Compile.parse lists %r (expected the *.paux files of the working directory and of the paux-dirs)' % args[0])
                return list(listing[args[0]])
            import pathlib
            if fname in ('Path', 'pathlib.Path', 'PurePath', 'pathlib.PurePath') and args and all(isinstance(a, (str, pathlib.PurePosixPath)) for a in args):
                return pathlib.PurePosixPath(*args)
            if isinstance(node.func, ast.Attribute) and node.func.attr in ('glob', 'iterdir', 'exists', 'is_dir', 'is_file'):
                recv = interp.ev(node.func.value, state)
                if isinstance(recv, pathlib.PurePosixPath):
                    if node.func.attr == 'glob' and len(args) == 1 and isinstance(args[0], str):
                        key = str(recv / args[0])
                        need(key in listing, 'Compile.parse lists %r (expected the *.paux files of the working directory and of the paux-dirs)' % key)
                        return [pathlib.PurePosixPath(x) for x in listing[key]]
                    if node.func.attr in ('exists', 'is_dir'):
                        return True
            if fname.endswith('context.restore'):
                state.env['__restored'] = state.env.get('__restored', ()) + (tuple(a if isinstance(a, str) else repr(a) for a in args),)
                return A.NONE
            if fname in ('TeX', 'plasTeX.TeX.TeX'):
                return A.Obj('tex', {'jobname': 'doc'})
            if fname.endswith('TeXDocument'):
                return A.Obj('document', {'userdata': {}, 'context': A.Obj('context', {})})
            if fname in ('updateLogLevels', 'tex.fileLogging', 'tex.parse'):
                return A.NONE
            return None

        def keep(self, ev):
            return False
    h = H()
    # everything of the package that Compile.parse reaches is interpreted, except the steps the scenario answers itself
    h.should_inline = lambda fname, node, info: info is None or info.name not in ('restore', 'persist', 'parse', 'fileLogging', 'updateLogLevels', '__init__')
    it = A.Interp(model=m, scope=fn, hooks=h, max_iter=8, exc_edges=False, inline=4, heap=True, generators=True)
    config = {'general': {'renderer': 'HTML5', 'paux-dirs': ['/x']}, 'logging': {'logging': {}}, 'files': {'log': False}, 'document': {'title': None}}
    outs = it.run_function(fn, env={'filename': 'src/doc.tex', 'config': config})
    chk.paths += len(outs)
    got = {(kind, tuple(sorted(s2.env.get('__restored', ())))) for kind, s2, v in outs}
    want = ('return', tuple(sorted([('/w/other.paux', 'HTML5'), ('/w/userdoc.paux', 'HTML5'), ('/x/lib.paux', 'HTML5')])))
    chk.decide(R, 'own job file skipped on restore', {repr(g) for g in got}, {repr(want)},
               'processing src/doc.tex (job name doc) in /w with paux-dirs [/x] and the files %s restores %s; expected %s - the own '
               'doc.paux written by the previous run must not be loaded (forward references would bind to its stale stand-ins), and no '
               'other document\'s file may be skipped' % (listing, sorted(got, key=repr), want), chk.where(fn))


# ---------------------------------------------------------------------------
# A context built by its own constructor, and sequences of calls on it
def new_context(m):
    """Context(load=False) interpreted on the heap: the object with its global frame and the default category table."""
    from . import domheap as D
    Context = m.cls('plasTeX.Context', 'Context')
    fn = m.find_method(Context, '__init__')
    need(fn is not None, 'Context.__init__ not found')
    it = A.Interp(model=m, scope=fn, hooks=D.DomHooks(m, Context), max_iter=20, exc_edges=False, inline=8, heap=True, precise_exc=True)
    it.run_init = True
    st = A.State({})
    v = it.ev(ast.parse('Context(load=False)', mode='eval').body, st)
    if not isinstance(v, A.Obj) or it.imprecise or it.unknown_branches or st.env.get('__exc'):
        raise AnalysisError('Context() could not be built on the heap: %s' % ((it.imprecise + it.unknown_branches)[:2] or st.env.get('__exc') or v))
    return v


def call_seq(m, obj, steps, inline=8):
    """Interpret obj.method(*args) for each (method, args) in turn on the evolving heap object.
    Returns (list of results, final object) or raises D.Imprecise."""
    from . import domheap as D
    import copy
    obj = copy.deepcopy(obj)
    results = []
    for meth, args in steps:
        fn = m.find_method(obj.cls, meth)
        need(fn is not None, '%s.%s not found' % (obj.cls.fullname, meth))
        it = A.Interp(model=m, scope=fn, hooks=D.DomHooks(m, obj.cls), max_iter=40, exc_edges=False, inline=inline, heap=True, precise_exc=True)
        params = [a.arg for a in fn.node.args.args[1:]]
        env = {'self': obj, '__obj': obj}
        for p_, a_ in zip(params, args):
            env[p_] = a_
        for p_, dflt in zip(params[len(params) - len(fn.node.args.defaults):], fn.node.args.defaults):
            if p_ not in env:
                env[p_] = it.ev(dflt, A.State({}))
        outs = it.run_function(fn, env=env)
        if it.imprecise or it.unknown_branches:
            raise D.Imprecise('%s: %s' % (meth, '; '.join((it.imprecise + it.unknown_branches)[:2])))
        if len(outs) != 1:
            raise D.Imprecise('%s has %d outcomes' % (meth, len(outs)))
        kind, st, v = outs[0]
        if kind != 'return':
            results.append('raises %s' % (v,))
            return results, obj
        results.append(v)
        obj = st.env['__obj']
    return results, obj


def category_sequence_rules(chk, m, rid):
    from . import domheap as D
    R = chk.rule(rid, 'the category of a character is the one of the table in force *now* (a Context built by its own constructor, then '
                 'sequences of calls interpreted on it): asking, changing the codes (catcode, a group, verbatim codes) and asking '
                 'again gives the new answer, and closing the group gives the old one back', 5)
    Context = m.cls('plasTeX.Context', 'Context')
    for f in ('whichCode', 'catcode', 'setVerbatimCatcodes', 'push', 'pop'):
        chk.analysed(m.find_method(Context, f))
    try:
        ctx = new_context(m)
    except AnalysisError as e:
        chk.undecided(R, 'a context built by its constructor', str(e), chk.where(Context))
        return
    W = lambda c: ('whichCode', [c])
    cases = [('the default table', [W(' '), W('\\'), W('!'), W('%'), W('{')], [10, 0, 12, 14, 1]),
             ('asked, then made active, then asked again', [W('!'), ('catcode', ['!', 13]), W('!'), ('catcode', ['!', 12]), W('!'), ('catcode', ['!', 0]), W('!')],
              [12, None, 13, None, 12, None, 0]),
             ('asked, then verbatim codes, then asked again', [W(' '), W('\\'), W('%'), ('setVerbatimCatcodes', []), W(' '), W('\\'), W('%')],
              [10, 0, 14, None, 12, 12, 12]),
             ('a change inside a group ends with the group', [W('~'), ('push', []), ('catcode', ['~', 12]), W('~'), ('pop', []), W('~')], [13, None, None, 12, None, 13]),
             ('verbatim codes inside a group end with the group', [W(' '), ('push', []), ('setVerbatimCatcodes', []), W(' '), ('pop', []), W(' ')],
              [10, None, None, 12, None, 10])]
    for label, steps, want in cases:
        try:
            res, _ = call_seq(m, ctx, steps)
        except D.Imprecise as e:
            chk.undecided(R, label, str(e), chk.where(Context))
            continue
        got = [r if (isinstance(r, (int, str)) and not isinstance(r, bool)) else None for r in res]
        ask = [i for i, (mth, _a) in enumerate(steps) if mth == 'whichCode']
        g2 = [got[i] if i < len(got) else 'missing' for i in ask]
        w2 = [want[i] for i in ask]
        chk.decide(R, label, {repr(g2)}, {repr(w2)}, '%s: the answers of whichCode along %s are %s, expected %s'
                   % (label, [('%s(%s)' % (mth, ', '.join(map(repr, a)))) for mth, a in steps], g2, w2), chk.where(m.find_method(Context, 'whichCode')))
