"""C09 - Every reference resolves to the object its label names.

R9.1 label registration and back-patching, R9.2 reference resolution and
placeholders, R9.3 argument-type table, R9.4 who sets the current label /
writes the tables, R9.5 the tables are per-document."""
import ast
import re

from .. import absint as A
from .. import effects as E
from .. import flow
from .. import model as M
from ..report import AnalysisError, need
from ..util import text, macro_classes, tex_name


def check(chk):
    m = chk.model
    r91(chk, m)
    r92(chk, m)
    r93(chk, m)
    r94(chk, m)
    r95(chk, m)
    chk.decline('identity of the resolved object for all documents and orders (runtime); decided is the protocol of the '
                'label/reference tables')


def r91(chk, m):
    R = chk.rule('R9.1', 'Context.label: a label with a target is stored in labels and persistentLabels and becomes the node id; the '
                 'back-patch loop visits every pending referrer (no break/return, the list is not modified while iterated), replaces '
                 'exactly the idref entries whose placeholder carries this label, and removes the pending list afterwards', 5)
    fn = m.func('plasTeX.Context', 'Context.label')
    chk.analysed(fn)
    src = text(fn.node)
    store = [n for n in M.walk_no_nested(fn.node) if isinstance(n, ast.Assign) and any(text(t) == 'self.labels[label]' for t in n.targets)]
    ok = len(store) == 1 and any(text(t) == 'self.persistentLabels[label]' for t in store[0].targets) and text(store[0].value) == 'node'
    from .c06 import guard_chain
    g = guard_chain(fn.node, store[0]) if store else None
    idset = [n for n in M.walk_no_nested(fn.node) if isinstance(n, ast.Assign) and text(n.targets[0]) == 'node.id' and text(n.value) == 'label']
    chk.verdict(R, 'label stored in both tables and as node id', ok and g == ['node is not None'] and len(idset) == 1 and guard_chain(fn.node, idset[0]) == g,
                'Context.label must do persistentLabels[label] = labels[label] = node and node.id = label under `node is not None` (guards %s)' % g, chk.where(fn))
    dflt = [n for n in M.walk_no_nested(fn.node) if isinstance(n, ast.If) and text(n.test) == 'node is None']
    ok = len(dflt) == 1 and text(dflt[0].body[0]) == 'node = self.currentlabel'
    chk.verdict(R, 'label attaches to the current labelled object', ok, 'without an explicit node the label must attach to context.currentlabel', chk.where(fn))
    from ..util import aliases_of
    al = aliases_of(fn, ['self.refs[label]'])
    outer = [n for n in M.walk_no_nested(fn.node) if isinstance(n, ast.For) and
             ('self.refs[label]' in text(n.iter) or text(n.iter) in al or any(re.search(r'\b%s\b' % re.escape(a), text(n.iter)) for a in al if a.isidentifier()))]
    need(len(outer) == 1, 'Context.label: back-patch loop not found')
    loop = outer[0]
    jumps = [n for n in ast.walk(loop) if isinstance(n, (ast.Break, ast.Return))]
    muts = [text(c) for c in ast.walk(loop) if isinstance(c, ast.Call) and isinstance(c.func, ast.Attribute) and c.func.attr in E.MUTATORS
            and ('self.refs' in text(c.func.value) or text(c.func.value) in al)]
    dels = [text(n) for n in ast.walk(loop) if isinstance(n, ast.Delete) and ('self.refs' in text(n) or any(text(t).split('[')[0] in al for t in n.targets))]
    copied = re.fullmatch(r'list\(self\.refs\[label\]\)|self\.refs\[label\]\[:\]', text(loop.iter).replace(' ', '')) is not None
    chk.verdict(R, 'back-patch loop visits every pending referrer', not jumps and (copied or not (muts or dels)),
                'the loop over the pending referrers of a label %s%s: with several forward references to one label some keep '
                'their placeholder' % ('leaves early (break/return); ' if jumps else '',
                                       'modifies the list it iterates over (%s)' % (muts + dels) if (muts or dels) and not copied else ''),
                chk.where(fn, loop))
    # inner replacement: compare placeholder id with label, assign the labelled node
    inner = [n for n in ast.walk(loop) if isinstance(n, ast.For) and n is not loop]
    ok = False
    if len(inner) == 1:
        body = text(inner[0])
        ok = 'value.id != label' in body and 'obj.idref[key] = self.labels[label]' in body and 'list(obj.idref.items())' in text(inner[0].iter)
    chk.verdict(R, 'back-patch replaces exactly the entries for this label', ok,
                'the inner loop must replace obj.idref[key] by labels[label] exactly when the placeholder id equals the label', chk.where(fn))
    after = [text(n) for n in M.walk_no_nested(fn.node) if isinstance(n, ast.Delete)]
    chk.verdict(R, 'pending list removed after patching', 'del self.refs[label]' in after and loop.end_lineno < max(n.lineno for n in M.walk_no_nested(fn.node) if isinstance(n, ast.Delete)),
                'the pending list of the label must be deleted after the loop (found %s)' % after, chk.where(fn))


def r92(chk, m):
    R = chk.rule('R9.2', 'Context.ref: a known label (membership in the label table, not truth of the node) resolves to the labelled '
                 'node itself; an unknown one queues the referrer and installs a placeholder whose id is the label; ref never '
                 'writes the label table', 4)
    fn = m.func('plasTeX.Context', 'Context.ref')
    chk.analysed(fn)
    ifs = [n for n in fn.node.body if isinstance(n, ast.If)]
    known = [n for n in ifs if 'self.labels' in text(n.test)]
    ok = False
    if len(known) == 1:
        t = known[0].test
        member = isinstance(t, ast.Compare) and isinstance(t.ops[0], ast.In) and text(t.left) == 'label' and \
            text(t.comparators[0]).replace(' ', '') in ('list(self.labels.keys())', 'self.labels', 'self.labels.keys()')
        body = [text(s) for s in known[0].body]
        ok = member and body == ['obj.idref[name] = self.labels[label]', 'return']
    truthy = [text(n.test) for n in M.walk_no_nested(fn.node) if isinstance(n, ast.If) and not isinstance(n.test, ast.Compare)
              and not (isinstance(n.test, ast.UnaryOp) and text(n.test) == 'not label')]
    chk.verdict(R, 'known label resolves by membership', ok and not truthy,
                'Context.ref decides "label exists" by %s: DOM nodes without children are falsy (their length is the number of '
                'children), so a reference to such a labelled object would stay a placeholder'
                % (truthy or [text(n.test) for n in known]), chk.where(fn))
    src = text(fn.node)
    q = 'self.refs[label].append(obj)' in src and re.search(r"if label not in (list\()?self\.refs(\.keys\(\)\))?: self\.refs\[label\] = \[\]", src.replace('\n', ' ')) is not None
    chk.verdict(R, 'unknown label queues the referrer', q, 'an unresolved reference must be appended to refs[label] (created on first use)', chk.where(fn))
    ph = "node = self['Macro']()" in src and 'node.id = label' in src and 'obj.idref[name] = node' in src
    chk.verdict(R, 'placeholder carries the label as id', ph, 'the placeholder stored in obj.idref[name] must have id == label (label() compares it)', chk.where(fn))
    writes = [text(n) for n in M.walk_no_nested(fn.node) if isinstance(n, ast.Assign) and any('self.labels' in text(t) or 'persistentLabels' in text(t) for t in n.targets)]
    chk.verdict(R, 'ref never writes the label table', not writes, 'Context.ref stores into the label table: %s (dangling references would resolve)' % writes, chk.where(fn))


def r93(chk, m):
    R = chk.rule('R9.3', 'argument types: label,id -> castLabel; ref,idref -> castRef; castRef passes the referrer and the argument '
                 'name; \\label is label:id, \\ref and \\pageref are label:idref', 7)
    init = m.func('plasTeX.TeX', 'TeX.__init__')
    table = {}
    for n in M.walk_no_nested(init.node):
        if isinstance(n, ast.Assign) and text(n.targets[0]) == 'self.argtypes' and isinstance(n.value, ast.Dict):
            for k, v in zip(n.value.keys, n.value.values):
                if isinstance(k, ast.Constant):
                    table[k.value] = text(v)
    for k, want in (('label', 'self.castLabel'), ('id', 'self.castLabel'), ('ref', 'self.castRef'), ('idref', 'self.castRef')):
        chk.verdict(R, 'argtypes[%r]' % k, table.get(k) == want, 'argument type %r is cast by %r, expected %s' % (k, table.get(k), want), chk.where(init), str(table.get(k)))
    cl = m.func('plasTeX.TeX', 'TeX.castLabel')
    cr = m.func('plasTeX.TeX', 'TeX.castRef')
    chk.analysed(cl)
    chk.analysed(cr)
    ok = 'self.ownerDocument.context.label(label)' in text(cl.node)
    ok2 = "self.ownerDocument.context.ref(kwargs['parentNode'], kwargs['name'], ref)" in text(cr.node)
    chk.verdict(R, 'castLabel/castRef call the context', ok and ok2, 'castLabel must call context.label(label); castRef context.ref(parentNode, name, ref)', chk.where(cr))
    cx = 'plasTeX.Base.LaTeX.Crossref'
    for cname, want in (('label', 'label:id'), ('ref', '* label:idref'), ('pageref', '* label:idref')):
        c = m.cls(cx, cname)
        a = m.class_const(c, 'args')
        chk.verdict(R, '\\%s signature' % cname, isinstance(a, str) and a.replace(' ', '') in (want.replace(' ', ''), want.replace('* ', '').replace(' ', '')),
                    '\\%s has args %r, expected %r' % (cname, a, want), chk.where(c), str(a))
    users = sorted(tex_name(m, c) for c in macro_classes(m) if isinstance(m.class_const(c, 'args'), str) and ':idref' in m.class_const(c, 'args'))
    chk.note('macros with :idref arguments: %s' % users)


def r94(chk, m):
    R = chk.rule('R9.4', 'who may write: context.currentlabel only in Macro.refstepcounter and eqnarray row ends; the label table only '
                 'in Context.label, Context.restore and the xr reader; the pending table only in Context.ref and Context.label', 6)
    allowed_cur = {'plasTeX.Macro.refstepcounter', 'plasTeX.Base.LaTeX.Math.eqnarray.EndRow.invoke', 'plasTeX.Context.Context.__init__'}
    allowed_labels = {'plasTeX.Context.Context.label', 'plasTeX.Context.Context.restore', 'plasTeX.Context.Context.__init__'}
    allowed_refs = {'plasTeX.Context.Context.ref', 'plasTeX.Context.Context.label', 'plasTeX.Context.Context.__init__'}
    n_sites = 0
    for fn in E.all_functions(m):
        if 'simpletal' in fn.fullname:
            continue
        for n in M.walk_no_nested(fn.node):
            tgts = []
            if isinstance(n, ast.Assign):
                tgts = n.targets
            elif isinstance(n, ast.AugAssign):
                tgts = [n.target]
            elif isinstance(n, ast.Delete):
                tgts = n.targets
            for t in tgts:
                tt = text(t)
                if re.search(r'(^|\.)currentlabel$', tt):
                    n_sites += 1
                    chk.analysed(fn)
                    chk.verdict(R, '%s sets currentlabel' % fn.fullname, fn.fullname in allowed_cur,
                                '%s assigns the current labelled object: a following \\label would attach to the wrong node' % fn.fullname, chk.where(fn, n))
                mm = re.search(r'(^|\.)(labels|persistentLabels)(\[|$)', tt)
                if mm and 'context' in tt or re.match(r'self\.(labels|persistentLabels)(\[|$)', tt) and fn.cls is not None and fn.cls.name == 'Context':
                    n_sites += 1
                    chk.analysed(fn)
                    ok = fn.fullname in allowed_labels or fn.module.name == 'plasTeX.Packages.xr'
                    chk.verdict(R, '%s writes the label table (%s)' % (fn.fullname, tt.split('[')[0]), ok,
                                '%s stores into the label table outside the label protocol' % fn.fullname, chk.where(fn, n))
                if re.match(r'self\.refs(\[|$)', tt) and fn.cls is not None and fn.cls.name == 'Context' or re.search(r'context\.refs(\[|$)', tt):
                    n_sites += 1
                    chk.analysed(fn)
                    chk.verdict(R, '%s writes the pending table' % fn.fullname, fn.fullname in allowed_refs,
                                '%s stores into the pending-reference table outside Context.ref/label' % fn.fullname, chk.where(fn, n))
    need(n_sites >= 8, 'only %d writer sites of the label protocol found' % n_sites)
    chk.call_sites += n_sites
    # the two legitimate currentlabel writers set it to the numbered node
    rs = m.func('plasTeX', 'Macro.refstepcounter')
    ok = any(isinstance(n, ast.Assign) and text(n.targets[0]).endswith('context.currentlabel') and text(n.value) == 'self' for n in M.walk_no_nested(rs.node))
    chk.verdict(R, 'refstepcounter makes the stepped node current', ok, 'refstepcounter must set context.currentlabel = self', chk.where(rs))


def r95(chk, m):
    R = chk.rule('R9.5', 'the label, pending-reference and counter tables are created fresh for every Context: fresh container '
                 'literals in __init__, no mutable default arguments, no class-level containers', 8)
    Context = m.cls('plasTeX.Context', 'Context')
    init = m.find_method(Context, '__init__')
    chk.analysed(init)
    params = {a.arg for a in init.node.args.args + init.node.args.kwonlyargs}
    defaults = [text(d) for d in init.node.args.defaults + [d for d in init.node.args.kw_defaults if d is not None]
                if isinstance(d, (ast.List, ast.Dict, ast.Set, ast.Call))]
    chk.verdict(R, 'Context.__init__ has no mutable default argument', not defaults,
                'Context.__init__ has mutable default argument(s) %s: every Context built with the default shares that one object' % defaults, chk.where(init))
    assigned = {}
    for n in M.walk_no_nested(init.node):
        if isinstance(n, ast.Assign):
            for t in n.targets:
                if isinstance(t, ast.Attribute) and text(t.value) == 'self':
                    assigned[t.attr] = n.value
    for attr in ('labels', 'persistentLabels', 'refs', 'counters', 'contexts', 'packages', '_currenvir'):
        v = assigned.get(attr)
        fresh = isinstance(v, (ast.Dict, ast.List)) and not (v.keys if isinstance(v, ast.Dict) else v.elts) or \
            (isinstance(v, ast.Call) and text(v.func) in ('dict', 'list', 'Counters', 'set') and not v.args)
        from_param = isinstance(v, ast.Name) and v.id in params
        cls_level = attr in Context.assigns
        chk.verdict(R, 'Context.%s is created per Context' % attr, fresh and not from_param and not cls_level,
                    'Context.%s is initialised from %s%s: labels of one document would be visible to the next (dangling references resolve, '
                    'forward references bind to old nodes)' % (attr, text(v) if v is not None else 'nothing', ' and a class-level attribute exists' if cls_level else ''),
                    chk.where(init), text(v) if v is not None else 'missing')
