"""C09 - Every reference resolves to the object its label names.

R9.1 label registration and back-patching, R9.2 reference resolution and
placeholders, R9.3 argument-type table, R9.4 who sets the current label /
writes the tables, R9.5 the tables are per-document."""
import ast
import re

from .. import absint as A
from .. import effects as E
from .. import flow
from .. import model as M
from ..report import AnalysisError, need
from ..util import text, macro_classes, tex_name


def check(chk):
    m = chk.model
    r91(chk, m)
    r93(chk, m)
    r94(chk, m)
    r95(chk, m)
    from . import shared
    shared.paux_rules(chk, m, 'R9.6')
    shared.cache_rules(chk, m, 'R9.7')       # the nested macros of an environment (its numbered row ends) come from a per-class memo
    from . import c08
    c08.r83(chk, m, rule_id='R9.8')           # which object is the current label when a \label is read
    chk.decline('identity of the resolved object for all documents and orders (runtime); decided is the protocol of the '
                'label/reference tables')


class LabelHooks(A.Hooks):
    """The context on a heap: context['Macro']() builds a placeholder node of class Macro."""
    def __init__(self, model):
        self.model = model
        self.cls = model.cls('plasTeX.Context', 'Context')
        self.Macro = model.cls('plasTeX', 'Macro')

    def keep(self, ev):
        return False

    def call(self, interp, node, fname, args, kwargs, state):
        if isinstance(node.func, ast.Subscript) and text(node.func.value) == 'self' and not args:
            k = state.env.get('__new', 0)
            state.env['__new'] = k + 1
            return A.Obj('placeholder%d' % k, {'__eqkey': 'placeholder', '_dom_childNodes': []}, cls=self.Macro)
        if fname.startswith('log.') or fname.startswith('macrolog.'):
            return A.NONE
        return None


def label_heap(m):
    Context = m.cls('plasTeX.Context', 'Context')
    Macro = m.cls('plasTeX', 'Macro')
    mk = lambda label, eq=None: A.Obj(label, {'__eqkey': eq or label, '_dom_childNodes': [], 'idref': {}}, cls=Macro)
    N, CUR = mk('N'), mk('CUR')
    # referrers that compare equal (DOM nodes compare by structure: two \ref{x} nodes are equal)
    o1, o2, o3 = mk('o1', 'ref-node'), mk('o2', 'ref-node'), mk('o3', 'other-ref')
    ctx = A.Obj('context', {'labels': {}, 'persistentLabels': {}, 'refs': {}, 'currentlabel': CUR}, cls=Context)
    return {'self': ctx, '__ctx': ctx, '__N': N, '__CUR': CUR, '__o1': o1, '__o2': o2, '__o3': o3}


def run_steps(m, steps):
    """Run a sequence of Context.label / Context.ref calls on one heap; returns the set of final descriptions."""
    Context = m.cls('plasTeX.Context', 'Context')
    states = [label_heap(m)]
    imprecise = []
    for meth, args in steps:
        fn = m.find_method(Context, meth)
        need(fn is not None, 'Context.%s not found' % meth)
        nxt = []
        for env in states:
            h = LabelHooks(m)
            it = A.Interp(model=m, scope=fn, hooks=h, max_iter=8, exc_edges=False, inline=8, heap=True, precise_exc=True,
                          max_states=5000)
            e = dict(env)
            for k, v in args.items():
                e[k] = env[v] if isinstance(v, str) and v.startswith('__') else v
            for a in fn.node.args.args[1:]:
                e.setdefault(a.arg, None)
            for kind, s2, v in it.run_function(fn, env=e):
                if kind == 'return':
                    nxt.append({k: val for k, val in s2.env.items() if k == 'self' or k.startswith('__')})
                else:
                    nxt.append({'__raised': '%s %s' % (kind, v)})
            imprecise += it.imprecise
            imprecise += ['test not determined: %s' % u for u in it.unknown_branches]
        states = nxt
    need(not imprecise, 'label protocol: %s' % imprecise[:2])
    return states


def describe_labels(env):
    if '__raised' in env:
        return ('raised', env['__raised'])
    ctx = env['__ctx']
    lab = lambda x: x.label if isinstance(x, A.Obj) else repr(x)
    nid = lambda x: (x.attrs.get('@id', x.attrs.get('id')) if isinstance(x, A.Obj) else None)
    tables = tuple((t, tuple(sorted((k, lab(v)) for k, v in ctx.attrs[t].items()))) if isinstance(ctx.attrs.get(t), dict) else (t, 'TOP')
                   for t in ('labels', 'persistentLabels'))
    refs = ctx.attrs.get('refs')
    pend = tuple(sorted((k, tuple(lab(o) for o in v)) for k, v in refs.items())) if isinstance(refs, dict) else 'TOP'
    idrefs = []
    for o in ('__o1', '__o2', '__o3'):
        d = env[o].attrs.get('idref')
        if isinstance(d, dict):
            for k, v in sorted(d.items()):
                tgt = lab(v)
                if isinstance(v, A.Obj) and v.label.startswith('placeholder'):
                    tgt = 'placeholder(id=%r)' % (nid(v),)
                idrefs.append((env[o].label, k, tgt))
    return (tables, ('pending', pend), tuple(idrefs), ('N.id', nid(env['__N'])), ('CUR.id', nid(env['__CUR'])))


def r91(chk, m):
    R = chk.rule('R9.1', 'the label protocol as sequences of Context.label / Context.ref calls on a small heap (abstract '
                 'interpretation): a label is stored in both tables and becomes the id of its node (the current labelled object '
                 'unless a node is given); a reference to a known label is bound to that very node; a forward reference gets a '
                 'placeholder carrying the label and is bound to the node when the label arrives - every pending referrer, also '
                 'referrers that compare equal, and only the entries of that label; the pending entry is removed afterwards', 7)
    Context = m.cls('plasTeX.Context', 'Context')
    for nm in ('label', 'ref'):
        chk.analysed(m.find_method(Context, nm))
    T = lambda **kv: tuple(sorted(kv.items()))
    scen = [
        ('label attaches to the current labelled object', [('label', {'label': ' sec a '})],
         ((('labels', (('sec a', 'CUR'),)), ('persistentLabels', (('sec a', 'CUR'),))), ('pending', ()), (), ('N.id', None), ('CUR.id', 'sec a'))),
        ('label with an explicit node', [('label', {'label': 'x', 'node': '__N'})],
         ((('labels', (('x', 'N'),)), ('persistentLabels', (('x', 'N'),))), ('pending', ()), (), ('N.id', 'x'), ('CUR.id', None))),
        ('empty label is ignored', [('label', {'label': '  ', 'node': '__N'})],
         ((('labels', ()), ('persistentLabels', ())), ('pending', ()), (), ('N.id', None), ('CUR.id', None))),
        ('backward reference binds to the labelled node', [('label', {'label': 'x', 'node': '__N'}), ('ref', {'obj': '__o1', 'name': 'label', 'label': ' x '})],
         ((('labels', (('x', 'N'),)), ('persistentLabels', (('x', 'N'),))), ('pending', ()), (('o1', 'label', 'N'),), ('N.id', 'x'), ('CUR.id', None))),
        ('forward references are queued with placeholders', [('ref', {'obj': '__o1', 'name': 'label', 'label': 'x'}), ('ref', {'obj': '__o2', 'name': 'label', 'label': 'x'}),
                                                             ('ref', {'obj': '__o3', 'name': 'label', 'label': 'y'})],
         ((('labels', ()), ('persistentLabels', ())), ('pending', (('x', ('o1', 'o2')), ('y', ('o3',)))),
          (('o1', 'label', "placeholder(id='x')"), ('o2', 'label', "placeholder(id='x')"), ('o3', 'label', "placeholder(id='y')")), ('N.id', None), ('CUR.id', None))),
        ('a label resolves every pending referrer of that label and no other',
         [('ref', {'obj': '__o1', 'name': 'label', 'label': 'x'}), ('ref', {'obj': '__o2', 'name': 'label', 'label': 'x'}),
          ('ref', {'obj': '__o3', 'name': 'label', 'label': 'y'}), ('ref', {'obj': '__o1', 'name': 'other', 'label': 'y'}), ('label', {'label': 'x', 'node': '__N'})],
         ((('labels', (('x', 'N'),)), ('persistentLabels', (('x', 'N'),))), ('pending', (('y', ('o3', 'o1')),)),
          (('o1', 'label', 'N'), ('o1', 'other', "placeholder(id='y')"), ('o2', 'label', 'N'), ('o3', 'label', "placeholder(id='y')")), ('N.id', 'x'), ('CUR.id', None))),
        ('a dangling reference stays a placeholder and is not labelled', [('ref', {'obj': '__o1', 'name': 'label', 'label': 'nowhere'}), ('label', {'label': 'x', 'node': '__N'})],
         ((('labels', (('x', 'N'),)), ('persistentLabels', (('x', 'N'),))), ('pending', (('nowhere', ('o1',)),)),
          (('o1', 'label', "placeholder(id='nowhere')"),), ('N.id', 'x'), ('CUR.id', None))),
    ]
    for label, steps, want in scen:
        try:
            finals = run_steps(m, steps)
        except AnalysisError as e:
            chk.undecided(R, 'protocol: %s' % label, str(e), chk.where(m.find_method(Context, steps[-1][0])))
            continue
        chk.paths += len(finals)
        got = {repr(describe_labels(f)) for f in finals}
        chk.decide(R, 'protocol: %s' % label, got, {repr(want)},
                   'after %s the tables are %s; expected %s' % (' ; '.join('%s(%s)' % (mn, ', '.join('%s=%s' % kv for kv in a.items())) for mn, a in steps),
                                                              sorted(got), want), chk.where(m.find_method(Context, steps[-1][0])))


def r93(chk, m):
    R = chk.rule('R9.3', 'argument types: label,id -> castLabel; ref,idref -> castRef; castRef passes the referrer and the argument '
                 'name; \\label is label:id, \\ref and \\pageref are label:idref', 7)
    init = m.func('plasTeX.TeX', 'TeX.__init__')
    table = {}
    for n in M.walk_no_nested(init.node):
        if isinstance(n, ast.Assign) and text(n.targets[0]) == 'self.argtypes' and isinstance(n.value, ast.Dict):
            for k, v in zip(n.value.keys, n.value.values):
                if isinstance(k, ast.Constant):
                    table[k.value] = text(v)
    for k, want in (('label', 'self.castLabel'), ('id', 'self.castLabel'), ('ref', 'self.castRef'), ('idref', 'self.castRef')):
        chk.verdict(R, 'argtypes[%r]' % k, table.get(k) == want, 'argument type %r is cast by %r, expected %s' % (k, table.get(k), want), chk.where(init), str(table.get(k)))
    cl = m.func('plasTeX.TeX', 'TeX.castLabel')
    cr = m.func('plasTeX.TeX', 'TeX.castRef')
    chk.analysed(cl)
    chk.analysed(cr)
    TeXc = m.cls('plasTeX.TeX', 'TeX')

    class CH(A.Hooks):
        cls = TeXc

        def call(self, interp, node, fname, args, kwargs, state):
            if fname == 'self.castString':
                return 'LBL'
            if fname.endswith('context.label') or fname.endswith('context.ref'):
                state.env['__ctxcalls'] = state.env.get('__ctxcalls', ()) + ((fname.rsplit('.', 1)[1], tuple(a if isinstance(a, str) else getattr(a, 'label', repr(a)) for a in args)),)
                return A.NONE
            return None

        def keep(self, ev):
            return False
    P = A.Sym('PARENT', truthy=True)
    res = {}
    for f, want in ((cl, (('label', ('LBL',)),)), (cr, (('ref', ('PARENT', 'argname', 'LBL')),))):
        hk = CH()
        hk.should_inline = A.private_only
        it = A.Interp(model=m, scope=f, hooks=hk, max_iter=2, exc_edges=False, inline=3, heap=True, precise_exc=True)
        outs = it.run_function(f, env={'self': A.Obj('tex', {}, cls=TeXc), 'tokens': A.Sym('tokens'), 'kwargs': {'parentNode': P, 'name': 'argname'}})
        got = {(kind, s2.env.get('__ctxcalls', ()), v if isinstance(v, str) else 'TOP') for kind, s2, v in outs}
        chk.decide(R, '%s calls the context' % f.name, {repr(g) for g in got}, {repr(('return', want, 'LBL'))},
                   '%s gives (outcome, context calls, result) = %s; expected the call %s with the cast string, which is also returned'
                   % (f.name, sorted(got, key=repr), want), chk.where(f))
    cx = 'plasTeX.Base.LaTeX.Crossref'
    for cname, want in (('label', 'label:id'), ('ref', '* label:idref'), ('pageref', '* label:idref')):
        c = m.cls(cx, cname)
        a = m.class_const(c, 'args')
        chk.verdict(R, '\\%s signature' % cname, isinstance(a, str) and a.replace(' ', '') in (want.replace(' ', ''), want.replace('* ', '').replace(' ', '')),
                    '\\%s has args %r, expected %r' % (cname, a, want), chk.where(c), str(a))
    users = sorted(tex_name(m, c) for c in macro_classes(m) if isinstance(m.class_const(c, 'args'), str) and ':idref' in m.class_const(c, 'args'))
    chk.note('macros with :idref arguments: %s' % users)


def r94(chk, m):
    R = chk.rule('R9.4', 'who may write: context.currentlabel only in Macro.refstepcounter and eqnarray row ends; the label table only '
                 'in Context.label, Context.restore and the xr reader; the pending table only in Context.ref and Context.label', 6)
    allowed_cur = {'plasTeX.Macro.refstepcounter', 'plasTeX.Base.LaTeX.Math.eqnarray.EndRow.invoke', 'plasTeX.Context.Context.__init__'}
    allowed_labels = {'plasTeX.Context.Context.label', 'plasTeX.Context.Context.restore', 'plasTeX.Context.Context.__init__'}
    allowed_refs = {'plasTeX.Context.Context.ref', 'plasTeX.Context.Context.label', 'plasTeX.Context.Context.__init__'}
    n_sites = 0
    from .c04 import resolved_calls
    callers = {}
    for f in E.all_functions(m):
        if 'simpletal' in f.fullname:
            continue
        for c, cal in resolved_calls(m, f):
            callers.setdefault(cal.fullname, set()).add(f)

    def owners_of(fn, seen=()):
        if not (fn.name.startswith('_') and not fn.name.startswith('__')) or not callers.get(fn.fullname) or fn.fullname in seen:
            return {fn.fullname}
        out = set()
        for c in callers[fn.fullname]:
            out |= owners_of(c, seen + (fn.fullname,))
        return out
    for fn in E.all_functions(m):
        if 'simpletal' in fn.fullname:
            continue
        own = owners_of(fn)
        for n in M.walk_no_nested(fn.node):
            tgts = []
            if isinstance(n, ast.Assign):
                tgts = n.targets
            elif isinstance(n, ast.AugAssign):
                tgts = [n.target]
            elif isinstance(n, ast.Delete):
                tgts = n.targets
            for t in tgts:
                tt = text(t)
                if re.search(r'(^|\.)currentlabel$', tt):
                    n_sites += 1
                    chk.analysed(fn)
                    chk.verdict(R, '%s sets currentlabel' % fn.fullname, own <= allowed_cur,
                                '%s assigns the current labelled object: a following \\label would attach to the wrong node' % fn.fullname, chk.where(fn, n))
                mm = re.search(r'(^|\.)(labels|persistentLabels)(\[|$)', tt)
                if mm and 'context' in tt or re.match(r'self\.(labels|persistentLabels)(\[|$)', tt) and fn.cls is not None and fn.cls.name == 'Context':
                    n_sites += 1
                    chk.analysed(fn)
                    ok = own <= allowed_labels or fn.module.name == 'plasTeX.Packages.xr'
                    chk.verdict(R, '%s writes the label table (%s)' % (fn.fullname, tt.split('[')[0]), ok,
                                '%s stores into the label table outside the label protocol' % fn.fullname, chk.where(fn, n))
                if re.match(r'self\.refs(\[|$)', tt) and fn.cls is not None and fn.cls.name == 'Context' or re.search(r'context\.refs(\[|$)', tt):
                    n_sites += 1
                    chk.analysed(fn)
                    chk.verdict(R, '%s writes the pending table' % fn.fullname, own <= allowed_refs,
                                '%s stores into the pending-reference table outside Context.ref/label' % fn.fullname, chk.where(fn, n))
    need(n_sites >= 8, 'only %d writer sites of the label protocol found' % n_sites)
    chk.call_sites += n_sites
    # the two legitimate currentlabel writers set it to the numbered node
    rs = m.func('plasTeX', 'Macro.refstepcounter')
    from . import c08
    Macro = m.cls('plasTeX', 'Macro')
    filt = A.private_only
    for label, counter, want in (('a numbered node', 'equation', 'self'), ('a node without a counter', None, 'None')):
        res = c08.run_macro(m, chk, rs, c08.macro_heap(m, Macro, counter=counter), Macro, filt=filt)
        labs = sorted({r[2] for r in res if r[0] != 'raise'} | {'raise' for r in res if r[0] == 'raise'})
        chk.decide(R, 'refstepcounter makes the stepped node current: %s' % label, set(labs), {want},
                   'refstepcounter of %s leaves context.currentlabel = %s, expected %s' % (label, labs, want), chk.where(rs))


def r95(chk, m, rule_id='R9.5'):
    R = chk.rule(rule_id, 'the label, pending-reference and counter tables are created fresh for every Context: fresh container '
                 'literals in __init__, no mutable default arguments, no class-level containers', 8)
    Context = m.cls('plasTeX.Context', 'Context')
    init = m.find_method(Context, '__init__')
    chk.analysed(init)
    params = {a.arg for a in init.node.args.args + init.node.args.kwonlyargs}
    defaults = [text(d) for d in init.node.args.defaults + [d for d in init.node.args.kw_defaults if d is not None]
                if isinstance(d, (ast.List, ast.Dict, ast.Set, ast.Call))]
    chk.verdict(R, 'Context.__init__ has no mutable default argument', not defaults,
                'Context.__init__ has mutable default argument(s) %s: every Context built with the default shares that one object' % defaults, chk.where(init))
    assigned = {}
    shared_lit = []
    for n in M.walk_no_nested(init.node):
        if isinstance(n, ast.Assign):
            own = [t.attr for t in n.targets if isinstance(t, ast.Attribute) and text(t.value) == 'self']
            for t in n.targets:
                if isinstance(t, ast.Attribute) and text(t.value) == 'self':
                    assigned[t.attr] = n.value
            if len(own) > 1 and isinstance(n.value, (ast.Dict, ast.List, ast.Set, ast.Call)):
                shared_lit.append(own)
    # one container object bound to several tables (a = b = {}) / one table initialised from another
    aliases = [(a, text(v)) for a, v in assigned.items() if isinstance(v, ast.Attribute) and text(v.value) == 'self' and v.attr in assigned]
    chk.verdict(R, 'the tables of a Context are distinct objects', not shared_lit and not aliases,
                'Context.__init__ binds one container to several attributes (%s): labels restored from other documents (labels) and the '
                'labels this document saves (persistentLabels) must be separate tables' % (shared_lit or aliases), chk.where(init))
    shared_cls = [k for k, vs in Context.assigns.items() if any(isinstance(v, (ast.Dict, ast.List, ast.Set, ast.ListComp, ast.DictComp)) or
                                                                (isinstance(v, ast.Call) and text(v.func) in ('dict', 'list', 'set', 'Counters')) for v in vs)]
    chk.verdict(R, 'Context has no class-level container', not shared_cls,
                'Context binds container(s) at class level (%s): every Context (every document of the process) shares that one object' % shared_cls, chk.where(Context))
    for attr in ('labels', 'persistentLabels', 'refs', 'counters', 'contexts', 'packages'):
        v = assigned.get(attr)
        fresh = isinstance(v, (ast.Dict, ast.List)) and not (v.keys if isinstance(v, ast.Dict) else v.elts) or \
            (isinstance(v, ast.Call) and text(v.func) in ('dict', 'list', 'Counters', 'set') and not v.args)
        from_param = isinstance(v, ast.Name) and v.id in params
        cls_level = attr in Context.assigns
        chk.verdict(R, 'Context.%s is created per Context' % attr, fresh and not from_param and not cls_level,
                    'Context.%s is initialised from %s%s: labels of one document would be visible to the next (dangling references resolve, '
                    'forward references bind to old nodes)' % (attr, text(v) if v is not None else 'nothing', ' and a class-level attribute exists' if cls_level else ''),
                    chk.where(init), text(v) if v is not None else 'missing')
