"""C16 - Configuration values come from defaults, files and command line in that order.

R16.1 layering order, R16.2 conversion soundness per option class, R16.3 typed
defaults / flags / interpolation-safe strings, R16.4 absent means untouched,
R16.5 interpolation on access, R16.6 key identity from files, R16.7 one parser
per file, R16.8 later sources override dictionary entries."""
import ast
import re

from .. import flow
from .. import model as M
from ..report import AnalysisError, need
from ..util import text

CM = 'plasTeX.ConfigManager'
PARSING_TYPES = {'str', 'int', 'float'}


def check(chk):
    m = chk.model
    r161(chk, m)
    opts = collect_options(chk, m)
    r162(chk, m, opts)
    r163(chk, m, opts)
    r164(chk, m)
    r165(chk, m)
    r166_7(chk, m)
    r168(chk, m)
    chk.decline('the value x source product for concrete configurations (runtime)')


def r161(chk, m):
    R = chk.rule('R16.1', 'layering order in client.main: defaults (+ renderer sections) -> registerArgparse -> parse_args -> '
                 'read(files) -> updateFromDict, on every path', 1)
    fn = m.module('plasTeX.client').functions.get('main')
    need(fn is not None, 'client.main not found')
    chk.analysed(fn)
    order = ['defaultConfig', 'collect_renderer_config', 'config.registerArgparse', 'parser.parse_args', 'config.read', 'config.updateFromDict', 'run']
    idx = {n: i for i, n in enumerate(order)}

    def transfer(n, v):
        if isinstance(n, ast.Call) and M.call_name(n) in idx:
            seq = v + (idx[M.call_name(n)],)
            return seq
        return v
    normal, raised = flow.function_exits(fn.node, (), transfer)
    ok = bool(normal)
    for seq in normal:
        need_all = [0, 1, 2, 3, 5, 6]
        ok = ok and list(seq) == sorted(seq) and all(x in seq for x in need_all) and len(set(seq)) == len(seq)
    chk.verdict(R, 'client.main layering', ok,
                'client.main applies the sources in the order %s (by index into %s): files must be read after the defaults exist '
                'and before the command line is applied' % (sorted(normal), order), chk.where(fn), str(sorted(normal)))


def local_classes(mod):
    """ClassDef nodes at module level and inside function bodies."""
    out = []
    for n in ast.walk(mod.tree):
        if isinstance(n, ast.ClassDef):
            out.append(n)
    return out


def option_kind(m, cdef, mod, local):
    """Walk the bases up to a ConfigManager class; returns list of class names (local ClassDefs first)."""
    chain = []
    seen = set()
    cur = cdef
    while cur is not None and id(cur) not in seen:
        seen.add(id(cur))
        chain.append(cur)
        nxt = None
        for b in cur.bases:
            bn = text(b.value if isinstance(b, ast.Subscript) else b)
            if bn in local:
                nxt = local[bn]
                break
            try:
                c = m.cls(CM, bn)
                nxt = c.node
                break
            except AnalysisError:
                continue
        cur = nxt
    return chain


def collect_options(chk, m):
    """All option instantiations  section['key'] = XOption(desc, options=..., default=...)."""
    out = []
    for modname in ('plasTeX.Config', 'plasTeX.Renderers.HTML5.Config'):
        mod = m.module(modname)
        chk.files.add(mod.path.replace('/repo/', ''))
        local = {c.name: c for c in local_classes(mod)}
        for n in ast.walk(mod.tree):
            if isinstance(n, ast.Assign) and isinstance(n.targets[0], ast.Subscript) and isinstance(n.value, ast.Call) \
               and text(n.value.func).endswith('Option'):
                key = m.eval_const(mod, n.targets[0].slice)
                kw = {k.arg: k.value for k in n.value.keywords}
                args = list(n.value.args)
                options = kw.get('options', args[1] if len(args) > 1 else None)
                default = kw.get('default', args[2] if len(args) > 2 else None)
                out.append({'mod': mod, 'node': n, 'section': text(n.targets[0].value), 'key': key, 'cls': text(n.value.func),
                            'options': m.eval_const(mod, options) if options is not None else None, 'default': default, 'local': local})
    need(len(out) >= 50, 'only %d option declarations found' % len(out))
    return out


def resolve_method(m, chain, name):
    for c in chain:
        for st in c.body:
            if isinstance(st, ast.FunctionDef) and st.name == name:
                return c, st
    return None, None


def r162(chk, m, opts):
    R = chk.rule('R16.2', 'conversion soundness: an option class that inherits the generic conversion valueType()(string) must have a '
                 'value type whose constructor parses its text (str, int, float); booleans parse yes/no, true/false, on/off, 1/0; '
                 'list options extend, dictionary options set per entry - consistently for files and command line', 8)
    classes = {}
    for o in opts:
        cname = o['cls']
        if cname in classes:
            continue
        cdef = o['local'].get(cname)
        if cdef is None:
            try:
                cdef = m.cls(CM, cname).node
            except AnalysisError:
                raise AnalysisError('option class %s not resolvable' % cname)
        classes[cname] = (cdef, o)
    for cname, (cdef, o) in sorted(classes.items()):
        chain = option_kind(m, cdef, o['mod'], o['local'])
        names = [c.name for c in chain]
        owner, sfs = resolve_method(m, chain, 'setFromString')
        need(sfs is not None, 'setFromString not resolvable for %s' % cname)
        generic = owner.name == 'ConfigOption'
        # value type from the Generic argument of the first base that has one
        vtype = None
        for c in chain:
            for b in c.bases:
                if isinstance(b, ast.Subscript) and vtype is None:
                    vtype = text(b.slice)
        where = '%s:%d (%s)' % (o['mod'].path.replace('/repo/', ''), cdef.lineno, cname)
        if generic:
            chk.verdict(R, 'option class %s conversion' % cname, vtype in PARSING_TYPES,
                        'option class %s (value type %s) inherits the generic conversion %s(string): for this type the constructor '
                        'does not parse the textual forms (bool("no") is True)' % (cname, vtype, vtype), where, 'generic %s()' % vtype)
        elif 'BooleanOption' in names and owner.name == 'BooleanOption':
            src = text(sfs)
            ok = 'BOOLEAN_STATES' in src or all(w in src for w in ("'yes'", "'no'", "'true'", "'false'", "'on'", "'off'"))
            ok = ok and '.lower()' in src
            chk.verdict(R, 'option class %s conversion' % cname, ok,
                        'BooleanOption.setFromString must parse yes/no, true/false, on/off, 1/0 case-insensitively', where, 'boolean table')
        elif 'MultiStringOption' in names:
            src = text(sfs)
            _, ufd = resolve_method(m, chain, 'updateFromDict')
            ok = 'self.value.extend(' in src and 'self.value.extend(' in text(ufd)
            chk.verdict(R, 'option class %s conversion' % cname, ok, 'list options must extend the current value from files and from the command line', where, 'extend/extend')
        elif 'DictOption' in names:
            src = text(sfs)
            o2, ufd = resolve_method(m, chain, 'updateFromDict')
            e_owner, efs = resolve_method(m, chain, 'entryFromString')
            ok = 'self.set(' in src and ('self.set(' in text(ufd) or 'self.value[' in text(ufd)) and efs is not None and e_owner.name != 'DictOption'
            # entry conversion parses: int(entry)/float(entry)/entry
            conv = [text(r.value) for r in ast.walk(efs) if isinstance(r, ast.Return)] if efs is not None else []
            ok = ok and conv and all(re.fullmatch(r'entry|int\(entry\)|float\(entry\)|str\(entry\)', c) for c in conv)
            chk.verdict(R, 'option class %s conversion' % cname, ok,
                        'dictionary option %s: entries must be set one by one from both sources and converted by a parsing constructor (%s)' % (cname, conv),
                        where, 'set per entry, %s' % conv)
        else:
            raise AnalysisError('option class %s overrides setFromString in an unknown way: re-confirm R16.2' % cname)


def r163(chk, m, opts):
    R = chk.rule('R16.3', 'every option: the literal default has the declared type; string defaults are well formed for '
                 '%-interpolation; command-line names are unique; booleans have an enable flag or an enable/!disable pair', 50)
    want = {'StringOption': str, 'IntegerOption': int, 'FloatOption': float, 'BooleanOption': bool, 'MultiStringOption': list}
    dests = {}
    flags = {}
    keys = {o['key'] for o in opts}
    for o in opts:
        mod = o['mod']
        where = '%s:%d' % (mod.path.replace('/repo/', ''), o['node'].lineno)
        d = m.eval_const(mod, o['default']) if o['default'] is not None else M.UNKNOWN
        cname = o['cls']
        t = want.get(cname, dict)
        ok = not M.is_unknown(d) and type(d) is t
        msg = 'default %r is not a %s' % (d, t.__name__)
        if ok and isinstance(d, str):
            rest = re.sub(r'%%|%\((\w[\w-]*)\)s', lambda mo: '' if mo.group(1) is None or mo.group(1) in keys else '%BAD', d)
            if '%' in rest:
                ok = False
                msg = 'string default %r is not well formed for %%-interpolation (only %%%% and %%(known-option)s)' % d
        optstr = o['options']
        if not isinstance(optstr, str) or not optstr.strip():
            ok = False
            msg = 'no command-line option string'
        else:
            parts = optstr.split(' ')
            dest = parts[0].lstrip('-')
            dests.setdefault(dest, []).append(where)
            for p in parts:
                flags.setdefault(p.lstrip('!'), []).append(where)
            if cname == 'BooleanOption':
                en = [p for p in parts if not p.startswith('!')]
                dis = [p for p in parts if p.startswith('!')]
                if not en or any(not p.startswith('-') for p in en) or any(not p[1:].startswith('-') for p in dis):
                    ok = False
                    msg = 'boolean flags %r need an enable flag and optionally a !disable flag' % optstr
        chk.verdict(R, 'option %s[%s]' % (o['section'], o['key']), ok, 'option %r: %s' % (o['key'], msg), where, '%s default %r' % (cname, d))
    dup = {k: v for k, v in dests.items() if len(v) > 1}
    chk.verdict(R, 'command-line destinations unique', not dup, 'options share a destination name: %s' % dup, 'plasTeX/Config.py')
    dupf = {k: v for k, v in flags.items() if len(v) > 1}
    chk.verdict(R, 'command-line flags unique', not dupf, 'the same flag is registered twice: %s' % dupf, 'plasTeX/Config.py')


def r164(chk, m):
    R = chk.rule('R16.4', 'absent means untouched: store_true/store_false flags are registered with default=None and every '
                 'updateFromDict ignores None', 4)
    n = 0
    for modname in (CM, 'plasTeX.Config', 'plasTeX.Renderers.HTML5.Config'):
        mod = m.module(modname)
        for c in ast.walk(mod.tree):
            if isinstance(c, ast.Call) and text(c.func).endswith('add_argument'):
                kw = {k.arg: text(k.value) for k in c.keywords}
                if kw.get('action') in ("'store_true'", "'store_false'"):
                    n += 1
                    chk.verdict(R, '%s add_argument(%s)' % (modname, kw.get('action')), kw.get('default') == 'None',
                                'a %s flag is registered with default=%s: an absent flag would overwrite the file value' % (kw.get('action'), kw.get('default')),
                                '%s:%d' % (mod.path.replace('/repo/', ''), c.lineno))
                elif 'default' in kw and kw['default'] != 'None':
                    n += 1
                    chk.fail(R, '%s add_argument default' % modname, 'add_argument with default=%s: argparse defaults would override file values' % kw['default'],
                             '%s:%d' % (mod.path.replace('/repo/', ''), c.lineno))
        for f in ast.walk(mod.tree):
            if isinstance(f, ast.FunctionDef) and f.name == 'updateFromDict' and any(a.arg == 'data' for a in f.args.args):
                src = text(f)
                if 'for option in' in src or 'for section in' in src:
                    continue      # delegating containers
                n += 1
                ok = re.search(r'is not None', src) is not None
                chk.verdict(R, '%s updateFromDict@%d' % (modname, f.lineno), ok,
                            'updateFromDict does not skip absent (None) command-line values', '%s:%d' % (mod.path.replace('/repo/', ''), f.lineno))
    need(n >= 4, 'flag registrations / updateFromDict implementations not found')


def r165(chk, m):
    R = chk.rule('R16.5', 'interpolation on access: ConfigSection.__getitem__ applies % with the wrapper to every string and to every '
                 'item of a list of strings, unconditionally (so %% always becomes %), and returns other values unchanged', 2)
    fn = m.func(CM, 'ConfigSection.__getitem__')
    chk.analysed(fn)
    ifs = [n for n in fn.node.body if isinstance(n, ast.If)]
    ok = False
    detail = ''
    if len(ifs) == 1:
        i = ifs[0]
        t1 = text(i.test)
        b1 = [text(s) for s in i.body]
        ok1 = t1 == 'isinstance(value, str)' and b1 == ['return value % wrapper']
        ok2 = False
        if i.orelse and isinstance(i.orelse[0], ast.If):
            j = i.orelse[0]
            ok2 = 'isinstance(value, Sequence)' in text(j.test) and [text(s) for s in j.body] == ['return [x % wrapper for x in value]'] \
                and [text(s) for s in j.orelse] == ['return value']
        ok = ok1 and ok2
        detail = '%s -> %s' % (t1, b1)
    calls = [M.call_name(c) for c in M.calls_in(fn.node)]
    extra = [c for c in calls if c not in ('InterpolationWrapper', 'isinstance')]
    chk.verdict(R, 'ConfigSection.__getitem__', ok and not extra,
                '__getitem__ must return `value %% wrapper` for every string (found %s; helper calls %s): a value without a reference '
                'would keep its %%%% doubled' % (detail, extra), chk.where(fn))
    w = m.func(CM, 'InterpolationWrapper.__getitem__')
    chk.analysed(w)
    src = text(w.node)
    ok = 'for section in self.inner.values()' in src and 'return section[key]' in src and 'raise KeyError(key)' in src
    chk.verdict(R, 'InterpolationWrapper looks the name up in every section', ok, 'the wrapper must resolve a name through the sections and raise KeyError otherwise', chk.where(w))


def r166_7(chk, m):
    R6 = chk.rule('R16.6', 'keys read from a file reach dictionary options as written (the parser does not change their case), while '
                  'ordinary option names are matched case-insensitively', 2)
    R7 = chk.rule('R16.7', 'each configuration file is parsed by its own fresh parser (a later file is applied once, on top of the '
                  'earlier ones)', 1)
    fn = m.func(CM, 'ConfigManager.read')
    chk.analysed(fn)
    loops = [n for n in M.walk_no_nested(fn.node) if isinstance(n, ast.For) and text(n.iter) == 'filenames']
    need(len(loops) == 1, 'ConfigManager.read: per-file loop not found')
    loop = loops[0]
    created = [n for n in M.walk_no_nested(fn.node) if isinstance(n, ast.Assign) and isinstance(n.value, ast.Call) and text(n.value.func) in ('ConfigParser', 'configparser.ConfigParser', 'RawConfigParser')]
    need(len(created) == 1, 'ConfigManager.read: parser construction not found')
    inside = any(x is created[0] for x in ast.walk(loop))
    chk.verdict(R7, 'one parser per file', inside,
                'the parser is created once for all files: it accumulates their contents, so list options of an earlier file are '
                'appended again for every later file', chk.where(fn, created[0]))
    pv = text(created[0].targets[0])
    xform = [n for n in M.walk_no_nested(fn.node) if isinstance(n, ast.Assign) and text(n.targets[0]) == '%s.optionxform' % pv]
    ok = len(xform) == 1 and text(xform[0].value) in ('str', 'lambda option: option', 'lambda x: x')
    chk.verdict(R6, 'file keys keep their case', ok,
                'ConfigParser lower-cases option names by default: [counters] MyCounter=3 would be stored as mycounter (the command-line '
                'route keeps the case); the parser needs optionxform = str', chk.where(fn))
    # dictionary route gets the key as written; option lookup is case-insensitive
    sets = [c for c in M.calls_in(fn.node) if M.call_name(c) == 'dictObject.set']
    ok = len(sets) == 1 and text(sets[0].args[0]) == 'key'
    look = [text(n.test) for n in M.walk_no_nested(fn.node) if isinstance(n, ast.If) and 'self[section].data' in text(n.test)]
    ok2 = any('key.lower()' in t for t in look) if xform else any(t.startswith('key in') for t in look)
    chk.verdict(R6, 'dictionary entries get the key as written', ok and ok2,
                'unknown keys must be handed to the dictionary option unchanged (%s) and option names matched case-insensitively (%s)'
                % ([text(s) for s in sets], look), chk.where(fn))


def r168(chk, m):
    R = chk.rule('R16.8', 'dictionary options: every entry from a later source is assigned over the current value (command line over '
                 'files over defaults)', 2)
    fn = m.func(CM, 'DictOption.updateFromDict')
    chk.analysed(fn)
    src = text(fn.node)
    loops = [n for n in M.walk_no_nested(fn.node) if isinstance(n, ast.For)]
    ok = len(loops) == 1 and [text(s) for s in loops[0].body] == ['self.set(key, val)'] and text(loops[0].iter) == 'entries'
    rebinding = [text(n) for n in M.walk_no_nested(fn.node) if isinstance(n, ast.Assign) and text(n.targets[0]) == 'self.value']
    chk.verdict(R, 'DictOption.updateFromDict', ok and not rebinding,
                'updateFromDict must call self.set(key, val) for every command-line entry (found loop %s, rebinding %s): merging so '
                'that existing entries win would let a file override the command line' % ([text(l) for l in loops][:1], rebinding), chk.where(fn))
    st = m.func(CM, 'DictOption.set')
    chk.analysed(st)
    chk.verdict(R, 'DictOption.set assigns the entry', [text(s) for s in st.node.body if not isinstance(s, ast.Expr)] == ['self.value[key] = self.entryFromString(value)'],
                'DictOption.set must assign self.value[key] = entryFromString(value)', chk.where(st))
