"""C16 - Configuration values come from defaults, files and command line in that order.

The configuration is *built* by interpreting plasTeX.Config.defaultConfig and the renderer's addConfig on a heap (no
execution): the result is the table of sections and option objects, each an instance of its option class.  All rules are
then decided on that heap:

R16.1 layering order in client.main (events of an interpretation with private helpers folded in),
R16.2 conversion from file text per option, R16.3 typed defaults / flags / interpolation-safe strings,
R16.4 command line: registration and read-back per option through a small model of argparse (absent means untouched),
R16.5 interpolation on access, R16.6 files: scripted parser - key identity, one application per file, later file wins,
R16.7 layering of values: defaults < files < command line for every option kind."""
import ast
import copy
import re

from .. import absint as A
from .. import model as M
from ..report import AnalysisError, need
from ..util import text
from . import domheap as D

CM = 'plasTeX.ConfigManager'


def check(chk):
    m = chk.model
    r161(chk, m)
    cfg = build_config(chk, m)
    opts = options_of(cfg)
    need(len(opts) >= 50, 'only %d options found in the interpreted configuration' % len(opts))
    r163(chk, m, cfg, opts)
    r162(chk, m, cfg, opts)
    r164(chk, m, cfg, opts)
    r165(chk, m, cfg, opts)
    r166(chk, m, cfg, opts)
    r167(chk, m, cfg, opts)
    chk.decline('the value x source product for concrete configurations (runtime)')


# ---------------------------------------------------------------------------
class CfgHooks(D.DomHooks):
    """argparse groups record their registrations; ConfigParser is a scripted parser (sections, items, optionxform)."""

    def __init__(self, model, cls=None, files=None):
        D.DomHooks.__init__(self, model, cls or model.cls(CM, 'ConfigManager'))
        self.files = files or {}

    def lookup(self, interp, name, state):
        if name == 'ConfigParser.BOOLEAN_STATES':
            import configparser
            return dict(configparser.ConfigParser.BOOLEAN_STATES)
        return None

    def call(self, interp, node, fname, args, kwargs, state):
        if fname == 'print' or re.match(r'log\.\w+$', fname):
            return A.NONE
        if fname == 'shlex.split' and len(args) == 1 and isinstance(args[0], str):
            import shlex
            try:
                return shlex.split(args[0])
            except ValueError:
                state.env['__exc'] = 'ValueError'
                return A.TOP
        if fname in ('ConfigParser', 'configparser.ConfigParser', 'RawConfigParser', 'configparser.RawConfigParser'):
            k = state.env.get('__nparsers', 0)
            state.env['__nparsers'] = k + 1
            return A.Obj('parser%d' % k, {'__content': {}, 'optionxform': 'default(lower)', '__interp': kwargs.get('interpolation', 'basic')})
        if isinstance(node.func, ast.Attribute):
            attr = node.func.attr
            recv = interp.ev(node.func.value, state) if isinstance(node.func.value, (ast.Name, ast.Attribute)) else None
            if isinstance(recv, A.Obj) and recv.label.startswith('parser') and '__content' in recv.attrs:
                content = recv.attrs['__content']
                xf = recv.attrs.get('optionxform')
                keep = xf is str or (isinstance(xf, A.Sym) and xf.label.startswith('func:<lambda'))
                if attr in ('read', 'read_file', 'read_string') and args:
                    names = args[0] if isinstance(args[0], list) else [args[0]]
                    for nm in names:
                        for sec, items in self.files.get(nm, []):
                            d = content.setdefault(sec, {})
                            for kk, vv in items:
                                d[kk if keep else kk.lower()] = vv
                    return list(n2 for n2 in names if n2 in self.files)
                if attr == 'sections' and not args:
                    return list(content.keys())
                if attr == 'items' and len(args) == 1 and isinstance(args[0], str):
                    if args[0] not in content:
                        state.env['__exc'] = 'NoSectionError'
                        return A.TOP
                    return [(k2, v2) for k2, v2 in content[args[0]].items()]
                if attr == 'has_section' and len(args) == 1:
                    return args[0] in content
                if attr == 'options' and len(args) == 1 and args[0] in content:
                    return list(content[args[0]].keys())
                if attr == 'get' and len(args) == 2 and args[0] in content and args[1] in content[args[0]]:
                    return content[args[0]][args[1]]
            if isinstance(recv, A.Obj) and recv.label.startswith('argparse'):
                if attr == 'add_argument_group':
                    return A.Obj('argparse-group', {})
                if attr == 'add_argument':
                    state.env.setdefault('__regs', []).append((list(args), dict(kwargs)))
                    return A.NONE
        return D.DomHooks.call(self, interp, node, fname, args, kwargs, state)


def interp_fn(m, fn, env, files=None, cls=None, inline=12, max_iter=24, filt=None):
    h = CfgHooks(m, cls, files)
    if filt is not None:
        h.should_inline = filt
    it = A.Interp(model=m, scope=fn, hooks=h, max_iter=max_iter, exc_edges=False, inline=inline, heap=True, precise_exc=True, max_states=20000,
                  generators=True)
    it.run_init = True
    outs = it.run_function(fn, env=env)
    if it.imprecise:
        raise D.Imprecise('; '.join(sorted(set(it.imprecise))[:3]))
    if it.unknown_branches:
        raise D.Imprecise('the outcome of a test is not determined on this heap: ' + '; '.join(sorted(set(it.unknown_branches))[:3]))
    return outs


def build_config(chk, m):
    """The configuration object as defaultConfig() and the HTML5 renderer's addConfig() build it (interpreted)."""
    fn = m.func_or_none('plasTeX.Config', 'defaultConfig')
    need(fn is not None, 'plasTeX.Config.defaultConfig not found')
    chk.analysed(fn)
    outs = interp_fn(m, fn, {'loadConfigFiles': False})
    rets = [(s, v) for kind, s, v in outs if kind == 'return']
    need(len(rets) == 1 and isinstance(rets[0][1], A.Obj) and isinstance(rets[0][1].attrs.get('__dict'), dict),
         'defaultConfig() does not come back with one configuration object (%s)' % [(k, v) for k, s, v in outs][:3])
    cfg = rets[0][1]
    add = m.func_or_none('plasTeX.Renderers.HTML5.Config', 'addConfig')
    need(add is not None, 'plasTeX.Renderers.HTML5.Config.addConfig not found')
    chk.analysed(add)
    outs = interp_fn(m, add, {'config': cfg})
    rets = [s for kind, s, v in outs if kind == 'return']
    need(len(rets) == 1, 'HTML5 addConfig does not have one normal outcome')
    cfg = rets[0].env['config']
    for mod in ('plasTeX.Config', 'plasTeX.Renderers.HTML5.Config', CM):
        chk.files.add(m.module(mod).path.replace(chk.model.root.rstrip('/') + '/', ''))
    return cfg


def options_of(cfg):
    out = []
    for sname, sec in cfg.attrs['__dict'].items():
        data = sec.attrs.get('data') if isinstance(sec, A.Obj) else None
        need(isinstance(data, dict), 'section %s has no option table' % sname)
        for key, o in data.items():
            need(isinstance(o, A.Obj) and isinstance(o.cls, M.ClassInfo), 'option %s.%s is not an option object' % (sname, key))
            out.append((sname, key, o))
    return out


def kind_of(m, o):
    names = [getattr(k, 'name', '') for k in m.mro(o.cls)]
    for k in ('BooleanOption', 'MultiStringOption', 'DictOption', 'IntegerOption', 'FloatOption', 'StringOption'):
        if k in names:
            return k
    return 'ConfigOption'


def entry_type(m, o):
    """int / float / str for a dictionary option, from the type argument of its DictOption base."""
    for k in m.mro(o.cls):
        if isinstance(k, M.ClassInfo):
            for b in k.node.bases:
                if isinstance(b, ast.Subscript) and text(b.value).endswith('DictOption'):
                    return {'int': int, 'float': float, 'str': str}.get(text(b.slice))
    return None


def where_of(chk, o):
    return chk.where(o.cls)


def find_opt(cfg, sname, key):
    return cfg.attrs['__dict'][sname].attrs['data'][key]


def show(v):
    if isinstance(v, A.Obj):
        return '<%s>' % v.label
    return repr(v)


# ---------------------------------------------------------------------------
def r161(chk, m):
    R = chk.rule('R16.1', 'layering order in client.main, by interpretation with its private helpers folded in: defaults and renderer '
                 'sections exist before the command line is declared and parsed; files named on the command line are read after '
                 'that and before the command-line values are applied; then the run starts - with and without --config', 2)
    mod = m.module('plasTeX.client')
    fn = m.func_or_none(mod, 'main')
    need(fn is not None, 'client.main not found')
    chk.analysed(fn)

    class H(CfgHooks):
        def __init__(self, model, data):
            CfgHooks.__init__(self, model)
            self.data = data

        def call(self, interp, node, fname, args, kwargs, state):
            ev = state.env.setdefault('__events', [])
            if fname == 'defaultConfig':
                ev.append('defaults')
                return A.Obj('config', {})
            if fname == 'collect_renderer_config':
                ev.append('renderer-sections')
                return A.NONE
            if fname in ('ArgumentParser', 'argparse.ArgumentParser'):
                return A.Obj('argparse-parser', {})
            if fname == 'vars' and len(args) == 1 and isinstance(args[0], A.Obj) and args[0].label == 'namespace':
                return dict(self.data)
            if fname == 'run':
                ev.append('run(%s)' % ', '.join(show(a) for a in args))
                return A.NONE
            if isinstance(node.func, ast.Attribute):
                recv = interp.ev(node.func.value, state) if isinstance(node.func.value, ast.Name) or node.func.attr in ('parse_args', 'parse_known_args') else None
                if isinstance(recv, A.Obj) and recv.label == 'config':
                    ev.append('%s(%s)' % (node.func.attr, ', '.join(show(a) if not isinstance(a, dict) else 'data' for a in args)))
                    return A.NONE
                if isinstance(recv, A.Obj) and recv.label == 'argparse-parser' and node.func.attr in ('parse_args', 'parse_known_args'):
                    ev.append('parse')
                    return A.Obj('namespace', {})
            return CfgHooks.call(self, interp, node, fname, args, kwargs, state)
    for label, data, want in (('with --config', {'config': ['a.ini', 'b.ini'], 'file': 'doc.tex'},
                               "defaults renderer-sections registerArgparse(<argparse-parser>) parse read(['a.ini', 'b.ini']) updateFromDict(data) run('doc.tex', <config>)"),
                              ('without --config', {'config': None, 'file': 'doc.tex'},
                               "defaults renderer-sections registerArgparse(<argparse-parser>) parse updateFromDict(data) run('doc.tex', <config>)")):
        h = H(m, data)
        h.should_inline = lambda fname, node, info: info is None or (getattr(node, 'name', '').startswith('_') and info.cls is None) \
            or (info.cls is not None and re.match(r'_[A-Za-z]', info.cls.name) is not None)         # (private helper classes of the module)
        it = A.Interp(model=m, scope=fn, hooks=h, max_iter=8, exc_edges=False, inline=6, heap=True, precise_exc=True)
        outs = it.run_function(fn, env={'argv': ['doc.tex']})
        if it.imprecise or it.unknown_branches:
            chk.undecided(R, 'client.main layering ' + label, '; '.join((it.imprecise + it.unknown_branches)[:3]), chk.where(fn))
            continue
        got = {'%s: %s' % (kind, ' '.join(s.env.get('__events', []))) for kind, s, v in outs}
        chk.decide(R, 'client.main layering ' + label, got, {'return: ' + want}, 'client.main applies the sources as %s; expected %s - files must '
                   'be read after the defaults exist and before the command line is applied' % (sorted(got), want), chk.where(fn), want)


# ---------------------------------------------------------------------------
WANT_TYPE = {'StringOption': str, 'IntegerOption': int, 'FloatOption': float, 'BooleanOption': bool, 'MultiStringOption': list, 'DictOption': dict}


def r163(chk, m, cfg, opts):
    R = chk.rule('R16.3', 'every option of the interpreted configuration: the default has the type of its option class; string defaults are '
                 'well formed for %-interpolation; command-line names and flags are unique; booleans have an enable flag and at most '
                 'a !disable flag', 50)
    keys = {k for _, k, _ in opts}
    dests, flags = {}, {}
    for sname, key, o in opts:
        kind = kind_of(m, o)
        d = o.attrs.get('value')
        t = WANT_TYPE.get(kind)
        ok = t is not None and type(d) is t
        msg = 'default %r is not a %s' % (d, t.__name__ if t else '?')
        if ok and isinstance(d, str):
            rest = re.sub(r'%%|%\((\w[\w-]*)\)s', lambda mo: '' if mo.group(1) is None or mo.group(1) in keys else '%BAD', d)
            if '%' in rest:
                ok, msg = False, 'string default %r is not well formed for %%-interpolation (only %%%% and %%(known-option)s)' % d
        fl = o.attrs.get('options')
        name = o.attrs.get('name')
        if not (isinstance(fl, list) and fl and all(isinstance(x, str) and x for x in fl) and isinstance(name, str) and name):
            ok, msg = False, 'no command-line option string (%r, name %r)' % (fl, name)
        else:
            dests.setdefault(name, []).append('%s.%s' % (sname, key))
            for p in fl:
                flags.setdefault(p.lstrip('!'), []).append('%s.%s' % (sname, key))
            if kind == 'BooleanOption':
                en = [p for p in fl if not p.startswith('!')]
                dis = [p for p in fl if p.startswith('!')]
                if not en or any(not p.startswith('-') for p in en) or any(not p[1:].startswith('-') for p in dis):
                    ok, msg = False, 'boolean flags %r need an enable flag and optionally a !disable flag' % fl
            elif any(not p.startswith('-') for p in fl):
                ok, msg = False, 'flags %r must start with -' % fl
        chk.verdict(R, 'option %s[%s]' % (sname, key), ok, 'option %r: %s' % (key, msg), where_of(chk, o), '%s default %r' % (kind, d))
    # list and dictionary values are per option and per configuration: no object shared between options, no mutable
    # default argument in a constructor (that object would be shared by every configuration built in the process)
    seen = {}
    for sname, key, o in opts:
        v = o.attrs.get('value')
        if isinstance(v, (list, dict)):
            seen.setdefault(id(v), []).append('%s.%s' % (sname, key))
    shared = [v for v in seen.values() if len(v) > 1]
    chk.verdict(R, 'list and dictionary defaults are one object per option', not shared,
                'options share one value object: %s - extending one extends the others' % shared, 'plasTeX/Config.py')
    ctors = {}
    for sname, key, o in opts:
        for k in m.mro(o.cls):
            if isinstance(k, M.ClassInfo) and '__init__' in k.methods:
                ctors[k.fullname] = k.methods['__init__']
    for cname, f in sorted(ctors.items()):
        chk.analysed(f)
        muts = [text(dv) for dv in list(f.node.args.defaults) + [x for x in f.node.args.kw_defaults if x is not None]
                if isinstance(dv, (ast.List, ast.Dict, ast.Set, ast.ListComp, ast.DictComp)) or
                (isinstance(dv, ast.Call) and text(dv.func) in ('list', 'dict', 'set'))]
        chk.verdict(R, '%s has no mutable default argument' % f.fullname, not muts,
                    '%s has the mutable default(s) %s: every option built without that argument, in every configuration of the '
                    'process, shares the one object, which setFromString/updateFromDict extend in place' % (f.fullname, muts), chk.where(f))
    dup = {k: v for k, v in dests.items() if len(v) > 1}
    chk.verdict(R, 'command-line destinations unique', not dup, 'options share a destination name: %s' % dup, 'plasTeX/Config.py')
    dupf = {k: v for k, v in flags.items() if len(v) > 1}
    chk.verdict(R, 'command-line flags unique', not dupf, 'the same flag is registered twice: %s' % dupf, 'plasTeX/Config.py')


# ---------------------------------------------------------------------------
FILE_SAMPLES = {
    'StringOption': [('some text', 'some text'), ('50%% done', '50%% done')],
    'IntegerOption': [('42', 42), ('-3', -3)],
    'FloatOption': [('1.5', 1.5), ('2', 2.0)],
    'BooleanOption': [('yes', True), ('no', False), ('true', True), ('false', False), ('on', True), ('off', False), ('1', True), ('0', False),
                      ('Yes', True), ('FALSE', False), ('No', False)],
}


def after_call(m, o, meth, args, files=None):
    """Interpret o.meth(*args) on a private copy of the option; set of descriptions of the resulting value."""
    fn = m.find_method(o.cls, meth)
    need(fn is not None, '%s.%s not found' % (o.cls.fullname, meth))
    oc = copy.deepcopy(o)
    env = {'self': oc, '__o': oc}
    params = [a.arg for a in fn.node.args.args[1:]]
    for p, a in zip(params, args):
        env[p] = a
    outs = interp_fn(m, fn, env, files=files, cls=o.cls)
    got = set()
    for kind, s, v in outs:
        if kind == 'return':
            val = s.env['__o'].attrs.get('value')
            got.add('%s %r' % (type(val).__name__, val) if A.is_concrete(val) else 'TOP')
        else:
            got.add('raises %s' % (v,))
    return fn, got


def r162(chk, m, cfg, opts):
    R = chk.rule('R16.2', 'conversion from file text, interpreted per option: strings stay as written, integers and floats are parsed, '
                 'booleans accept yes/no, true/false, on/off, 1/0 in any case (and nothing else), list options extend their value with '
                 'the shell-split words, dictionary options set one converted entry per key=value', 50)
    done = {}
    for sname, key, o in opts:
        kind = kind_of(m, o)
        sig = (o.cls.fullname, type(o.attrs.get('value')).__name__)
        label = 'option %s[%s] from file text' % (sname, key)
        if sig in done:
            # same class, same kind of default: same verdict (recorded once per option so that every option is an instance)
            res = done[sig]
            if res is None:
                chk.undecided(R, label, 'see the first option of class %s' % o.cls.name, where_of(chk, o))
            else:
                chk.verdict(R, label, res[0], res[1], where_of(chk, o), 'as %s' % res[2])
            continue
        try:
            bad = []
            if kind in FILE_SAMPLES:
                for txt_, want in FILE_SAMPLES[kind]:
                    fn, got = after_call(m, o, 'setFromString', [txt_])
                    chk.analysed(fn)
                    if got != {'%s %r' % (type(want).__name__, want)}:
                        bad.append('%r gives %s (expected %r)' % (txt_, sorted(got), want))
                if kind == 'BooleanOption':
                    fn, got = after_call(m, o, 'setFromString', ['maybe'])
                    if not all(g.startswith('raises') for g in got):
                        bad.append("'maybe' gives %s (expected an error)" % sorted(got))
            elif kind == 'MultiStringOption':
                o2 = copy.deepcopy(o)
                o2.attrs['value'] = ['first']
                fn, got = after_call(m, o2, 'setFromString', ['b "c d" e'])
                chk.analysed(fn)
                if got != {"list %r" % (['first', 'b', 'c d', 'e'],)}:
                    bad.append("'b \"c d\" e' on ['first'] gives %s (expected the value extended by b, 'c d', e)" % sorted(got))
            elif kind == 'DictOption':
                et = entry_type(m, o)
                need(et is not None, 'entry type of dictionary option %s not found' % o.cls.name)
                o2 = copy.deepcopy(o)
                sample = {int: ('5', 5, '6', 6), float: ('1.5', 1.5, '2', 2.0), str: ('x y', 'x y', 'z', 'z')}[et]
                o2.attrs['value'] = {'old': sample[1]}
                fn, got = after_call(m, o2, 'setFromString', ['Key = %s, other=%s' % (sample[0], sample[2])])
                chk.analysed(fn)
                want = {'old': sample[1], 'Key': sample[1], 'other': sample[3]}
                if got != {'dict %r' % (want,)}:
                    bad.append('%r gives %s (expected %r)' % ('Key = %s, other=%s' % (sample[0], sample[2]), sorted(got), want))
            else:
                raise AnalysisError('option class %s is of no known kind: re-confirm R16.2' % o.cls.name)
            res = (not bad, 'option class %s: %s' % (o.cls.name, '; '.join(bad)), kind)
        except D.Imprecise as e:
            done[sig] = None
            chk.undecided(R, label, str(e), where_of(chk, o))
            continue
        done[sig] = res
        chk.verdict(R, label, res[0], res[1], where_of(chk, o), kind)


# ---------------------------------------------------------------------------
def argparse_model(regs, argv):
    """What argparse would put under each dest for the command line `argv` (list of (flag, [tokens]) occurrences), for the
    registrations `regs` [(flags, kwargs)].  Only the actions the configuration uses are modelled."""
    data = {}
    by_flag = {}
    for flags, kw in regs:
        dest = kw.get('dest')
        if not isinstance(dest, str):
            raise D.Imprecise('an argument is registered without a known dest: %s' % (flags,))
        action = kw.get('action', 'store')
        if action in ('store_true', 'store_false'):
            data.setdefault(dest, kw.get('default', False if action == 'store_true' else True))
        elif 'default' in kw:
            data.setdefault(dest, kw['default'])
        else:
            data.setdefault(dest, None)
        for f in flags:
            by_flag[f] = (dest, kw)
    for flag, toks in argv:
        if flag not in by_flag:
            raise D.Imprecise('flag %s is not registered' % flag)
        dest, kw = by_flag[flag]
        action = kw.get('action', 'store')
        conv = kw.get('type')
        if conv is not None and not isinstance(conv, type):
            raise D.Imprecise('the type= of %s is not determined' % flag)

        def cv(t):
            return conv(t) if conv is not None else t
        nargs = kw.get('nargs')
        if action == 'store_true':
            data[dest] = True
        elif action == 'store_false':
            data[dest] = False
        elif action == 'store':
            data[dest] = cv(toks[0]) if nargs is None else [cv(t) for t in toks]
        elif action == 'append':
            cur = data.get(dest) or []
            cur = list(cur)
            cur.append(cv(toks[0]) if nargs is None else [cv(t) for t in toks])
            data[dest] = cur
        else:
            raise D.Imprecise('argparse action %r is not modelled' % (action,))
    return data


def cmdline_for(m, o, kind):
    """A command line for the option and the value expected afterwards (given the current value)."""
    fl = o.attrs['options']
    cur = o.attrs['value']
    en = [p for p in fl if not p.startswith('!')]
    if kind == 'StringOption':
        return [[(en[0], ['from cli'])]], ['from cli']
    if kind == 'IntegerOption':
        return [[(en[0], ['7'])]], [7]
    if kind == 'FloatOption':
        return [[(en[0], ['2.5'])]], [2.5]
    if kind == 'BooleanOption':
        lines, wants = [[(en[0], [])]], [True]
        for p in fl:
            if p.startswith('!'):
                lines.append([(p[1:], [])])
                wants.append(False)
        return lines, wants
    if kind == 'MultiStringOption':
        return [[(en[0], ['a', 'b']), (en[0], ['c'])]], [list(cur) + ['a', 'b', 'c']]
    if kind == 'DictOption':
        et = entry_type(m, o)
        if o.cls.name == 'LinksOption':
            return [[(en[0], ['next', 'Next']), (en[0], ['up', 'u.html', 'Up'])]], [dict(cur, **{'next-title': 'Next', 'up-url': 'u.html', 'up-title': 'Up'})]
        v = {int: ('4', 4), float: ('0.5', 0.5), str: ('v', 'v')}[et]
        return [[(en[0], ['Name', v[0]])]], [dict(cur, Name=v[1])]
    raise AnalysisError('unknown option kind %s' % kind)


def registrations(m, o):
    fn = m.find_method(o.cls, 'registerArgparse')
    need(fn is not None, '%s.registerArgparse not found' % o.cls.fullname)
    oc = copy.deepcopy(o)
    outs = interp_fn(m, fn, {'self': oc, 'group': A.Obj('argparse-group', {})}, cls=o.cls)
    regs = None
    for kind, s, v in outs:
        if kind != 'return':
            raise D.Imprecise('registerArgparse raises %s' % (v,))
        r = s.env.get('__regs', [])
        if regs is not None and repr(r) != repr(regs):
            raise D.Imprecise('registerArgparse has several outcomes')
        regs = r
    return fn, regs or []


def r164(chk, m, cfg, opts):
    R = chk.rule('R16.4', 'command line, per option, through a model of argparse (store, store_true/false, append, nargs, type): what the '
                 'option registers and what it reads back agree - a flag that is given sets the typed value (lists extend, '
                 'dictionaries set entries, --x/--no-x set True/False), a flag that is absent leaves the value untouched', 50)
    for sname, key, o in opts:
        kind = kind_of(m, o)
        label = 'option %s[%s] from the command line' % (sname, key)
        try:
            rfn, regs = registrations(m, o)
            chk.analysed(rfn)
            lines, wants = cmdline_for(m, o, kind)
            bad = []
            # absent: nothing given
            data = argparse_model(regs, [])
            ufn, got = after_call(m, o, 'updateFromDict', [data])
            chk.analysed(ufn)
            cur = o.attrs['value']
            if got != {'%s %r' % (type(cur).__name__, cur)}:
                bad.append('with the flag absent the value becomes %s (it was %r)' % (sorted(got), cur))
            for argv, want in zip(lines, wants):
                data = argparse_model(regs, argv)
                ufn, got = after_call(m, o, 'updateFromDict', [data])
                if got != {'%s %r' % (type(want).__name__, want)}:
                    bad.append('%s gives %s (expected %r)' % (' '.join([f] + t and ' '.join([f] + t) for f, t in argv), sorted(got), want))
            chk.verdict(R, label, not bad, 'option %s.%s (%s): %s' % (sname, key, o.cls.name, '; '.join(bad)), where_of(chk, o), kind)
        except D.Imprecise as e:
            chk.undecided(R, label, str(e), where_of(chk, o))


# ---------------------------------------------------------------------------
def r165(chk, m, cfg, opts):
    R = chk.rule('R16.5', 'interpolation on access, interpreted on the configuration heap: reading an option gives its value with '
                 '%(name)s replaced by the current value of the named option (whatever section it is in) and %% by one percent sign - '
                 'for strings and for every item of a list; other values come back unchanged', 50)
    CS = m.cls(CM, 'ConfigSection')
    fn = m.find_method(CS, '__getitem__')
    need(fn is not None, 'ConfigSection.__getitem__ not found')
    chk.analysed(fn)
    c2 = copy.deepcopy(cfg)
    # make the interpolation visible: a string with a reference and a doubled percent, a list with both, a plain one
    find_opt(c2, 'general', 'theme').attrs['value'] = 'T%%1'
    find_opt(c2, 'files', 'directory').attrs['value'] = 'out-%(theme)s-%(renderer)s-100%%'
    find_opt(c2, 'general', 'extra-templates').attrs['value'] = ['a-%(theme)s', 'b%%', 'c']
    # references to options whose current value is empty, zero or False
    find_opt(c2, 'general', 'kpsewhich').attrs['value'] = 'k[%(title)s|%(baseline-padding)s|%(debug)s]'
    flat = {}
    for sname, key, o in options_of(c2):
        flat.setdefault(key, o.attrs['value'])

    def expected(v, depth=0):
        if isinstance(v, str):
            def sub(mo):
                if mo.group(0) == '%%':
                    return '%'
                return str(expected(flat[mo.group(1)], depth + 1))
            return re.sub(r'%%|%\(([^)]+)\)s', sub, v)
        if isinstance(v, list) and v and isinstance(v[0], str):
            return [expected(x, depth) for x in v]
        return v
    for sname, key, o in options_of(c2):
        label = 'reading %s[%s]' % (sname, key)
        sec = c2.attrs['__dict'][sname]
        try:
            outs = interp_fn(m, fn, {'self': sec, 'key': key}, cls=CS)
        except D.Imprecise as e:
            chk.undecided(R, label, str(e), chk.where(fn))
            continue
        got = {('%s %r' % (type(v).__name__, v) if A.is_concrete(v) and not isinstance(v, A.Obj) else show(v)) if kind == 'return' else 'raises %s' % (v,)
               for kind, s, v in outs}
        want = expected(o.attrs['value'])
        chk.decide(R, label, got, {'%s %r' % (type(want).__name__, want)}, 'reading %s.%s (stored %r) gives %s; expected %r'
                   % (sname, key, o.attrs['value'], sorted(got), want), chk.where(fn))
    # the current value of the referenced option counts: read, change the referenced option, read again (on the same heap)
    c3 = copy.deepcopy(cfg)
    find_opt(c3, 'general', 'theme').attrs['value'] = 'first'
    find_opt(c3, 'files', 'directory').attrs['value'] = 'out-%(theme)s'
    try:
        got = set()
        for kind, s, v in interp_fn(m, fn, {'self': c3.attrs['__dict']['files'], 'key': 'directory', '__cfg': c3}, cls=CS):
            if kind != 'return':
                got.add('first read raises %s' % (v,))
                continue
            c4 = s.env['__cfg']
            find_opt(c4, 'general', 'theme').attrs['value'] = 'second'
            for kind2, s2, v2 in interp_fn(m, fn, {'self': c4.attrs['__dict']['files'], 'key': 'directory'}, cls=CS):
                got.add('%r then %r' % (v, v2) if kind2 == 'return' else 'second read raises %s' % (v2,))
        chk.decide(R, 'a reference follows the current value of the named option', got, {"'out-first' then 'out-second'"},
                   'directory = out-%%(theme)s read with theme=first, then with theme=second: %s' % sorted(got), chk.where(fn))
    except D.Imprecise as e:
        chk.undecided(R, 'a reference follows the current value of the named option', str(e), chk.where(fn))
    # a name that two sections have: the first section in the order of the configuration answers (as the wrapper's contract says)
    c5 = copy.deepcopy(cfg)
    seen_in = {}
    for sname, key, o in options_of(c5):
        seen_in.setdefault(key, []).append((sname, o))
    dup = sorted(k for k, v in seen_in.items() if len(v) > 1 and all(isinstance(o.attrs.get('value'), str) for _s, o in v))
    if dup:
        k0 = dup[0]
        for sname, o in seen_in[k0]:
            o.attrs['value'] = 'value-of-%s' % sname
        find_opt(c5, 'general', 'kpsewhich').attrs['value'] = '<%%(%s)s>' % k0
        try:
            outs = interp_fn(m, fn, {'self': c5.attrs['__dict']['general'], 'key': 'kpsewhich'}, cls=CS)
            got = {repr(v) if kind == 'return' and isinstance(v, str) else ('raises %s' % (v,) if kind == 'raise' else 'TOP') for kind, s, v in outs}
            chk.decide(R, 'a name that several sections have', got, {repr('<value-of-%s>' % seen_in[k0][0][0])},
                       '%%(%s)s with %s set in the sections %s reads as %s; expected the value of the first of these sections'
                       % (k0, k0, [s_ for s_, _o in seen_in[k0]], sorted(got)), chk.where(fn))
        except D.Imprecise as e:
            chk.undecided(R, 'a name that several sections have', str(e), chk.where(fn))
    # an unknown reference is an error, not silently kept
    find_opt(c2, 'general', 'theme').attrs['value'] = '%(no-such-option)s'
    try:
        outs = interp_fn(m, fn, {'self': c2.attrs['__dict']['general'], 'key': 'theme'}, cls=CS)
        got = {'raises %s' % (v,) if kind == 'raise' else 'returns %r' % (v,) for kind, s, v in outs}
        chk.decide(R, 'a reference to an unknown option', got, {'raises KeyError'}, 'a value with %%(no-such-option)s reads back as %s' % sorted(got), chk.where(fn))
    except D.Imprecise as e:
        chk.undecided(R, 'a reference to an unknown option', str(e), chk.where(fn))


# ---------------------------------------------------------------------------
FILES = {
    'one.ini': [('general', [('theme', 'one'), ('extra-templates', 'a b'), ('XML', 'yes'), ('plugins', 'p')]),
                ('files', [('Split-Level', '5'), ('no-such-option', 'x')]),
                ('counters', [('MyCounter', '3'), ('chapter', '1')]),
                ('logging', [('parser', 'DEBUG')]),
                ('nosuchsection', [('k', 'v')])],
    'two.ini': [('general', [('theme', 'two'), ('plugins', 'q')]),
                ('counters', [('chapter', '2')])],
}


def read_config(m, cfg, names):
    CMc = m.cls(CM, 'ConfigManager')
    fn = m.find_method(CMc, 'read')
    need(fn is not None, 'ConfigManager.read not found')
    c2 = copy.deepcopy(cfg)
    outs = interp_fn(m, fn, {'self': c2, 'filenames': names, '__cfg': c2}, files=FILES, cls=CMc)
    return fn, outs


def values_of(cfg, wanted):
    out = []
    for sname, key in wanted:
        out.append('%s.%s=%r' % (sname, key, find_opt(cfg, sname, key).attrs.get('value')))
    return ' '.join(out)


def r166(chk, m, cfg, opts):
    R = chk.rule('R16.6', 'reading configuration files, interpreted against a scripted parser: values replace the defaults (lists extend), '
                 'a later file overrides an earlier one and each file is applied exactly once, option names match in any case, keys of '
                 'dictionary options keep their case, unknown sections and keys are skipped, a missing file is ignored, a single file '
                 'name is accepted', 4)
    wanted = [('general', 'theme'), ('general', 'extra-templates'), ('general', 'plugins'), ('general', 'xml'), ('files', 'split-level'), ('counters', 'counters'),
              ('logging', 'logging'), ('links', 'links'), ('general', 'renderer')]
    cases = [('one file', ['one.ini'], "general.theme='one' general.extra-templates=['a', 'b'] general.plugins=['p'] general.xml=True files.split-level=5 "
              "counters.counters={'MyCounter': 3, 'chapter': 1} logging.logging={'parser': 'DEBUG'} links.links={} general.renderer='HTML5'"),
             ('two files, the later one wins', ['one.ini', 'two.ini'], "general.theme='two' general.extra-templates=['a', 'b'] general.plugins=['p', 'q'] general.xml=True files.split-level=5 "
              "counters.counters={'MyCounter': 3, 'chapter': 2} logging.logging={'parser': 'DEBUG'} links.links={} general.renderer='HTML5'"),
             ('a missing file among the names', ['missing.ini', 'two.ini'], "general.theme='two' general.extra-templates=[] general.plugins=['q'] general.xml=False files.split-level=2 "
              "counters.counters={'chapter': 2} logging.logging={} links.links={} general.renderer='HTML5'"),
             ('a single file name', 'two.ini', "general.theme='two' general.extra-templates=[] general.plugins=['q'] general.xml=False files.split-level=2 "
              "counters.counters={'chapter': 2} logging.logging={} links.links={} general.renderer='HTML5'")]
    for label, names, want in cases:
        try:
            fn, outs = read_config(m, cfg, names)
            chk.analysed(fn)
        except D.Imprecise as e:
            chk.undecided(R, 'read: ' + label, str(e), 'plasTeX/ConfigManager.py')
            continue
        got = {values_of(s.env['__cfg'], wanted) if kind == 'return' else 'raises %s' % (v,) for kind, s, v in outs}
        chk.decide(R, 'read: ' + label, got, {want}, 'after read(%r): %s; expected %s' % (names, sorted(got), want), chk.where(fn), want)


def r167(chk, m, cfg, opts):
    R = chk.rule('R16.7', 'layering of values, interpreted end to end on the configuration heap: defaults, then files, then the command '
                 'line - an option given on the command line wins over the files, one given only in a file keeps the file value, one '
                 'given nowhere keeps its default; list options accumulate, dictionary entries are overridden key by key', 1)
    CMc = m.cls(CM, 'ConfigManager')
    upd = m.find_method(CMc, 'updateFromDict')
    reg = m.find_method(CMc, 'registerArgparse')
    need(upd is not None and reg is not None, 'ConfigManager.updateFromDict / registerArgparse not found')
    chk.analysed(upd)
    chk.analysed(reg)
    try:
        # the whole configuration registers itself; the registrations feed the argparse model
        c0 = copy.deepcopy(cfg)
        outs = interp_fn(m, reg, {'self': c0, 'parser': A.Obj('argparse-parser', {})}, cls=CMc, max_iter=80)
        regs = None
        for kind, s, v in outs:
            need(kind == 'return', 'registerArgparse raises %s' % (v,))
            regs = s.env.get('__regs', [])
        need(regs and len(regs) >= len(opts), 'only %d command-line registrations for %d options' % (len(regs or []), len(opts)))
        flag = lambda sname, key, neg=False: [p for p in find_opt(cfg, sname, key).attrs['options'] if p.startswith('!') == neg][0].lstrip('!')
        argv = [(flag('general', 'theme'), ['cli']), (flag('general', 'extra-templates'), ['d']), (flag('general', 'copy-theme-extras', True), []),
                (flag('counters', 'counters'), ['chapter', '9']), (flag('files', 'log'), [])]
        data = argparse_model(regs, argv)
        fn, outs = read_config(m, cfg, ['one.ini', 'two.ini'])
        got = set()
        wanted = [('general', 'theme'), ('general', 'extra-templates'), ('general', 'xml'), ('files', 'split-level'), ('counters', 'counters'), ('general', 'renderer'),
                  ('files', 'log'), ('general', 'debug'), ('general', 'copy-theme-extras')]
        for kind, s, v in outs:
            if kind != 'return':
                got.add('read raises %s' % (v,))
                continue
            c3 = s.env['__cfg']
            for kind2, s2, v2 in interp_fn(m, upd, {'self': c3, 'data': data, '__cfg': c3}, cls=CMc, max_iter=80):
                got.add(values_of(s2.env['__cfg'], wanted) if kind2 == 'return' else 'updateFromDict raises %s' % (v2,))
        want = ("general.theme='cli' general.extra-templates=['a', 'b', 'd'] general.xml=True files.split-level=5 "
                "counters.counters={'MyCounter': 3, 'chapter': 9} general.renderer='HTML5' files.log=True general.debug=False general.copy-theme-extras=False")
        chk.decide(R, 'defaults < files < command line', got, {want}, 'after defaults, read([one.ini, two.ini]) and the command line %s: %s; expected %s'
                   % (argv, sorted(got), want), chk.where(upd), want)
    except D.Imprecise as e:
        chk.undecided(R, 'defaults < files < command line', str(e), chk.where(upd))
