"""The render recursion (Renderable.__str__) interpreted on a DOM heap against a scripted renderer and file system.

The renderer `Node.renderer` is a heap object whose methods are answered by hooks:
  textDefault(x) -> 'ESC(x)'   (the escaping hook - every piece of text must pass through it exactly once)
  outputType(x)  -> x
  find(names[, default]) -> a template function; calling it on a node gives 'R(label)', on a StaticNode 'L(inner)'
  open(name, 'w') / f.write(v) -> recorded in the scripted file system
Used by C12 (text is routed through the hook) and C13 (every child rendering is disposed of exactly once)."""
import ast
import re

from .. import absint as A
from .. import model as M
from ..report import need
from ..util import text
from . import domheap as D

REN = 'plasTeX.Renderers'


class RenderHooks(D.DomHooks):
    def __init__(self, model, cls, layouts=True):
        D.DomHooks.__init__(self, model, cls)
        self.layouts = layouts

    def call(self, interp, node, fname, args, kwargs, state):
        files = state.env.setdefault('__files', {})
        log = state.env.setdefault('__renderlog', [])
        scripted = fname in ('renderer.textDefault', 'renderer.outputType', 'renderer.find', 'renderer.newFilename')
        if isinstance(node.func, ast.Attribute) or scripted:
            if scripted:
                # reached through a value (textDefault = r.textDefault ; textDefault(x)): the renderer of the scenario
                attr = fname.split('.', 1)[1]
                recv = state.env.get('Node.renderer')
                if not (isinstance(recv, A.Obj) and recv.label == 'renderer'):
                    recv = next((v for v in state.env.values() if isinstance(v, A.Obj) and v.label == 'renderer'), None)
            else:
                attr = node.func.attr
                recv = interp.ev(node.func.value, state) if isinstance(node.func.value, (ast.Name, ast.Attribute)) else None
            if isinstance(recv, A.Obj) and recv.label == 'renderer':
                if attr == 'textDefault' and len(args) == 1:
                    x = args[0]
                    if not isinstance(x, str):
                        return A.TOP
                    log.append(('esc', D.label_of(x) if isinstance(x, A.TextObj) else str(x)))
                    return 'ESC(%s)' % str(x)
                if attr == 'outputType' and len(args) == 1:
                    return A.NONE if args[0] is None else args[0]
                if attr == 'find' and args:
                    names = args[0]
                    if not (isinstance(names, list) and all(isinstance(x, str) for x in names)):
                        return A.TOP
                    is_layout = bool(names) and all(x.endswith('-layout') or '-layout' in x for x in names)
                    if is_layout and not self.layouts:
                        return A.NONE
                    return A.Sym('func:template', truthy=True, attrs={'names': tuple(names), 'layout': is_layout})
                if attr == 'newFilename' and not args:
                    k = state.env.get('__nfiles', 0)
                    state.env['__nfiles'] = k + 1
                    ns = recv.attrs.get('newFilename').attrs.get('variables') if isinstance(recv.attrs.get('newFilename'), A.Obj) else {}
                    log.append(('name', dict(ns).get('name') if isinstance(ns, dict) else None))
                    return 'file%d.html' % k
            if isinstance(recv, A.Obj) and recv.label.startswith('file:') and attr == 'write' and len(args) == 1:
                files[recv.label[5:]] = files.get(recv.label[5:], '') + (args[0] if isinstance(args[0], str) else 'TOP')
                return A.NONE
            if isinstance(recv, A.Obj) and recv.label.startswith('file:') and attr in ('close', 'flush', '__enter__', '__exit__'):
                return A.NONE
        if fname == 'open' and len(args) >= 2 and isinstance(args[0], str):
            if 'w' not in str(args[1]):
                return A.TOP
            files.setdefault(args[0], '')
            return A.Obj('file:%s' % args[0], {})
        if fname in ('os.path.isdir', 'os.path.exists'):
            return True
        if fname in ('os.makedirs', 'os.mkdir'):
            return A.NONE
        if re.match(r'(status|log)\.\w+$', fname):
            return A.NONE
        if fname == 'StaticNode' and len(args) == 2:
            return A.Obj('static', {'__of': args[0], '__val': args[1]})
        callee = None
        if isinstance(node.func, ast.Name):
            callee = state.env.get(node.func.id)
        elif isinstance(node.func, ast.Call) and isinstance(node.func.func, ast.Attribute) and node.func.func.attr == 'find':
            callee = interp.ev(node.func, state)
        if isinstance(callee, A.Sym) and callee.label == 'func:template' and len(args) == 1:
            x = args[0]
            if isinstance(x, A.Obj) and x.label == 'static':
                log.append(('layout', D.label_of(x.attrs['__of'])))
                return 'L(%s)' % (x.attrs['__val'] if isinstance(x.attrs['__val'], str) else 'TOP')
            if isinstance(x, (A.Obj, A.TextObj)):
                log.append(('render', D.label_of(x)))
                return 'R(%s)' % D.label_of(x)
            return A.TOP
        if fname == 'type' and len(args) == 1 and isinstance(args[0], str) and not isinstance(args[0], A.TextObj):
            return str
        return D.DomHooks.call(self, interp, node, fname, args, kwargs, state)


def scene(m):
    """A section with text, a macro with a unicode equivalent, a template-rendered child, a child that makes its own file, a
    starred child with a template name, and a trailing text."""
    d = D.Dom(m)
    Node = m.cls(D.DOM, 'Node')
    lv = {k: m.class_const(Node, k) for k in ('DOCUMENT_LEVEL', 'CHAPTER_LEVEL', 'SECTION_LEVEL', 'PAR_LEVEL', 'COMMAND_LEVEL')}
    need(all(isinstance(v, int) for v in lv.values()), 'Node level constants not found')
    cfg = {'files': {'output-encoding': 'utf-8'}}

    def el(label, **kw):
        e = d.elem(label)
        e.attrs.update(str=None, filename=None, attributes={}, level=lv['COMMAND_LEVEL'], config=cfg, templateName=None)
        e.attrs.update(kw)
        return e
    t1 = d.text('t1', 'a<b&c')
    uni = el('uni', str='é<')
    em = el('em')
    sec = el('sec', filename='sec.html', level=lv['SECTION_LEVEL'])
    star = el('star', attributes={'*modifier*': '*'}, templateName='tn')
    t2 = d.text('t2', '"q"')
    for t in (t1, t2):
        t.attrs.update(str=None, level=lv['COMMAND_LEVEL'])
    parent = el('parent')
    parent.attrs['_dom_childNodes'] = [t1, uni, em, sec, star, t2]
    for c in parent.attrs['_dom_childNodes']:
        c.attrs['parentNode'] = parent
    renderer = A.Obj('renderer', {'default': A.Sym('default-renderer', truthy=True)})
    for nm in ('textDefault', 'outputType', 'find'):
        renderer.attrs[nm] = A.Sym('extfunc:renderer.%s' % nm, truthy=True)
    return d, parent, renderer, lv


def run(m, selfnode, renderer, layouts=True):
    Ren = m.cls(REN, 'Renderable')
    fn = m.find_method(Ren, '__str__')
    need(fn is not None, 'Renderable.__str__ not found')
    h = RenderHooks(m, Ren, layouts)
    it = A.Interp(model=m, scope=fn, hooks=h, max_iter=12, exc_edges=False, inline=14, heap=True, precise_exc=True, max_states=20000)
    outs = it.run_function(fn, env={'self': selfnode, 'Node.renderer': renderer})
    if it.imprecise:
        raise D.Imprecise('; '.join(sorted(set(it.imprecise))[:3]))
    if it.unknown_branches:
        raise D.Imprecise('the outcome of a test is not determined on this heap: ' + '; '.join(sorted(set(it.unknown_branches))[:3]))
    return fn, outs


def outcome(outs):
    got = set()
    for kind, s, v in outs:
        if kind == 'return':
            files = s.env.get('__files', {})
            got.add('returns %r files %s' % (v if isinstance(v, str) else repr(v), sorted(files.items())))
        else:
            got.add('raises %s' % (v,))
    return got


def render_rules(chk, m, rule_id, aspect):
    """aspect 'text': C12 wording, 'routing': C13 wording; the scenarios and the expected outputs are the same."""
    if aspect == 'text':
        R = chk.rule(rule_id, 'the render recursion interpreted on a DOM heap with a scripted renderer: every text child and every unicode '
                     'short-cut reaches the output through the escaping hook exactly once, everything else is the value of a template '
                     'function; nothing is written that did not come from one of the two', 5)
    else:
        R = chk.rule(rule_id, 'the render recursion interpreted on a DOM heap with a scripted renderer and file system: every child is '
                     'rendered exactly once, in order; the rendering of a child that makes its own file goes to that file (through the '
                     'layout when there is one) and not into the parent, every other rendering goes into the parent', 5)
    Ren = m.cls(REN, 'Renderable')
    fn = m.find_method(Ren, '__str__')
    chk.analysed(fn)

    def case(label, build, want, layouts=True):
        try:
            me, renderer = build()
            _, outs = run(m, me, renderer, layouts)
        except D.Imprecise as e:
            chk.undecided(R, label, str(e), chk.where(fn))
            return
        got = outcome(outs)
        chk.decide(R, label, got, {want}, '%s: %s; expected %s' % (label, sorted(got), want), chk.where(fn), want)

    def full():
        d, parent, renderer, lv = scene(m)
        return parent, renderer
    body = 'ESC(a<b&c)ESC(é<)R(em)R(star)ESC("q")'
    case('a node with text, macros and a child that makes its own file', full,
         'returns %r files %s' % (body, [('sec.html', 'L(R(sec))')]))
    case('the same without a layout template', full, 'returns %r files %s' % (body, [('sec.html', 'R(sec)')]), layouts=False)

    def short():
        d, parent, renderer, lv = scene(m)
        parent.attrs['str'] = 'x&y'
        return parent, renderer
    case('a macro with a unicode equivalent', short, 'returns %r files []' % 'ESC(x&y)')

    def empty():
        d, parent, renderer, lv = scene(m)
        parent.attrs.pop('_dom_childNodes')
        return parent, renderer
    case('a node without children', empty, "returns '' files []")

    def top():
        d, parent, renderer, lv = scene(m)
        Node = m.cls(D.DOM, 'Node')
        parent.attrs['nodeType'] = m.class_const(Node, 'DOCUMENT_NODE')
        kids = parent.attrs['_dom_childNodes']
        kids[2].attrs['level'] = lv['DOCUMENT_LEVEL']
        for t in (kids[0], kids[5]):
            t.attrs['level'] = lv['COMMAND_LEVEL']
        return parent, renderer
    case('the document node renders only its document-level child', top, 'returns %r files []' % 'R(em)')


# ---------------------------------------------------------------------------
class ProtocolHooks(D.DomHooks):
    """Renderer.render on a heap: the steps that matter are events (recognised by the function a call resolves to, not by the name at
    the call site); each event carries whether the renderable mix-in is in place and whether Node.renderer is set at that moment."""
    KEY = '__cls:plasTeX.DOM.Node.renderer'

    def _event(self, state, what):
        mixed = state.env.get('__mixed', 0)
        ev = state.env.get('__protocol', ())
        state.env['__protocol'] = ev + ('%s[%s%s]' % (what, 'mixed' if mixed > 0 else 'plain', ',renderer' if self.KEY in state.env else ''),)

    def should_inline(self, fname, node, info):
        if info is not None and info.name in ('mixin', 'unmix', 'cacheFilenames', 'cleanup', 'render') and getattr(node, 'name', '') == info.name:
            return False
        return A.helpers_anywhere(fname, node, info)

    def call(self, interp, node, fname, args, kwargs, state):
        if fname == 'type' and len(args) == 1 and isinstance(args[0], A.Obj) and isinstance(args[0].cls, M.ClassInfo):
            return args[0].cls
        info = interp.resolve_callee(node, state)
        if info is not None and info.cls is None and info.name in ('mixin', 'unmix'):
            state.env['__mixed'] = state.env.get('__mixed', 0) + (1 if info.name == 'mixin' else -1)
            self._event(state, '%s(%s, %s)' % (info.name, getattr(args[0], 'name', args[0]) if args else '?',
                                               getattr(args[1], 'name', args[1]) if len(args) > 1 else '?'))
            return A.NONE
        if info is not None and info.cls is not None and info.name == 'cacheFilenames':
            self._event(state, 'names')
            return A.NONE
        if info is not None and info.cls is not None and info.name == 'cleanup':
            self._event(state, 'cleanup')
            return A.NONE
        if isinstance(node.func, ast.Name):
            fv = interp.ev(node.func, state)          # (the imager classes are imported inside render under local names)
            if isinstance(fv, M.ClassInfo) and fv.module.name.startswith('plasTeX.Imagers'):
                # an imager: a scripted object (its constructor starts external programs)
                return A.Obj('imager:%s' % fv.name, {'fileExtension': '.png', 'imageAttrs': '', 'imageUnits': ''}, cls=fv)
        if fname == 'str' and len(args) == 1 and isinstance(args[0], A.Obj) and args[0].label == 'document':
            self._event(state, 'render')
            return 'rendered'
        if fname == 'the.context.persist':
            self._event(state, 'persist(%s)' % ', '.join(a if isinstance(a, str) else 'TOP' for a in args))
            return A.NONE
        if re.match(r'(status|log)\.\w+$', fname):
            return A.NONE
        if isinstance(node.func, ast.Attribute) and node.func.attr in ('close', 'verify'):
            return A.NONE if node.func.attr == 'close' else True
        return D.DomHooks.call(self, interp, node, fname, args, kwargs, state)


def protocol(m):
    """Renderer.render interpreted on a document whose configuration asks for no imagers; one entry per path:
    (outcome, events in order, Node.renderer still set at the end).  Raises D.Imprecise when the run is not determined."""
    Rend = m.cls(REN, 'Renderer')
    fn = m.find_method(Rend, 'render')
    need(fn is not None, 'Renderer.render not found')
    config = {'files': {'split-level': 2, 'filename': 'index [$id, sect$num(4)]', 'bad-chars': ': ', 'bad-chars-sub': '-'},
              'images': {'imager': 'none', 'vector-imager': 'none'}, 'general': {'renderer': 'RENDERER-KEY'}}
    ctx = A.Obj('context', {'persist': A.Sym('extfunc:the.context.persist', truthy=True)})
    document = A.Obj('document', {'config': config, 'userdata': {'jobname': 'job', 'working-dir': '/w'}, 'context': ctx})
    renderer = A.Obj('renderer', {'imager': None, 'vectorImager': None, 'files': {}, '__dict': {'section': 1}}, cls=Rend)
    h = ProtocolHooks(m, Rend)
    it = A.Interp(model=m, scope=fn, hooks=h, max_iter=6, exc_edges=False, inline=6, heap=True, precise_exc=True, max_states=20000)
    outs = it.run_function(fn, env={'self': renderer, 'document': document, 'postProcess': None})
    if it.imprecise:
        raise D.Imprecise('; '.join(sorted(set(it.imprecise))[:3]))
    if it.unknown_branches:
        raise D.Imprecise('the outcome of a test is not determined on this heap: ' + '; '.join(sorted(set(it.unknown_branches))[:3]))
    return fn, {(kind if kind != 'raise' else 'raise %s' % v, s.env.get('__protocol', ()), ProtocolHooks.KEY in s.env) for kind, s, v in outs}


def protocol_paths(m):
    """protocol(m), once per model: (render function, paths) or (render function, reason string) when the run is not determined."""
    cache = m.__dict__.setdefault('_render_protocol', {})
    if 'v' not in cache:
        try:
            cache['v'] = protocol(m)
        except D.Imprecise as e:
            cache['v'] = (m.find_method(m.cls(REN, 'Renderer'), 'render'), str(e))
    return cache['v']


def event_states(events, prefix):
    """The [..] state of every event whose name starts with prefix."""
    return tuple(e[e.rindex('['):] for e in events if e.startswith(prefix))
