"""C14 - Every internal link in the rendered output lands on an existing target.

R14.1 anchor coverage: every kind of node that can be the target of a link
(labelable kinds of the core document grammar, navigation targets, footnotes,
index entries, bibliography items) has, in the HTML5 and the XHTML renderer, a
template that emits that node's id as an id/name attribute,
R14.2 url composition, R14.3 unresolved references are not linked,
plus the shared structural rules the links depend on: footnote gathering
(R13.6), unique file names (R15.1) and unique index group ids (R18.2)."""
import ast
import re

from .. import absint as A
from .. import model as M
from .. import templates as T
from ..report import AnalysisError, need, REPO
from ..util import text, macro_classes, tex_name

# kinds rendered inside a parent's loop:  kind -> (parent template names, loop-variable id expression)
PARENT_RENDERED = {
    'item': (['itemize', 'enumerate', 'description', 'list', 'trivlist'], 'item'),
    'bibitem': (['thebibliography'], 'item'),
}
# kinds whose anchor is emitted by a layout / another template (reason each)
ELSEWHERE = {
    'footnote': ('layout', 'footnote', 'the footnote text is listed by the page layout of the file that owns it'),
    'caption': ('template', ['figure', 'table'], 'captions are rendered by the caption template; the float element carries the caption id (obj.title.id)'),
    'nestedfigurecaption': ('template', ['figure'], 'the float element carries the caption id (obj.title.id)'),
    'nestedtablecaption': ('template', ['table'], 'the float element carries the caption id (obj.title.id)'),
}


def index_templates(sub):
    idx = {}
    layouts = []
    for f in T.template_files(REPO, sub):
        jin = f.endswith(('.jinja2', '.jinja2s'))
        zpt = f.endswith(('.zpt', '.zpts', '.html', '.htm'))
        if not (jin or zpt):
            continue
        for tpl in T.split_templates(f):
            try:
                occ = T.analyse_jinja(tpl)[0] if jin else T.analyse_zpt(tpl)
            except SyntaxError:
                continue
            for n in tpl.names:
                idx.setdefault(n, []).append((tpl, occ, f))
            if 'layout' in f:
                layouts.append((tpl, occ, f))
    return idx, layouts


def id_exprs(occ, var, iters=('obj', 'obj.childNodes', 'self', 'here', 'self/childNodes')):
    """id-like attribute expressions of a template that emit `var`'s id."""
    out = []
    for o in occ:
        if isinstance(o, T.Occurrence):
            if o.ctx == 'attr-quoted' and o.detail and o.detail.split('@')[-1] in ('id', 'name'):
                # the variable that stands for the node: `obj`, or (for kinds rendered by their parent) any loop variable over obj
                names = [var]
                if var != 'obj':
                    names = [nm for nm, it in o.loopvars.items() if T.expr_text(it, o.aliases).split('|')[0] in iters] or [var]
                for e in T.alternatives(o.node, o.aliases):
                    if any(e in ('%s.id' % v, '%s.title.id' % v) for v in names):
                        out.append(e)
        else:
            if o.kind == 'attribute' and o.attr in ('id', 'name'):
                v = {'obj': 'self'}.get(var, var)
                names = [v]
                if v != 'self':
                    names = [nm for nm, it in getattr(o, 'repeats', {}).items() if it in iters] or [v]
                for alt in [x.strip() for x in o.expr.split('|')]:
                    if any(alt in ('%s/id' % nm, 'here/id' if nm == 'self' else '', '%s/title/id' % nm) for nm in names):
                        out.append(alt)
    return out


def check(chk):
    m = chk.model
    r141(chk, m)
    r142(chk, m)
    r143(chk, m)
    from . import c13, c15, c18
    c13.r136(chk, m)
    c15.generator_rules(chk, m, rule_id='R14.5')
    c18.r182_groups(chk, m)
    from . import shared
    shared.paux_rules(chk, m, 'R14.4')
    r146(chk, m)
    r147(chk, m)
    chk.decline('uniqueness of ids per file and reachability through the table of contents for concrete documents (runtime)')


def r147(chk, m):
    R = chk.rule('R14.7', 'index page references on the heap: a page reference made for an ordinary entry answers `url` (and every other '
                 'attribute) with that of the node it stands for; one made for a see / see-also entry has no url', 3)
    MOD = 'plasTeX.Base.LaTeX.Index'
    IE, ID = m.cls(MOD, 'IndexEntry'), m.cls(MOD, 'IndexDestination')
    ga = m.find_method(ID, '__getattribute__')
    init = m.find_method(ID, '__init__')
    need(init is not None, 'IndexDestination.__init__ not found')
    chk.analysed(init)

    class H(A.Hooks):
        cls = ID

        def keep(self, ev):
            return False

        def call(self, interp, node, fname, args, kwargs, state):
            if fname == 'object.__getattribute__' and len(args) == 2 and isinstance(args[0], A.Obj) and isinstance(args[1], str):
                if args[1] in args[0].attrs:
                    return A.NONE if args[0].attrs[args[1]] is None else args[0].attrs[args[1]]
                return None
            return None
    for label, kind, want in (('an ordinary entry', 'TYPE_NORMAL', "'sec.html#x'"), ('a see entry', 'TYPE_SEE', 'None'), ('a see-also entry', 'TYPE_SEEALSO', 'None')):
        h = H()
        h.should_inline = lambda fname, node, info: True
        it = A.Interp(model=m, scope=init, hooks=h, max_iter=4, exc_edges=False, inline=6, heap=True, precise_exc=True)
        it.run_init = True
        node = A.Obj('referring-node', {'url': 'sec.html#x', 'id': 'x'})
        st = A.State({'__node': node, 'IndexEntry': IE, 'IndexDestination': ID})
        try:
            dest = it.ev(ast.parse('IndexDestination(IndexEntry.%s, __node)' % kind, mode='eval').body, st)
            if ga is not None and isinstance(dest, A.Obj):
                r = it._call_obj_method(dest, '__getattribute__', ['url'], st, 0)
                val = r[0] if r is not None else A.TOP
            else:
                st.env['__dest'] = dest
                val = it.ev(ast.parse('__dest.url', mode='eval').body, st)
        except AnalysisError as e:
            chk.undecided(R, 'url of the page reference of %s' % label, str(e), chk.where(ID))
            continue
        if it.imprecise or it.unknown_branches or not (A.is_concrete(val)) or isinstance(val, A.Obj):
            chk.undecided(R, 'url of the page reference of %s' % label, 'the url is %r (%s)' % (val, '; '.join((list(it.imprecise) + list(it.unknown_branches))[:2])), chk.where(ID))
            continue
        got = {('raise %s' % st.env['__exc'],) if '__exc' in st.env else (repr(val),)}
        chk.decide(R, 'url of the page reference of %s' % label, got, {(want,)},
                   'IndexDestination(IndexEntry.%s, node).url with node.url = "sec.html#x" gives %s; expected %s - the index links to the place of the '
                   'ordinary entries and prints see-references without a link' % (kind, sorted(got), want), chk.where(ID))


def r141(chk, m):
    R = chk.rule('R14.1', 'anchor coverage: for every link-target kind of the core document grammar and each of the HTML5 and XHTML '
                 'renderers, the template that renders the kind emits that node\'s id as an id/name attribute', 40)
    SU = m.cls('plasTeX.Base.LaTeX.Sectioning', 'SectionUtils')
    DOC = m.class_const(m.cls('plasTeX.DOM', 'Node'), 'DOCUMENT_LEVEL')
    kinds = {}
    skipped = []
    for c in macro_classes(m):
        cnt = m.class_const(c, 'counter')
        link = m.class_const(c, 'linkType')
        name = tex_name(m, c)
        labelable = (isinstance(cnt, str) and cnt != '') or m.is_subclass(c, SU) or isinstance(link, str) or \
            name in ('footnote', 'index', 'bibitem', 'hypertarget', 'phantomsection', 'thmenv')
        if not labelable:
            continue
        if m.class_const(c, 'level') == DOC or c.fullname.endswith('StartSection'):
            continue          # the document always has its own file; abstract base
        core = c.module.name.startswith('plasTeX.Base.') or name in ('hypertarget', 'phantomsection', 'thmenv')
        tn = m.class_const(c, 'templateName')
        tname = tn if isinstance(tn, str) else name
        if not core:
            skipped.append('%s(%s)' % (name, c.module.name.split('.')[-1]))
            continue
        kinds.setdefault(tname, c)
    need(len(kinds) >= 18, 'only %d link-target kinds found' % len(kinds))
    for sub in ('HTML5', 'XHTML'):
        idx, layouts = index_templates(sub)
        need(len(idx) > 100, 'template index of %s is too small (%d)' % (sub, len(idx)))
        for tname, c in sorted(kinds.items()):
            key = '%s anchor for %s' % (sub, tname)
            where = chk.where(c)
            if tname == '\\' and c.fullname.endswith('eqnarray.EndRow'):
                # rows of an eqnarray are numbered and labelable; the environment is handed over as one block
                rows = idx.get('eqnarray', [])
                ok = any(id_exprs(occ, 'row') for tpl, occ, f in rows)
                chk.verdict(R, 'eqnarray-row:%s' % sub, ok,
                            '%s: labels on eqnarray rows after the first have no anchor (the eqnarray template emits only the id of '
                            'the environment): \\ref to such a row links to a missing target' % sub, where)
                continue
            if tname in PARENT_RENDERED:
                parents, var = PARENT_RENDERED[tname]
                missing = []
                for p in parents:
                    ts = idx.get(p, [])
                    if not ts:
                        continue
                    if not any(id_exprs(occ, var) for tpl, occ, f in ts):
                        missing.append(p)
                found = [p for p in parents if idx.get(p)]
                chk.verdict(R, key, bool(found) and not missing,
                            '%s: the templates %s render \\%s inside a loop but do not emit its id: \\%s\\label{x} ... \\ref{x} links to '
                            '#x, which no element carries' % (sub, missing or parents, tname, tname), where, 'via %s' % found)
                continue
            if tname in ELSEWHERE:
                how, what, why = ELSEWHERE[tname]
                if how == 'layout':
                    its = ('obj.%ss' % what, 'self/%ss' % what, 'here/%ss' % what)
                    ok = any(id_exprs(occ, what, its) for tpl, occ, f in layouts) if sub == 'HTML5' else \
                        any(id_exprs(occ, what, its) or id_exprs(occ, 'self') for tpl, occ, f in idx.get(tname, []) + layouts)
                else:
                    ok = all(any(id_exprs(occ, 'obj') for tpl, occ, f in idx.get(p, [])) for p in what)
                chk.verdict(R, key, ok, '%s: %s, but no such id is emitted' % (sub, why), where, why)
                continue
            ts = idx.get(tname, [])
            if not ts:
                chk.fail(R, key, '%s has no template for the link-target kind %s (rendered by the default template, without an anchor)' % (sub, tname), where)
                continue
            ok = any(id_exprs(occ, 'obj') for tpl, occ, f in ts)
            chk.verdict(R, key, ok,
                        '%s: the template of %s does not emit the node id as an id/name attribute: links to it (references, navigation, '
                        'table of contents) carry #<id> whenever it does not get a file of its own and then have no target'
                        % (sub, tname), '%s (%s)' % (ts[0][2].replace(REPO + '/', ''), tname), 'emits obj.id')
    chk.note('link-target kinds outside the core grammar (packages; not armed): %s' % sorted(set(skipped)))


def r142(chk, m):
    R = chk.rule('R14.2', 'url composition on a heap of nodes (abstract interpretation of Renderable.url): a node with its own file links '
                 'to that file without a fragment; any other node to the file of the nearest ancestor that has one plus #<own id>; '
                 'both with and without base-url; a restored override wins', 6)
    Rend = m.cls('plasTeX.Renderers', 'Renderable')
    fn = Rend.properties.get('url', {}).get('get')
    need(fn is not None, 'Renderable.url not found')
    chk.analysed(fn)

    class H(A.Hooks):
        cls = Rend

        def keep(self, ev):
            return False

        def call(self, interp, node, fname, args, kwargs, state):
            if fname == 'URL' and len(args) == 1 and isinstance(args[0], str):
                return args[0]
            return None

    def tree(base):
        cfg = {'document': {'base-url': base}}
        doc = A.Obj('doc', {'filename': 'index.html', 'parentNode': None, 'id': 'doc', 'config': cfg, 'urloverride': None}, cls=Rend)
        sec = A.Obj('sec', {'filename': 'sect1.html', 'parentNode': doc, 'id': 'sec1', 'config': cfg, 'urloverride': None}, cls=Rend)
        sub = A.Obj('sub', {'filename': None, 'parentNode': sec, 'id': 'sub1', 'config': cfg, 'urloverride': None}, cls=Rend)
        eq = A.Obj('eq', {'filename': None, 'parentNode': sub, 'id': 'eq:1', 'config': cfg, 'urloverride': None}, cls=Rend)
        top = A.Obj('top', {'filename': None, 'parentNode': doc, 'id': 'top1', 'config': cfg, 'urloverride': None}, cls=Rend)
        orphan = A.Obj('orphan', {'filename': None, 'parentNode': None, 'id': 'o1', 'config': cfg, 'urloverride': None}, cls=Rend)
        restored = A.Obj('restored', {'filename': None, 'parentNode': None, 'id': 'r1', 'config': cfg, 'urloverride': 'other.html#r1'}, cls=Rend)
        return dict(sec=sec, sub=sub, eq=eq, top=top, orphan=orphan, restored=restored)
    cases = [('own file', 'sec', None, 'sect1.html'), ('own file, base-url', 'sec', 'http://h/', 'http://h/sect1.html'),
             ('inside a file', 'sub', None, 'sect1.html#sub1'), ('two levels inside a file', 'eq', None, 'sect1.html#eq:1'),
             ('inside the document file', 'top', None, 'index.html#top1'), ('inside a file, base-url', 'eq', 'http://h', 'http://h/sect1.html#eq:1'),
             ('own file, base-url with a directory', 'sec', 'http://h/dir', 'http://h/dir/sect1.html'),
             ('inside a file, base-url with a directory and a slash', 'eq', 'http://h/dir/', 'http://h/dir/sect1.html#eq:1'),
             ('inside a file, base-url with a directory', 'sub', 'http://h/a/b', 'http://h/a/b/sect1.html#sub1'),
             ('own file, empty base-url', 'sec', '', 'sect1.html'),
             ('no ancestor with a file', 'orphan', None, '#o1'), ('restored from another document', 'restored', None, 'other.html#r1')]
    for label, which, base, want in cases:
        nodes = tree(base)
        it = A.Interp(model=m, scope=fn, hooks=H(), max_iter=8, exc_edges=False, inline=3, heap=True, precise_exc=True)
        H.should_inline = staticmethod(A.helpers_anywhere)
        outs = it.run_function(fn, env={'self': nodes[which]})
        got = {(kind, v if isinstance(v, str) else 'TOP') for kind, s2, v in outs}
        chk.decide(R, 'url: %s' % label, got, {('return', want)},
                   'the url of a node %s (base-url %r) is %s; expected %r' % (label, base, sorted(got), want), chk.where(fn))


def r143(chk, m):
    R = chk.rule('R14.3', 'unresolved references are not linked: HTML5 templates that emit idref.label.url do so only under a test of '
                 'the target\'s number/url', 3)
    n = 0
    for f in T.template_files(REPO, 'HTML5'):
        if not f.endswith(('.jinja2', '.jinja2s')):
            continue
        for tpl in T.split_templates(f):
            try:
                occ, st = T.analyse_jinja(tpl)
            except SyntaxError:
                continue
            for o in occ:
                alts = T.alternatives(o.node, o.aliases)
                e = T.expr_text(o.node, o.aliases)
                if any(a.endswith('idref.label.url') for a in alts) and tpl.names and tpl.names[0] in ('ref', 'eqref', 'pageref', 'cref'):
                    n += 1
                    guarded = any(pol and re.search(r'idref\.label\b.*\.(ref|url)', t) for t, pol in o.guards)
                    chk.verdict(R, '%s :: %s' % (tpl.key, e), guarded,
                                '%s links to the referenced object without testing that the reference resolved: a dangling \\ref '
                                'would link to the placeholder' % tpl.key, '%s:%d' % (f.replace(REPO + '/', ''), o.line), str(list(o.guards)))
    need(n >= 3, 'reference templates not found')


def r146(chk, m):
    """Post-processing of the finished pages keeps every link target."""
    from . import domheap as D
    R = chk.rule('R14.6', 'post-processing of a finished page (processFileContent of the HTML5 and XHTML renderers, interpreted on sample '
                 'pages): every element that carries an id or a name - also an empty anchor alone in its paragraph or table cell - is '
                 'still there afterwards, with the same id; truly empty paragraphs may go', 2)
    import html.parser as HP

    class Ids(HP.HTMLParser):
        def __init__(self):
            HP.HTMLParser.__init__(self)
            self.ids = []

        def handle_starttag(self, tag, attrs):
            for k, v in attrs:
                if k in ('id', 'name'):
                    self.ids.append('%s:%s=%s' % (tag, k, v))
        handle_startendtag = handle_starttag
    page = ('<h1 id="h">T</h1><p><a id="idx1"></a></p><p> \n </p><p><a name="t2" id="t2"></a> </p><p>text<a id="idx3"></a></p>'
            '<table><tr><td><a id="c1"></a></td><td> </td><th id="th1"></th></tr></table><p><span id="s1"></span><span id="s2"></span></p><p></p>')
    p0 = Ids()
    p0.feed(page)
    want = sorted(p0.ids)
    for mod, cname in (('plasTeX.Renderers.HTML5', 'HTML5'), ('plasTeX.Renderers.XHTML', 'XHTML')):
        cls = m.cls(mod, cname)
        fn = m.find_method(cls, 'processFileContent')
        need(fn is not None, '%s.processFileContent not found' % cname)
        chk.analysed(fn)

        class H(D.DomHooks):
            def call(self, interp, node, fname, args, kwargs, state):
                if isinstance(node.func, ast.Attribute) and node.func.attr == 'processFileContent' and len(args) == 3 and text(node.func.value) != 'self':
                    return args[2]          # the base renderer's post-processing (decided for C12): identity on a page without placeholders
                return D.DomHooks.call(self, interp, node, fname, args, kwargs, state)
        doc = A.Obj('document', {'config': {'html5': {'filters': []}, 'files': {'escape-high-chars': False}}, 'rendererdata': {'html5': {}}})
        it = A.Interp(model=m, scope=fn, hooks=H(m, cls), max_iter=8, exc_edges=False, inline=4, heap=True, precise_exc=True)
        outs = it.run_function(fn, env={'self': A.Obj('renderer', {}, cls=cls), 'document': doc, 's': page})
        key = '%s.processFileContent keeps every id' % cname
        if it.imprecise or it.unknown_branches:
            chk.undecided(R, key, '; '.join((it.imprecise + it.unknown_branches)[:2]), chk.where(fn))
            continue
        got = set()
        for kind, s2, v in outs:
            if kind != 'return' or not isinstance(v, str):
                got.add('%s %r' % (kind, v))
                continue
            p1 = Ids()
            p1.feed(v)
            missing = [x for x in want if x not in p1.ids]
            got.add('all kept' if not missing else 'lost: %s' % missing)
        chk.decide(R, key, got, {'all kept'}, 'after post-processing the sample page %s; expected every id/name kept - a link to it would have no '
                   'target' % sorted(got), chk.where(fn))
