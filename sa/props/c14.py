"""C14 - Every internal link in the rendered output lands on an existing target.

R14.1 anchor coverage: every kind of node that can be the target of a link
(labelable kinds of the core document grammar, navigation targets, footnotes,
index entries, bibliography items) has, in the HTML5 and the XHTML renderer, a
template that emits that node's id as an id/name attribute,
R14.2 url composition, R14.3 unresolved references are not linked,
plus the shared structural rules the links depend on: footnote gathering
(R13.6), unique file names (R15.1) and unique index group ids (R18.2)."""
import ast
import re

from .. import model as M
from .. import templates as T
from ..report import AnalysisError, need, REPO
from ..util import text, macro_classes, tex_name

# kinds rendered inside a parent's loop:  kind -> (parent template names, loop-variable id expression)
PARENT_RENDERED = {
    'item': (['itemize', 'enumerate', 'description', 'list', 'trivlist'], 'item'),
    'bibitem': (['thebibliography'], 'item'),
}
# kinds whose anchor is emitted by a layout / another template (reason each)
ELSEWHERE = {
    'footnote': ('layout', 'footnote', 'the footnote text is listed by the page layout of the file that owns it'),
    'caption': ('template', ['figure', 'table'], 'captions are rendered by the caption template; the float element carries the caption id (obj.title.id)'),
    'nestedfigurecaption': ('template', ['figure'], 'the float element carries the caption id (obj.title.id)'),
    'nestedtablecaption': ('template', ['table'], 'the float element carries the caption id (obj.title.id)'),
}


def index_templates(sub):
    idx = {}
    layouts = []
    for f in T.template_files(REPO, sub):
        jin = f.endswith(('.jinja2', '.jinja2s'))
        zpt = f.endswith(('.zpt', '.zpts', '.html', '.htm'))
        if not (jin or zpt):
            continue
        for tpl in T.split_templates(f):
            try:
                occ = T.analyse_jinja(tpl)[0] if jin else T.analyse_zpt(tpl)
            except SyntaxError:
                continue
            for n in tpl.names:
                idx.setdefault(n, []).append((tpl, occ, f))
            if 'layout' in f:
                layouts.append((tpl, occ, f))
    return idx, layouts


def id_exprs(occ, var):
    """id-like attribute expressions of a template that emit `var`'s id."""
    out = []
    for o in occ:
        if isinstance(o, T.Occurrence):
            if o.ctx == 'attr-quoted' and o.detail and o.detail.split('@')[-1] in ('id', 'name'):
                e = T.expr_text(o.node)
                if e in ('%s.id' % var, '%s.title.id' % var):
                    out.append(e)
        else:
            if o.kind == 'attribute' and o.attr in ('id', 'name'):
                v = {'obj': 'self'}.get(var, var)
                if o.expr in ('%s/id' % v, 'here/id' if v == 'self' else '', '%s/title/id' % v):
                    out.append(o.expr)
    return out


def check(chk):
    m = chk.model
    r141(chk, m)
    r142(chk, m)
    r143(chk, m)
    from . import c13, c15, c18
    c13.r136(chk, m)
    c15.generator_rules(chk, m, rule_id='R14.5')
    c18.r182_groups(chk, m)
    from . import shared
    shared.paux_rules(chk, m, 'R14.4')
    chk.decline('uniqueness of ids per file and reachability through the table of contents for concrete documents (runtime)')


def r141(chk, m):
    R = chk.rule('R14.1', 'anchor coverage: for every link-target kind of the core document grammar and each of the HTML5 and XHTML '
                 'renderers, the template that renders the kind emits that node\'s id as an id/name attribute', 40)
    SU = m.cls('plasTeX.Base.LaTeX.Sectioning', 'SectionUtils')
    DOC = m.class_const(m.cls('plasTeX.DOM', 'Node'), 'DOCUMENT_LEVEL')
    kinds = {}
    skipped = []
    for c in macro_classes(m):
        cnt = m.class_const(c, 'counter')
        link = m.class_const(c, 'linkType')
        name = tex_name(m, c)
        labelable = (isinstance(cnt, str) and cnt != '') or m.is_subclass(c, SU) or isinstance(link, str) or \
            name in ('footnote', 'index', 'bibitem', 'hypertarget', 'phantomsection', 'thmenv')
        if not labelable:
            continue
        if m.class_const(c, 'level') == DOC or c.fullname.endswith('StartSection'):
            continue          # the document always has its own file; abstract base
        core = c.module.name.startswith('plasTeX.Base.') or name in ('hypertarget', 'phantomsection', 'thmenv')
        tn = m.class_const(c, 'templateName')
        tname = tn if isinstance(tn, str) else name
        if not core:
            skipped.append('%s(%s)' % (name, c.module.name.split('.')[-1]))
            continue
        kinds.setdefault(tname, c)
    need(len(kinds) >= 18, 'only %d link-target kinds found' % len(kinds))
    for sub in ('HTML5', 'XHTML'):
        idx, layouts = index_templates(sub)
        need(len(idx) > 100, 'template index of %s is too small (%d)' % (sub, len(idx)))
        for tname, c in sorted(kinds.items()):
            key = '%s anchor for %s' % (sub, tname)
            where = chk.where(c)
            if tname == '\\' and c.fullname.endswith('eqnarray.EndRow'):
                # rows of an eqnarray are numbered and labelable; the environment is handed over as one block
                rows = idx.get('eqnarray', [])
                ok = any(id_exprs(occ, 'row') for tpl, occ, f in rows)
                chk.verdict(R, 'eqnarray-row:%s' % sub, ok,
                            '%s: labels on eqnarray rows after the first have no anchor (the eqnarray template emits only the id of '
                            'the environment): \\ref to such a row links to a missing target' % sub, where)
                continue
            if tname in PARENT_RENDERED:
                parents, var = PARENT_RENDERED[tname]
                missing = []
                for p in parents:
                    ts = idx.get(p, [])
                    if not ts:
                        continue
                    if not any(id_exprs(occ, var) for tpl, occ, f in ts):
                        missing.append(p)
                found = [p for p in parents if idx.get(p)]
                chk.verdict(R, key, bool(found) and not missing,
                            '%s: the templates %s render \\%s inside a loop but do not emit its id: \\%s\\label{x} ... \\ref{x} links to '
                            '#x, which no element carries' % (sub, missing or parents, tname, tname), where, 'via %s' % found)
                continue
            if tname in ELSEWHERE:
                how, what, why = ELSEWHERE[tname]
                if how == 'layout':
                    ok = any(id_exprs(occ, what) for tpl, occ, f in layouts) if sub == 'HTML5' else \
                        any(id_exprs(occ, what) or id_exprs(occ, 'self') for tpl, occ, f in idx.get(tname, []) + layouts)
                else:
                    ok = all(any(id_exprs(occ, 'obj') for tpl, occ, f in idx.get(p, [])) for p in what)
                chk.verdict(R, key, ok, '%s: %s, but no such id is emitted' % (sub, why), where, why)
                continue
            ts = idx.get(tname, [])
            if not ts:
                chk.fail(R, key, '%s has no template for the link-target kind %s (rendered by the default template, without an anchor)' % (sub, tname), where)
                continue
            ok = any(id_exprs(occ, 'obj') for tpl, occ, f in ts)
            chk.verdict(R, key, ok,
                        '%s: the template of %s does not emit the node id as an id/name attribute: links to it (references, navigation, '
                        'table of contents) carry #<id> whenever it does not get a file of its own and then have no target'
                        % (sub, tname), '%s (%s)' % (ts[0][2].replace(REPO + '/', ''), tname), 'emits obj.id')
    chk.note('link-target kinds outside the core grammar (packages; not armed): %s' % sorted(set(skipped)))


def r142(chk, m):
    R = chk.rule('R14.2', 'url composition: own-file nodes link to their file; other nodes to the file of the nearest ancestor with '
                 'a filename plus #<own id>; both with and without base-url', 3)
    fn = m.func('plasTeX.Renderers', 'Renderable.url')
    chk.analysed(fn)
    src = text(fn.node)
    own = [n for n in fn.node.body if isinstance(n, ast.If) and text(n.test) == 'self.filename']
    ok = len(own) == 1 and sorted(text(r.value) for r in ast.walk(own[0]) if isinstance(r, ast.Return)) == sorted(["URL('%s/%s' % (base, self.filename))", 'URL(self.filename)'])
    chk.verdict(R, 'own-file nodes have no fragment', ok, 'a node with its own file must link to that file without a fragment', chk.where(fn))
    loops = [n for n in M.walk_no_nested(fn.node) if isinstance(n, ast.While)]
    ok = len(loops) == 1 and text(loops[0].test).replace('(', '').replace(')', '') == 'node is not None and node.filename is None' and \
        [text(s) for s in loops[0].body] == ['node = node.parentNode']
    start = [text(n.value) for n in M.walk_no_nested(fn.node) if isinstance(n, ast.Assign) and text(n.targets[0]) == 'node']
    chk.verdict(R, 'file part is the nearest ancestor with a filename', ok and 'self.parentNode' in start,
                'the file part must be found by climbing parentNode until a filename is set (loop %s)' % [text(l.test) for l in loops], chk.where(fn))
    rets = [text(r.value) for r in fn.node.body if isinstance(r, ast.Return)] + \
        [text(r.value) for n in fn.node.body if isinstance(n, ast.If) and text(n.test) == 'base' for r in ast.walk(n) if isinstance(r, ast.Return)]
    ok = "URL('%s#%s' % (filename, self.id))" in rets and "URL('%s/%s#%s' % (base, filename, self.id))" in rets
    chk.verdict(R, 'fragment is the node id', ok, 'the fragment of a link must be the node id: %s' % rets, chk.where(fn))


def r143(chk, m):
    R = chk.rule('R14.3', 'unresolved references are not linked: HTML5 templates that emit idref.label.url do so only under a test of '
                 'the target\'s number/url', 3)
    n = 0
    for f in T.template_files(REPO, 'HTML5'):
        if not f.endswith(('.jinja2', '.jinja2s')):
            continue
        for tpl in T.split_templates(f):
            try:
                occ, st = T.analyse_jinja(tpl)
            except SyntaxError:
                continue
            for o in occ:
                e = T.expr_text(o.node)
                if e.endswith('idref.label.url') and tpl.names and tpl.names[0] in ('ref', 'eqref', 'pageref', 'cref'):
                    n += 1
                    guarded = any(pol and re.search(r'idref\.label\.(ref|url)', t) for t, pol in o.guards)
                    chk.verdict(R, '%s :: %s' % (tpl.key, e), guarded,
                                '%s links to the referenced object without testing that the reference resolved: a dangling \\ref '
                                'would link to the placeholder' % tpl.key, '%s:%d' % (f.replace(REPO + '/', ''), o.line), str(list(o.guards)))
    need(n >= 3, 'reference templates not found')
