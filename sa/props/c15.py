"""C15 - The filename generator yields unique, clean names in template order.

The generator Filenames._newFilename is interpreted on a small heap against
scripted consumers (abstract interpretation; the consumer binds variables
between two requests, as the renderer does): R15.1 the names issued for a
request sequence are exactly the ones the specification gives - never issued
twice, never a reserved name, alternatives in list order, $num advancing only
for names that were formed, word limits and forbidden characters applied to
the values of the current request only, extension added when there is none;
R15.4 the search is bounded and ends in an error, not silently."""
import ast
import re

from .. import absint as A
from .. import model as M
from ..report import AnalysisError, need
from ..util import SelfHooks, text

MOD = 'plasTeX.Filenames'


class Consumer(SelfHooks):
    """Binds the variables of the next request after every yield; stops the generator after the last one."""
    def __init__(self, model, cls, requests):
        SelfHooks.__init__(self, model, cls)
        self.requests = requests

    def lookup(self, interp, name, state):
        return None

    def keep(self, ev):
        return False

    def on_yield(self, interp, value, state):
        k = state.env.get('__served', 0) + 1
        state.env['__served'] = k
        if k >= len(self.requests):
            return A.STOP
        me = state.env['self']
        v = me.attrs.get('variables')
        if isinstance(v, dict):
            v.update(self.requests[k])
        return None


def run_generator(m, files, requests, charsub=(' /', '-'), extension='.html', invalid=None, initial=None):
    cls = m.cls(MOD, 'Filenames')
    fn = m.find_method(cls, '_newFilename')
    need(fn is not None, 'Filenames._newFilename not found')
    import copy
    me = A.Obj('filenames', {'files': copy.deepcopy(files), 'variables': dict(initial or {}), 'charsub': list(charsub) if charsub else None,
                             'invalid': dict(invalid or {}), 'extension': extension}, cls=cls)
    me.attrs['variables'].update(requests[0])
    h = Consumer(m, cls, requests)
    it = A.Interp(model=m, scope=fn, hooks=h, max_iter=130, exc_edges=False, inline=3, heap=True, precise_exc=True, max_states=60000, generators=True)
    it.max_unroll = 140
    outs = it.run_function(fn, env={'self': me, '__yields@0': []})
    need(not it.imprecise, '_newFilename: %s' % it.imprecise[:2])
    need(not it.unknown_branches, '_newFilename: test not determined: %s' % it.unknown_branches[:2])
    res = set()
    for kind, s2, v in outs:
        ys = s2.env.get('__yields@0')
        res.add((kind if kind != 'raise' else 'raise %s' % v, tuple(y if isinstance(y, str) else 'TOP' for y in ys) if isinstance(ys, list) else 'TOP'))
    return fn, res


def generator_rules(chk, m, rule_id='R15.1'):
    R = chk.rule(rule_id, 'Filenames._newFilename interpreted against scripted request sequences: the names issued are exactly those of '
                 'the specification (static names first, then the alternatives in list order; an alternative with an unbound variable '
                 'is skipped without consuming a number or leaving word limits behind; names already issued or reserved are never '
                 'issued again - compared with their extension; forbidden characters replaced after the word limit)', 9)
    scen = [
        ('static name, ids, numbered fallback, duplicates',
         ['index', ['${id}', 'sect${num.4}']], [{}, {'id': 'intro'}, {}, {'id': 'intro'}, {'id': 'a/b c'}, {'id': 'index'}, {}], {},
         ('index.html', 'intro.html', 'sect0001.html', 'sect0002.html', 'a-b-c.html', 'sect0003.html', 'sect0004.html')),
        ('reserved names are never issued', ['index', ['${id}', 'sect${num.4}']], [{}, {'id': 'logo'}, {'id': 'toc'}],
         {'invalid': {'logo.html': None, 'sect0001.html': None}}, ('index.html', 'sect0002.html', 'toc.html')),
        ('word limit, then forbidden characters', [['${title.2}', 'x${num.2}']], [{'title': 'Alpha Beta Gamma'}, {'title': 'Alpha Beta Delta'}, {'title': 'One'}], {},
         ('Alpha-Beta.html', 'x01.html', 'One.html')),
        ('an abandoned alternative leaves no word limit behind', [['${title.1}-${sub}', '${title}', 's${num.3}']], [{'title': 'Alpha Beta'}, {'title': 'Alpha Beta'}], {},
         ('Alpha-Beta.html', 's001.html')),
        ('an abandoned alternative consumes no number', [['n${num.2}-${sub}', 'p${id}', 'q${num.2}']], [{'id': 'x'}, {}, {'sub': 'y'}], {},
         ('px.html', 'q01.html', 'n02-y.html')),
        ('forbidden characters may be letters', [['${id}', 'f${num.2}']], [{'id': 'Große'}, {'id': 'a b'}], {'charsub': ('ß ', '-')},
         ('Gro-e.html', 'a-b.html')),
        ('an explicit extension is kept; several static names', ['index', 'toc.htm', ['${id}', 'f${num.2}']], [{}, {}, {'id': 'toc'}, {'id': 'toc.htm'}, {'id': 'index.html'}], {},
         ('index.html', 'toc.htm', 'toc.html', 'f01.html', 'f02.html')),
        ('a binding made for a static name does not leak into the next request',
         ['index', 'toc', ['${id}', '${title.2}', 'sect${num}']], [{}, {'id': 'intro', 'title': 'My Intro Page'}, {}, {'title': 'Other Words Here'}, {}], {},
         ('index.html', 'toc.html', 'sect1.html', 'Other-Words.html', 'sect2.html')),
        ('only static names: the last one becomes the alternative', ['one', 'two'], [{}, {}], {}, ('one.html', 'two.html')),
        ('forbidden characters are taken one by one (a caret first, a hyphen in the middle)', [['${id}', 'f${num.2}']], [{'id': 'x^y-zb'}, {'id': 'abc'}],
         {'charsub': ('^a-c', '_')}, ('x_y_zb.html', '_b_.html')),
        ('a word limit counts words, whatever separates them', [['${title.2}', 'w${num.2}']], [{'title': 'Advanced  usage\tof macros'}, {'title': ' Lead and trail '}], {},
         ('Advanced-usage.html', 'Lead-and.html')),
        ('a number that outgrows its width keeps all its digits', [['s${num.1}']], [{}] * 11, {},
         ('s1.html', 's2.html', 's3.html', 's4.html', 's5.html', 's6.html', 's7.html', 's8.html', 's9.html', 's10.html', 's11.html')),
    ]
    fn = None
    for label, files, requests, kw, want in scen:
        try:
            fn, got = run_generator(m, files, requests, **kw)
        except AnalysisError as e:
            chk.undecided(R, 'names: %s' % label, str(e), MOD)
            continue
        chk.paths += len(got)
        chk.analysed(fn)
        chk.decide(R, 'names: %s' % label, {repr(g) for g in got}, {repr(('raise GeneratorExit', want))},
                   'template %s with the requests %s issues %s; expected %s' % (files, requests, sorted(got, key=repr), list(want)), chk.where(fn))
    R4 = chk.rule(rule_id.rsplit('.', 1)[0] + '.4' if rule_id == 'R15.1' else rule_id + 'b',
                  'bounded search: when no alternative can produce a new name the generator gives up with an error after a bounded number '
                  'of passes instead of looping forever or ending silently', 2)
    for label, files, requests, kw in (('every variable unbound', [['${id}']], [{}], {}),
                                       ('the only candidate is already issued', ['index', ['${id}']], [{}, {'id': 'index'}], {})):
        try:
            fn, got = run_generator(m, files, requests, **kw)
        except AnalysisError as e:
            chk.undecided(R4, 'search: %s' % label, str(e), MOD)
            continue
        want = ('raise ValueError', tuple(['index.html'] if len(requests) > 1 else []))
        chk.decide(R4, 'search: %s' % label, {repr(g) for g in got}, {repr(want)},
                   'template %s with the requests %s ends with %s; expected a ValueError after the bounded search' % (files, requests, sorted(got, key=repr)), chk.where(fn))


def parse_rules(chk, m):
    R = chk.rule('R15.7', 'parseFilenames and addExtension on concrete strings: "index [$id, sect$num(4)]" gives the static name and '
                 'the alternatives in the order written, $name(n) becomes ${name.n}; an extension is added exactly when the name has none', 5)
    cls = m.cls(MOD, 'Filenames')
    fn = m.find_method(cls, 'addExtension')
    need(fn is not None, 'Filenames.addExtension not found')
    chk.analysed(fn)
    for name, want in (('index', 'index.html'), ('toc.htm', 'toc.htm'), ('a.b/c', 'a.b/c.html'), ('', '.html')):
        h = SelfHooks(m, cls)
        h.keep = lambda ev: False
        h.lookup = lambda interp, nm, state: None
        it = A.Interp(model=m, scope=fn, hooks=h, max_iter=2, exc_edges=False, heap=True, precise_exc=True)
        outs = it.run_function(fn, env={'self': A.Obj('f', {'extension': '.html'}, cls=cls), 'filename': name})
        got = {(kind, v if isinstance(v, str) else 'TOP') for kind, s2, v in outs}
        chk.decide(R, 'addExtension(%r)' % name, got, {('return', want)}, 'addExtension(%r) with extension .html gives %s; expected %r' % (name, sorted(got), want), chk.where(fn))
    pf = m.find_method(cls, 'parseFilenames')
    need(pf is not None, 'Filenames.parseFilenames not found')
    chk.analysed(pf)
    for spec, want in (('index [$id, sect$num(4)]', ['index', ['${id}', 'sect${num.4}']]), ('$title(2) toc', ['${title.2}', 'toc']),
                       ('[${id}, f${num.3}]', [['${id}', 'f${num.3}']])):
        h = SelfHooks(m, cls)
        h.keep = lambda ev: False
        h.lookup = lambda interp, nm, state: None
        h.should_inline = A.helpers_anywhere
        it = A.Interp(model=m, scope=pf, hooks=h, max_iter=80, exc_edges=False, heap=True, precise_exc=True, inline=5)
        it.max_unroll = 90
        try:
            outs = it.run_function(pf, env={'self': A.Obj('f', {}, cls=cls), 'spec': spec})
        except AnalysisError as e:
            chk.undecided(R, 'parseFilenames(%r)' % spec, str(e), chk.where(pf))
            continue
        got = {(kind, repr(v) if A._plain(v) else 'TOP') for kind, s2, v in outs}
        chk.decide(R, 'parseFilenames(%r)' % spec, got, {('return', repr(want))},
                   'parseFilenames(%r) gives %s; expected %r' % (spec, sorted(got), want), chk.where(pf))


def check(chk):
    m = chk.model
    generator_rules(chk, m)
    parse_rules(chk, m)
    chk.decline('the exact sequence of names for every template and every sequence of bindings (the scenarios above are a finite '
                'cover of the mechanisms named by the property)')
