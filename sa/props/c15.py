"""C15 - The filename generator yields unique, clean names in template order.

Every rule is applied to both phases (static names, wildcard alternatives) of
Filenames._newFilename: R15.1 freshness guard, R15.2 sanitise before
substitute, R15.3 numbering and namespace reset, R15.4 bounded search,
R15.5 limit words before replacing characters, R15.6 no pop from an empty
word list."""
import ast
import re

from .. import absint as A
from .. import model as M
from ..report import AnalysisError, need
from ..util import SelfHooks, text

MOD = 'plasTeX.Filenames'


def check(chk):
    m = chk.model
    fn = m.func(MOD, 'Filenames._newFilename')
    chk.analysed(fn)
    phases = find_phases(fn)
    for name, loop in phases:
        phase_rules(chk, m, fn, name, loop)
    r154(chk, m, fn, phases)
    r15x(chk, m)
    chk.decline('the exact sequence of names for a concrete template and sequence of bindings (runtime)')


def find_phases(fn):
    loops = sorted((n for n in M.walk_no_nested(fn.node) if isinstance(n, ast.For) and text(n.iter) in ('static', 'wildcard')),
                   key=lambda n: n.lineno)
    need(len(loops) == 2 and [text(l.iter) for l in loops] == ['static', 'wildcard'],
         '_newFilename: the static phase must precede the wildcard phase (found loops over %s)' % [text(l.iter) for l in loops])
    return [('static', loops[0]), ('wildcard', loops[1])]


class FHooks(SelfHooks):
    def __init__(self, model, cls, keys):
        SelfHooks.__init__(self, model, cls)
        self.keys = keys

    def call(self, interp, node, fname, args, kwargs, state):
        if fname == 'keysre.findall':
            return list(self.keys)
        if fname == 'self.variables.copy':
            return A.Sym('NS', truthy=True)
        if fname.endswith('.substitute'):
            state.env['__subst'] = True
            return A.Sym('SUBST', truthy=True)
        if fname == 'self.addExtension' and args:
            return A.Sym('EXT(%s)' % (args[0].label if isinstance(args[0], A.Sym) else args[0]), truthy=True)
        return None

    def decide(self, interp, test, state):
        t = text(test)
        if t == 'self.charsub':
            return True
        if t in ("'num' in currentns",):
            return any(k == 'num' for k, f in self.keys)
        if re.fullmatch(r"format and key in currentns", t):
            return None
        return None

    def keep(self, ev):
        return ev[0] in ('call', 'aug', 'assume', 'except', 'yield', 'setitem', 'continue')


def phase_rules(chk, m, fn, name, loop):
    cls = m.cls(MOD, 'Filenames')
    R1 = chk.rule('R15.1', 'freshness guard: a name is yielded only after the extension was added, under `result not in self.invalid`, '
                  'and after being recorded in self.invalid', 2) if 'R15.1' not in chk.rules else 'R15.1'
    R3 = chk.rule('R15.3', 'numbering and reset: $num advances exactly when a candidate containing it was formed (not when the '
                  'alternative is abandoned for an unbound variable); the namespace is reset after every formed name', 2) if 'R15.3' not in chk.rules else 'R15.3'
    R5 = chk.rule('R15.5', 'the namespace is a copy of the variables; words are limited before forbidden characters are replaced; '
                  'characters are replaced before substitution; no pop(0) from a possibly empty word list', 4) if 'R15.5' not in chk.rules else 'R15.5'
    results = []
    for label, keys in (('$num(3)', [('num', '3')]), ('$title(2)', [('title', '2')]), ('$id', [('id', '')])):
        it = A.Interp(model=m, scope=fn, hooks=FHooks(m, cls, keys), max_iter=2, exc_edges=True)
        env = {text(loop.target): A.Sym('ITEM', truthy=True), 'num': A.Sym('NUM'), 'g': A.Sym('G'), 'passes': 1}
        outs = it.block(loop.body, [A.State(env)])
        for kind in ('fall', 'continue', 'break', 'return', 'raise'):
            for s, v in outs.get(kind, []):
                results.append((label, keys, kind, s))
    chk.paths += len(results)
    need(results, 'phase %s has no paths' % name)
    bad1, bad3 = [], []
    n_yield = n_abandon = 0
    for label, keys, kind, s in results:
        tr = s.trace
        names = [e[0] + ':' + str(e[1]) for e in tr]
        idx = lambda pred: next((i for i, e in enumerate(tr) if pred(e)), None)
        i_sub = idx(lambda e: e[0] == 'call' and e[1].endswith('.substitute'))
        i_exc = idx(lambda e: e[0] == 'except')
        i_aug = idx(lambda e: e[0] == 'aug' and e[1] == 'num')
        i_yield = idx(lambda e: e[0] == 'yield')
        if i_exc is not None:
            if i_sub is not None and i_sub < i_exc:
                continue          # KeyError can only come from substitute(): infeasible
            n_abandon += 1
            if i_aug is not None:
                bad3.append('%s: $num advances although the alternative is abandoned (unbound variable)' % label)
            if i_yield is not None:
                bad1.append('%s: yields on the abandon path' % label)
            continue
        has_num = any(k == 'num' for k, f in keys)
        if i_sub is None:
            continue
        if has_num and i_aug is None:
            bad3.append('%s: a numbered candidate was formed but $num does not advance' % label)
        if not has_num and i_aug is not None:
            bad3.append('%s: $num advances for a candidate without $num' % label)
        if i_aug is not None and i_aug < i_sub:
            bad3.append('%s: $num advances before the candidate is formed' % label)
        i_clear = idx(lambda e: e[0] == 'call' and e[1] == 'self.variables.clear')
        i_upd = idx(lambda e: e[0] == 'call' and e[1] == 'self.variables.update')
        if i_clear is None or i_upd is None or not (i_sub < i_clear < i_upd):
            bad3.append('%s: namespace not reset (clear, update(initial)) after the name was formed' % label)
        i_ext = idx(lambda e: e[0] == 'call' and e[1] == 'self.addExtension')
        i_test = idx(lambda e: e[0] == 'assume' and e[1].replace(' ', '') in ('resultnotinself.invalid', 'resultinself.invalid'))
        i_rec = idx(lambda e: e[0] == 'setitem' and e[1] == 'self.invalid')
        if i_yield is not None:
            n_yield += 1
            y = tr[i_yield][1]
            if not (isinstance(y, A.Sym) and y.label.startswith('EXT(')):
                bad1.append('%s: yields %r, not the name with its extension' % (label, y))
            if i_ext is None or i_test is None or not (i_ext < i_test):
                bad1.append('%s: the "already issued" test is not made on the name with its extension' % label)
            elif (tr[i_test][1].replace(' ', '') == 'resultnotinself.invalid') != tr[i_test][2]:
                bad1.append('%s: yields although the name is already issued' % label)
            if i_rec is None or not (i_rec < i_yield) or (i_ext is not None and i_rec < i_ext):
                bad1.append('%s: the name is not recorded (with its extension) before it is yielded' % label)
    chk.verdict(R1, 'phase %s: freshness guard' % name, not bad1 and n_yield >= 3, '; '.join(sorted(set(bad1))) or 'no yielding path found',
                chk.where(fn, loop), '%d yielding paths' % n_yield)
    chk.verdict(R3, 'phase %s: numbering and namespace reset' % name, not bad3 and n_abandon >= 1,
                '; '.join(sorted(set(bad3))) or 'no abandon path found', chk.where(fn, loop), '%d abandon paths' % n_abandon)
    # R15.5 / R15.2 statement order inside the phase body
    body = loop.body
    i_copy = next((i for i, st in enumerate(body) if isinstance(st, ast.Assign) and text(st.targets[0]) == 'currentns'), None)
    ok_copy = i_copy is not None and text(body[i_copy].value) == 'self.variables.copy()'
    fors = [(i, st) for i, st in enumerate(body) if isinstance(st, ast.For)]
    i_lim = next((i for i, st in fors if 'keysre.findall' in text(st.iter) and re.search(r'\.split\(\)', text(st))), None)
    i_rep = next((i for i, st in fors if 'currentns.items()' in text(st.iter) and '.replace(' in text(st)), None)
    i_try = next((i for i, st in enumerate(body) if isinstance(st, ast.Try)), None)
    ok = ok_copy and None not in (i_lim, i_rep, i_try) and i_copy < i_lim < i_rep < i_try
    chk.verdict(R5, 'phase %s: copy, limit words, replace characters, substitute' % name, ok,
                'phase %s: statement order (copy=%s, word limit=%s, character replacement=%s, substitution=%s): the word limit must '
                'see the raw value (the blank is a forbidden character) and substitution the cleaned one' % (name, i_copy, i_lim, i_rep, i_try),
                chk.where(fn, loop))
    pops = [c for c in ast.walk(loop) if isinstance(c, ast.Call) and isinstance(c.func, ast.Attribute) and c.func.attr == 'pop'
            and text(c.func.value) in ('value', 'words')]
    okp = True
    for c in pops:
        from .c06 import guard_chain
        from .c07 import parent_stmt
        g = guard_chain(fn.node, parent_stmt(fn.node, c))
        okp = okp and any(re.fullmatch(r'value|words|len\((value|words)\)( > 0)?', x) for x in g)
    chk.verdict(R5, 'phase %s: word limit never pops from an empty list' % name, okp,
                'the word-limit loop pops from a list that may be empty (blank or empty value): IndexError instead of a name', chk.where(fn, loop),
                'slicing' if not pops else 'guarded pops')


def r154(chk, m, fn, phases):
    R = chk.rule('R15.4', 'bounded search: the only unbounded loop counts its passes, gives up when no alternative produced a name '
                 'and the count exceeds a constant, and the function then raises instead of ending silently', 3)
    whiles = [n for n in M.walk_no_nested(fn.node) if isinstance(n, ast.While)]
    inf = [w for w in whiles if isinstance(w.test, ast.Constant) and w.test.value]
    need(len(inf) == 1, '_newFilename: expected exactly one unbounded loop')
    w = inf[0]
    incs = [st for st in w.body if isinstance(st, ast.AugAssign) and isinstance(st.op, ast.Add) and text(st.value) == '1']
    chk.verdict(R, 'pass counter increases every iteration', len(incs) == 1, 'no unconditional pass counter in the search loop', chk.where(fn, w))
    cname = text(incs[0].target) if incs else '?'
    wl = phases[1][1]
    ok = wl in w.body and wl.orelse and any(isinstance(x, ast.If) and re.fullmatch(r'%s > \d+' % cname, text(x.test)) and any(isinstance(y, ast.Break) for y in x.body) for x in wl.orelse)
    chk.verdict(R, 'give-up exit when no alternative produced a name', bool(ok),
                'the wildcard loop needs an else arm that leaves the search when the pass count exceeds a constant', chk.where(fn, wl))
    last = fn.node.body[-1]
    chk.verdict(R, 'the generator reports an error instead of ending', isinstance(last, ast.Raise) and 'ValueError' in text(last.exc),
                'after the search loop the function must raise (last statement: %s)' % text(last)[:60], chk.where(fn, last))


def r15x(chk, m):
    R = chk.rule('R15.7', 'extension rule: added exactly when the name has none; $num is formatted with the requested width; '
                 'alternatives are tried in list order', 3)
    fn = m.func(MOD, 'Filenames.addExtension')
    chk.analysed(fn)
    src = text(fn.node)
    ok = 'os.path.splitext(filename)[-1]' in src and re.search(r'if not ext: return filename \+ self\.extension', src.replace('\n', ' ')) is not None \
        and src.rstrip().endswith('return filename')
    chk.verdict(R, 'addExtension', ok, 'addExtension must append self.extension iff splitext() finds none', chk.where(fn))
    nf = m.func(MOD, 'Filenames._newFilename')
    fm = [text(n.value) for n in M.walk_no_nested(nf.node) if isinstance(n, ast.Assign) and text(n.targets[0]) == "currentns['num']"]
    chk.verdict(R, '$num formatting', len(fm) == 2 and all(f.replace(' ', '') == "'%%.%sd'%format%num" for f in fm),
                "$num must be formatted as ('%%.%sd' % format) % num in both phases: " + str(fm), chk.where(nf))
    its = [text(n.iter) for n in sorted(M.walk_no_nested(nf.node), key=lambda n: getattr(n, 'lineno', 0))
           if isinstance(n, ast.For) and text(n.iter) in ('static', 'wildcard', 'reversed(wildcard)', 'sorted(wildcard)')]
    chk.verdict(R, 'alternatives tried in list order', its == ['static', 'wildcard'], 'phases iterate over %s' % its, chk.where(nf))
