"""A small heap model of the plasTeX DOM for abstract interpretation of the tree editing methods.

Element / fragment nodes are A.Obj (class Node of plasTeX.DOM), text nodes are A.TextObj (real strings with mutable
attributes, as in plasTeX where text nodes are str subclasses).  Structural equality of nodes (Node.__eq__) is modelled
by the '__eqkey' attribute: two distinct objects with the same key compare equal."""
import ast

from .. import absint as A
from .. import model as M
from ..report import AnalysisError
from ..util import SelfHooks, text

DOM = 'plasTeX.DOM'
ELEMENT, TEXT, FRAGMENT = 1, 3, 11


class Dom:
    def __init__(self, m):
        self.m = m
        self.Node = m.cls(DOM, 'Node')
        self.n = 0
        self.doc = A.Obj('document', {})

    def elem(self, label, children=None, eq=None, parent=None, attributes=None, childlist=True):
        o = A.Obj(label, {'nodeType': ELEMENT, 'nodeName': label, 'parentNode': parent, 'ownerDocument': self.doc,
                          'attributes': attributes, '__eqkey': eq or label, 'isElementContentWhitespace': False}, cls=self.Node)
        if childlist:
            o.attrs['_dom_childNodes'] = []
            for c in children or []:
                o.attrs['_dom_childNodes'].append(c)
                c.attrs['parentNode'] = o
        return o

    def frag(self, label, children=None, parent=None):
        o = A.Obj(label, {'nodeType': FRAGMENT, 'nodeName': '#document-fragment', 'parentNode': parent, 'ownerDocument': self.doc,
                          'attributes': None, '_dom_childNodes': [], '__eqkey': label}, cls=self.Node)
        for c in children or []:
            o.attrs['_dom_childNodes'].append(c)
            c.attrs['parentNode'] = parent
        return o

    def text(self, label, value, eq=None, parent=None):
        return A.TextObj(value, label=label, nodeType=TEXT, TEXT_NODE=TEXT, ELEMENT_NODE=ELEMENT, DOCUMENT_FRAGMENT_NODE=FRAGMENT,
                         nodeName='#text', parentNode=parent, ownerDocument=self.doc, __eqkey=eq or ('text', value), attributes=None,
                         isElementContentWhitespace=not value.strip())


def label_of(x):
    if isinstance(x, A.Obj):
        return x.label
    if isinstance(x, A.TextObj):
        return x.attrs.get('label') or ('text:%s' % str(x))
    return repr(x)


class NodeClass:
    """stands for type(node)"""


class DomHooks(SelfHooks):
    """type()/isinstance()/hasattr() over heap nodes; createTextNode builds a text node; type(node)() builds an empty node."""

    def __init__(self, model, cls):
        SelfHooks.__init__(self, model, cls)
        self.Node = model.cls(DOM, 'Node')

    def lookup(self, interp, name, state):
        return None

    def absent_attr(self, obj, name):
        # the child list of a node exists once the childNodes getter (or the scenario) has made it - as hasattr() below says
        return name == '_dom_childNodes'

    def keep(self, ev):
        return False

    def call(self, interp, node, fname, args, kwargs, state):
        if fname == 'type' and len(args) == 1:
            if isinstance(args[0], (A.Obj, A.TextObj)):
                return NodeClass          # a class object that is not `str` (plasTeX text nodes are Text, a str subclass)
            if isinstance(args[0], str):
                return str
        if isinstance(node.func, ast.Attribute) and node.func.attr == 'cloneNode' and isinstance(node.func.value, (ast.Name, ast.Attribute, ast.Subscript)):
            recv = interp.ev(node.func.value, state)
            if isinstance(recv, A.TextObj):
                # CharacterData.cloneNode: a new text node with the same characters, parent and document (the class is a str subclass
                # of the library, its two-line clone is summarised here)
                k = state.env.get('__new', 0)
                state.env['__new'] = k + 1
                return A.TextObj(str(recv), label='clone-of-%s' % label_of(recv), nodeType=TEXT, TEXT_NODE=TEXT, ELEMENT_NODE=ELEMENT, DOCUMENT_FRAGMENT_NODE=FRAGMENT,
                                 nodeName='#text', parentNode=recv.attrs.get('parentNode'), ownerDocument=recv.attrs.get('ownerDocument'),
                                 __eqkey=recv.attrs.get('__eqkey'), attributes=None, isElementContentWhitespace=not str(recv).strip())
        if isinstance(node.func, ast.Call) and M.call_name(node.func) == 'type' and len(args) == 1 and not kwargs and node.func.args:
            # type(text)(string)  -> a new text node of the same kind holding that string
            src = interp.ev(node.func.args[0], state)
            if isinstance(src, A.TextObj) and isinstance(args[0], str):
                k = state.env.get('__new', 0)
                state.env['__new'] = k + 1
                return A.TextObj(str(args[0]), label='new-text%d' % k, nodeType=TEXT, TEXT_NODE=TEXT, ELEMENT_NODE=ELEMENT, DOCUMENT_FRAGMENT_NODE=FRAGMENT,
                                 nodeName='#text', parentNode=None, ownerDocument=None, __eqkey=('text', str(args[0])), attributes=None,
                                 isElementContentWhitespace=not str(args[0]).strip())
        if isinstance(node.func, ast.Call) and M.call_name(node.func) == 'type' and not args:
            # type(self)()  -> an empty node of the same kind
            src = interp.ev(node.func.args[0], state) if node.func.args else None
            k = state.env.get('__new', 0)
            state.env['__new'] = k + 1
            nt = src.attrs.get('nodeType', ELEMENT) if isinstance(src, A.Obj) else ELEMENT
            o = A.Obj('new%d' % k, {'nodeType': nt, 'nodeName': None, 'parentNode': None, 'ownerDocument': None,
                                    'attributes': ({} if isinstance(src, A.Obj) and isinstance(src.attrs.get('attributes'), dict) else None),
                                    '_dom_childNodes': [], '__eqkey': ('new', k)}, cls=self.Node)
            return o
        if fname.endswith('.createElement') and len(args) == 1 and isinstance(args[0], str):
            k = state.env.get('__new', 0)
            state.env['__new'] = k + 1
            lv = state.env.get('__levels', {})
            owner = interp.ev(node.func.value, state) if isinstance(node.func, ast.Attribute) else None
            return A.Obj('new-%s%d' % (args[0], k), {'nodeType': ELEMENT, 'nodeName': args[0], 'parentNode': None,
                                                 'ownerDocument': owner if isinstance(owner, A.Obj) else None, 'isElementContentWhitespace': False,
                                                 'attributes': None, '_dom_childNodes': [], '__eqkey': ('new', k), 'blockType': False,
                                                 'level': lv.get(args[0], lv.get('*', 100))}, cls=state.env.get('__elemcls', self.Node))
        if fname == 'isinstance' and len(args) == 2 and isinstance(args[0], (A.Obj, A.TextObj)) and '__isa' in args[0].attrs:
            return text(node.args[1]).split('.')[-1] in args[0].attrs['__isa']
        if fname.endswith('.createTextNode') and len(args) == 1 and isinstance(args[0], str):
            k = state.env.get('__new', 0)
            state.env['__new'] = k + 1
            owner = interp.ev(node.func.value, state) if isinstance(node.func, ast.Attribute) else None
            return A.TextObj(str(args[0]), label='newtext%d' % k, nodeType=TEXT, TEXT_NODE=TEXT, ELEMENT_NODE=ELEMENT,
                             DOCUMENT_FRAGMENT_NODE=FRAGMENT, nodeName='#text', parentNode=None,
                             ownerDocument=owner if isinstance(owner, A.Obj) else None, level=state.env.get('__levels', {}).get('*', 100),
                             blockType=False, isElementContentWhitespace=not str(args[0]).strip(),
                             __eqkey=('text', str(args[0])), attributes=None)
        if fname == 'isinstance' and len(args) == 2:
            t = text(node.args[1])
            if isinstance(args[0], A.TextObj):
                return t in ('str', 'Node', 'Text', 'CharacterData') or (t.startswith('(') and 'str' in t)
            if isinstance(args[0], A.Obj):
                if t in ('Node', 'DOM.Node', 'Element'):
                    return True
                if t in ('str', 'list', 'dict', 'slice', 'tuple', 'int'):
                    return False
            if isinstance(args[0], (list, dict, int, str, tuple)) and t in ('str', 'list', 'dict', 'slice', 'tuple', 'int', 'Node'):
                return {'str': isinstance(args[0], str), 'list': isinstance(args[0], list), 'dict': isinstance(args[0], dict),
                        'slice': False, 'tuple': isinstance(args[0], tuple), 'int': isinstance(args[0], int) and not isinstance(args[0], bool),
                        'Node': False}[t]
        if fname == 'hasattr' and len(args) == 2 and isinstance(args[0], (A.Obj, A.TextObj)) and isinstance(args[1], str):
            if args[1] in args[0].attrs:
                return True
            if isinstance(args[0], A.Obj) and isinstance(args[0].cls, M.ClassInfo) and args[1].isidentifier() and interp.inline_depth > 0:
                owner = self.model.find_attr_class(args[0].cls, args[1])
                if owner is not None and args[1] in owner.properties and 'get' in owner.properties[args[1]]:
                    # hasattr() on a property runs its getter (with its side effects); AttributeError means "no"
                    src = ast.Attribute(value=node.args[0], attr=args[1], ctx=ast.Load())
                    ast.copy_location(src, node)
                    had = state.env.get('__exc')
                    interp.ev(src, state)
                    if state.env.get('__exc') == 'AttributeError' and had is None:
                        state.env.pop('__exc')
                        return False
                    return True
            if isinstance(args[0], A.Obj) and isinstance(args[0].cls, M.ClassInfo) and args[1] != '_dom_childNodes' \
               and self.model.find_attr_class(args[0].cls, args[1]) is not None:
                return True
            return False
        if fname == 'getattr' and len(args) in (2, 3) and isinstance(args[0], (A.Obj, A.TextObj)) and isinstance(args[1], str):
            if args[1] in args[0].attrs:
                return A.NONE if args[0].attrs[args[1]] is None else args[0].attrs[args[1]]
            if len(args) == 3:
                return A.NONE if args[2] is None else args[2]
        if fname == 'getattr' and len(args) == 3 and isinstance(args[0], (list, dict, str, int)) and args[1] in ('nodeType', 'parentNode', 'ownerDocument'):
            return A.NONE if args[2] is None else args[2]
        if fname == 'bool' and len(args) == 1 and (args[0] is None or isinstance(args[0], (dict, list))):
            return bool(args[0])
        return None


class Imprecise(AnalysisError):
    """Effects of a call on heap objects were lost (depth limit): no verdict from this run."""


def run(m, fn, env, cls=None, inline=14, max_iter=12, filt=None):
    """Interpret `fn` on the DOM heap; returns [(kind, state, value)]."""
    h = DomHooks(m, cls or m.cls(DOM, 'Node'))
    if filt is not None:
        h.should_inline = filt
    it = A.Interp(model=m, scope=fn, hooks=h, max_iter=max_iter, exc_edges=False, inline=inline, heap=True, precise_exc=True, max_states=20000)
    outs = it.run_function(fn, env=env)
    if it.imprecise:
        raise Imprecise('; '.join(sorted(set(it.imprecise))[:3]))
    if it.unknown_branches:
        raise Imprecise('the outcome of a test is not determined on this heap: ' + '; '.join(sorted(set(it.unknown_branches))[:3]))
    return outs


def children(node):
    lst = node.attrs.get('_dom_childNodes') if isinstance(node, A.Obj) else None
    return lst if isinstance(lst, list) else None


def link_problems(parent, expect_parent=True):
    """Inconsistencies between a node's child list and the parent/owner links of the children."""
    out = []
    lst = children(parent)
    if lst is None:
        return ['child list not determined']
    seen = set()
    for c in lst:
        if not isinstance(c, (A.Obj, A.TextObj)):
            out.append('child %r is not a node' % (c,))
            continue
        if id(c) in seen:
            out.append('%s is listed twice' % label_of(c))
        seen.add(id(c))
        if expect_parent and c.attrs.get('parentNode') is not parent:
            out.append('%s.parentNode is %s' % (label_of(c), label_of(c.attrs.get('parentNode'))))
        if c.attrs.get('ownerDocument') is not parent.attrs.get('ownerDocument'):
            out.append('%s.ownerDocument is not the document of its parent' % label_of(c))
    return out


def init_attrs(m, cls):
    """Constructor summary: the attributes that the __init__ methods of `cls` and its bases set to a literal
    (self.x = {} / [] / None / a constant), as fresh values - enough to stand for a freshly constructed object
    in rules that interpret one of its methods."""
    out = {}
    for k in reversed([k for k in m.mro(cls) if isinstance(k, M.ClassInfo)]):
        init = k.methods.get('__init__')
        if init is None:
            continue
        for n in M.walk_no_nested(init.node):
            if isinstance(n, ast.Assign) and len(n.targets) == 1 and isinstance(n.targets[0], ast.Attribute) \
               and isinstance(n.targets[0].value, ast.Name) and n.targets[0].value.id == 'self':
                v = n.value
                name = n.targets[0].attr
                if isinstance(v, ast.Dict) and not v.keys:
                    out[name] = {}
                elif isinstance(v, ast.List) and not v.elts:
                    out[name] = []
                elif isinstance(v, ast.Constant):
                    out[name] = v.value
                elif isinstance(v, ast.Call) and isinstance(v.func, ast.Name) and v.func.id in ('dict', 'list') and not v.args and not v.keywords:
                    out[name] = {} if v.func.id == 'dict' else []
    return out
