"""C02 - Macro definitions expand exactly as TeX's substitution rules say.

Declined as a whole (equality with an independent TeX evaluation is a
value-level statement over token streams).  Decided: the parameter plumbing
every expansion depends on - R2.1 parameter-marker dispatch in expandDef,
R2.2 sentinel agreement of the collectors, R2.3 optional-argument accounting,
R2.4 definition scope table, R2.5 parameter-text writer/reader agreement,
R2.6 nobody edits a stored definition in place, R2.7 redefinition table."""
import ast
import re

from .. import absint as A
from .. import effects as E
from .. import model as M
from ..report import AnalysisError, need
from ..util import SelfHooks, text

CC_BGROUP, CC_EGROUP, CC_PARAMETER, CC_LETTER, CC_OTHER = 1, 2, 6, 11, 12


def check(chk):
    m = chk.model
    r21(chk, m)
    r22(chk, m)
    r23(chk, m)
    from . import c04
    c04.r43(chk, m, rule_id='R2.4')
    r25(chk, m)
    r26(chk, m)
    r27(chk, m)
    from . import shared
    shared.grouping_rules(chk, m, 'R2.8')
    c04.chain_rules(chk, m, 'R2.9')       # which definition is in force: lookup through the frames, nothing copied between them
    r210(chk, m)
    chk.decline('equality of the processed text with an independent TeX evaluation of the program (value-level over token '
                'streams; a static encoding would be an interpreter for TeX expansion)')
    chk.decline('delimited-parameter matching for concrete argument shapes; \\csname / \\expandafter reordering results')


def r210(chk, m):
    R = chk.rule('R2.10', 'the \\def primitive interpreted on scripted arguments: a definition written inside another macro body (## marks) is '
                 'registered with one level of # removed from both the parameter text and the body, a plain one is registered as written; the '
                 'name, the two token lists and the scope flag reach Context.newdef', 3)
    prim = 'plasTeX.Base.TeX.Primitives'
    Def = m.cls(prim, 'DefCommand')
    fn = m.find_method(Def, 'invoke')
    need(fn is not None, 'DefCommand.invoke not found')
    chk.analysed(fn)

    def tok(ch):
        return A.Obj('tok:%s' % ch, {'catcode': CC_PARAMETER if ch == '#' else (CC_LETTER if ch.isalpha() else CC_OTHER), 'CC_PARAMETER': CC_PARAMETER,
                                     'nodeName': ch, '__eqkey': ('tok', ch)})

    class H(SelfHooks):
        def lookup(self, interp, name, state):
            return None

        def keep(self, ev):
            return False

        def call(self, interp, node, fname, args, kwargs, state):
            if fname == 'self.parse':
                return A.NONE
            if fname == 'the.context.newdef':
                show = lambda lst: ''.join(x.attrs.get('nodeName', '?') if isinstance(x, A.Obj) else '?' for x in lst) if isinstance(lst, list) else 'TOP'
                state.env['__newdef'] = state.env.get('__newdef', ()) + ((args[0] if args and isinstance(args[0], str) else 'TOP',
                                                                          show(args[1]) if len(args) > 1 else 'TOP', show(args[2]) if len(args) > 2 else 'TOP',
                                                                          repr(kwargs.get('local', args[3] if len(args) > 3 else 'default'))),)
                return A.NONE
            if re.match(r'\w*log\.\w+$', fname):
                return A.NONE
            return None
    for label, cname, args, body, want in (
            ('written inside another macro body (##1)', 'def_', '##1', '[##1]', ('inner', '#1', '[#1]', 'True')),
            ('a plain definition (#1#2)', 'def_', '#1.#2', '#2#1', ('inner', '#1.#2', '#2#1', 'True')),
            ('a global definition inside a macro body', 'gdef', '##1##2', '##2-##1', ('inner', '#1#2', '#2-#1', 'False'))):
        c = m.cls(prim, cname)
        h = H(m, c)
        h.should_inline = A.helpers_anywhere
        it = A.Interp(model=m, scope=fn, hooks=h, max_iter=12, exc_edges=False, inline=4, heap=True, precise_exc=True)
        ctx = A.Obj('context', {'newdef': A.Sym('extfunc:the.context.newdef', truthy=True)})
        me = A.Obj('def', {'attributes': {'name': A.Obj('name', {'nodeName': 'inner'}), 'args': [tok(ch) for ch in args], 'definition': [tok(ch) for ch in body]},
                           'ownerDocument': A.Obj('document', {'context': ctx})}, cls=c)
        try:
            outs = it.run_function(fn, env={'self': me, 'tex': A.Sym('tex', truthy=True)})
        except AnalysisError as e:
            chk.undecided(R, 'DefCommand.invoke: %s' % label, str(e), chk.where(fn))
            continue
        if it.imprecise or it.unknown_branches:
            chk.undecided(R, 'DefCommand.invoke: %s' % label, '; '.join((list(it.imprecise) + list(it.unknown_branches))[:3]), chk.where(fn))
            continue
        got = {(kind, s2.env.get('__newdef', ())) for kind, s2, v in outs}
        chk.decide(R, 'DefCommand.invoke: %s' % label, got, {('return', (want,))},
                   '\\%s\\inner%s{%s} hands Context.newdef (name, parameter text, body, local) = %s; expected %s - inside a macro body ## stands for one #, '
                   'so the inner definition must be stored with single marks' % (cname.rstrip('_'), args, body, sorted(got), want), chk.where(fn))


def T(label, catcode, char=None):
    return A.Sym(label, truthy=True, attrs={'catcode': catcode, 'char': char if char is not None else label, 'distinct': True})


class DefHooks(A.Hooks):
    def __init__(self, items, ifx=False):
        self.items = items
        self.ifx = ifx

    def call(self, interp, node, fname, args, kwargs, state):
        if fname == 'int' and len(args) == 1 and isinstance(args[0], A.Sym) and str(args[0].attrs.get('char', '')).isdigit():
            return int(args[0].attrs['char'])
        return None

    def decide(self, interp, test, state):
        if isinstance(test, ast.Compare) and len(test.ops) == 1 and isinstance(test.ops[0], (ast.Eq, ast.NotEq)):
            r = interp.ev(test.comparators[0], state)
            l = interp.ev(test.left, state)
            if isinstance(r, str) and (isinstance(l, A.Sym) or l == ''):
                res = isinstance(l, A.Sym) and l.attrs.get('char') == r
                return res if isinstance(test.ops[0], ast.Eq) else not res
        return None


def labels(lst):
    return [x.label if isinstance(x, A.Sym) else (x.cls.name + repr(x.args) if isinstance(x, A.Inst) else repr(x)) for x in lst]


def r21(chk, m):
    R = chk.rule('R2.1', 'expandDef: # followed by # emits exactly one #; # followed by digit n emits the tokens of params[n] '
                 '(no offset); every other token is copied once, in order', 5)
    fn = m.func_or_none('plasTeX', 'expandDef')
    need(fn is not None, 'expandDef not found')
    chk.analysed(fn)
    H = lambda i: T('#%d' % i, CC_PARAMETER, '#')
    a1, a2, b1 = T('a1', CC_LETTER), T('a2', CC_LETTER), T('b1', CC_OTHER)
    X, Y = T('X', CC_LETTER), T('Y', CC_LETTER)
    d1, d2, d3 = T('1', CC_OTHER, '1'), T('2', CC_OTHER, '2'), T('3', CC_OTHER, '3')
    cases = [
        ('plain tokens', [X, Y], [None], ['X', 'Y']),
        ('#1 and #2', [X, H(0), d1, Y, H(1), d2], [None, [a1, a2], [b1]], ['X', 'a1', 'a2', 'Y', 'b1']),
        ('#2 before #1', [H(0), d2, H(1), d1], [None, [a1, a2], [b1]], ['b1', 'a1', 'a2']),
        ('## is one #', [X, H(0), H(1), Y], [None], ['X', '#1', 'Y']),
        ('###1', [H(0), H(1), H(2), d1], [None, [a1]], ['#1', 'a1']),
        ('same parameter twice', [H(0), d1, H(1), d1], [None, [a1]], ['a1', 'a1']),
        ('parameter beyond those collected', [X, H(0), d3, Y], [None, [a1]], ['X', 'Y']),
    ]
    for label, definition, params, want in cases:
        hk = DefHooks(definition)
        hk.should_inline = A.private_only
        it = A.Interp(model=m, scope=fn, hooks=hk, max_iter=len(definition) + 1, exc_edges=False, inline=3, heap=True, precise_exc=True)
        outs = it.run_function(fn, env={'definition': list(definition), 'params': params})
        chk.paths += len(outs)
        got = set()
        for kind, s, v in outs:
            got.add(repr(labels(v)) if isinstance(v, list) else repr(v))
        chk.decide(R, 'expandDef: %s' % label, got, {repr(want)},
                   'body %s with parameters %s expands to %s, expected %s'
                   % (labels(definition), [labels(p) if p else p for p in params], sorted(got), want), chk.where(fn))


def r22(chk, m):
    R = chk.rule('R2.2', 'Definition.invoke (abstract interpretation over a parameter text and a token stream): the list handed to '
                 'expandDef starts with one placeholder so that the n-th argument sits at index n; undelimited parameters are '
                 'read with readArgument, a delimited one takes the tokens up to its delimiter', 3)
    from .shared import TokenStreamHooks
    fn = m.func('plasTeX', 'Definition.invoke')
    chk.analysed(fn)
    Definition = m.cls('plasTeX', 'Definition')
    H = lambda i: T('#%d' % i, CC_PARAMETER, '#')
    d1, d2 = T('1', CC_OTHER, '1'), T('2', CC_OTHER, '2')
    DOT = T('.', CC_OTHER, '.')
    x, y = T('x', CC_LETTER), T('y', CC_LETTER)
    cases = [('#1#2', [H(0), d1, H(1), d2], [], "[None, ['arg0'], ['arg1']]"),
             ('#1.#2', [H(0), d1, DOT, H(1), d2], [x, y, DOT], "[None, ['x', 'y'], ['arg0']]"),
             ('.#1', [DOT, H(0), d1], [DOT], "[None, ['arg0']]")]

    class H2(TokenStreamHooks):
        def call(self, interp, node, fname, args, kwargs, state):
            if fname == 'tex.readArgument':
                k = state.env.get('__reads', 0)
                state.env['__reads'] = k + 1
                return [A.Sym('arg%d' % k)]
            if fname == 'expandDef' and len(args) == 2:
                state.env['__params'] = args[1]
                return []
            return TokenStreamHooks.call(self, interp, node, fname, args, kwargs, state)      # (the stream as a value: tex.itertokens())
    for label, pattern, stream, want in cases:
        h = H2(m, Definition, stream, stream)
        h.keep = lambda ev: False
        h.should_inline = A.private_only
        it = A.Interp(model=m, scope=fn, hooks=h, max_iter=len(pattern) + len(stream) + 2, exc_edges=False, inline=3, heap=True, precise_exc=True)
        outs = it.run_function(fn, env={'self': A.Obj('definition', {'args': list(pattern), 'definition': [x]}, cls=Definition),
                                        'tex': A.Obj('tex', {'readArgument': A.Sym('extfunc:tex.readArgument', truthy=True), 'itertokens': A.Sym('extfunc:tex.itertokens', truthy=True)})})
        chk.paths += len(outs)
        got = set()
        for kind, s2, v in outs:
            if kind != 'return':
                continue
            p = s2.env.get('__params')
            got.add(repr([labels(e) if isinstance(e, list) else e for e in p]) if isinstance(p, list) else 'TOP')
        chk.decide(R, 'Definition.invoke: parameter text %s' % label, got, {want},
                   'with the parameter text %s and the input %s the list handed to expandDef is %s, expected %s'
                   % (label, labels(stream), sorted(got), want), chk.where(fn))


class NCHooks(SelfHooks):
    def call(self, interp, node, fname, args, kwargs, state):
        if fname == 'tex.readArgument':
            k = state.env.get('__reads', ())
            spec = args[0] if args else kwargs.get('spec')
            state.env['__reads'] = k + ((spec, 'default' in kwargs and kwargs['default'] is not None or 'default' in kwargs, kwargs.get('name')),)
            return [A.Sym('arg%d' % len(k))]
        if fname == 'expandDef':
            state.env['__params'] = list(args[1]) if isinstance(args[1], list) else args[1]
            return []
        return None


def r23(chk, m, rule_id='R2.3'):
    R = chk.rule(rule_id, 'NewCommand.invoke reads exactly nargs arguments: with an optional-argument default (even an empty one) '
                 'the first is read with the [] delimiters and that default, the remaining nargs-1 are mandatory; without one all '
                 'nargs are mandatory; #n is the n-th read', 3)
    fn = m.func('plasTeX', 'NewCommand.invoke')
    chk.analysed(fn)
    NewCommand = m.cls('plasTeX', 'NewCommand')
    Macro = m.cls('plasTeX', 'Macro')
    for label, opt in (('no optional argument', None), ('empty default', []), ('non-empty default', [T('d', CC_LETTER)])):
        h = NCHooks(m, NewCommand)
        h.should_inline = A.private_only
        it = A.Interp(model=m, scope=fn, hooks=h, max_iter=6, exc_edges=False, inline=3, heap=True, precise_exc=True)
        # `tex` is a scripted object: its readArgument is answered by the hooks however the call is spelled (directly, through a list
        # of readers, through functools.partial)
        tex = A.Obj('tex', {'readArgument': A.Sym('extfunc:tex.readArgument', truthy=True), 'itertokens': A.Sym('extfunc:tex.itertokens', truthy=True)})
        try:
            me = A.Obj('newcommand', {'opt': opt, 'nargs': 3, 'macroMode': m.class_const(Macro, 'MODE_NONE'), 'definition': []}, cls=NewCommand)
            outs = it.run_function(fn, env={'self': me, 'tex': tex})
        except AnalysisError as e:
            chk.undecided(R, 'NewCommand.invoke: %s' % label, '%s (%s)' % (e, '; '.join(sorted(set(list(it.imprecise) + list(it.unknown_branches)))[:4])), chk.where(fn))
            continue
        chk.paths += len(outs)
        res = set()
        for kind, s, v in outs:
            reads = s.env.get('__reads', ())
            params = s.env.get('__params')
            shape = -1
            if isinstance(params, list):
                shape = len(params)
                if params[:1] != [None] or [labels(p) if isinstance(p, list) else p for p in params[1:]] != [['arg%d' % i] for i in range(len(params) - 1)]:
                    shape = 'wrong order/placeholder: %s' % ([labels(p) if isinstance(p, list) else p for p in params],)
            res.add((tuple((r[0], bool(r[1]), r[2]) for r in reads), shape))
        if opt is None:
            want = {((('None', False, '#1'), ('None', False, '#2'), ('None', False, '#3')), 4)}
        else:
            want = {((('[]', True, '#1'), ('None', False, '#2'), ('None', False, '#3')), 4)}
        got = {(tuple((str(a), b, c) for a, b, c in r), n) for r, n in res}
        if it.imprecise or it.unknown_branches:
            chk.undecided(R, 'NewCommand.invoke: %s' % label, '; '.join(sorted(set(list(it.imprecise) + list(it.unknown_branches)))[:3]), chk.where(fn))
            continue
        chk.decide(R, 'NewCommand.invoke: %s' % label, {repr(g) for g in got}, {repr(w) for w in want},
                   'with nargs=3 and %s the reads (delimiters, default given, name) and the length of the parameter list are %s; '
                   'expected %s' % (label, sorted(got), sorted(want)), chk.where(fn), str(sorted(got)))


def r25(chk, m):
    R = chk.rule('R2.5', 'parameter-text writer and reader together: the text that the writer (the Args branch of readArgumentAndSource) '
                 'stores for "#1#{" is handed to the reader (Definition.invoke) with the input xyz{b}: #1 must be everything up to the brace', 1)
    ras = m.func('plasTeX.TeX', 'TeX.readArgumentAndSource')
    chk.analysed(ras)
    from .shared import TokenStreamHooks
    TeX = m.cls('plasTeX.TeX', 'TeX')
    stored = set()
    undetermined = []
    for cc in range(16):
        t = A.Sym('TOK', truthy=True, attrs={'catcode': cc, 'char': 'x', 'distinct': True})
        stop = A.Sym('BRACE', truthy=True, attrs={'catcode': CC_BGROUP, 'char': '{', 'distinct': True})
        h = TokenStreamHooks(m, TeX, [t, stop], [t, stop])
        h.keep = lambda ev: False
        h.should_inline = A.private_only
        it = A.Interp(model=m, scope=ras, hooks=h, max_iter=3, exc_edges=False, inline=2)
        env = {a.arg: None for a in ras.node.args.args[1:] + ras.node.args.kwonlyargs}
        env.update({'type': 'Args', 'delim': ',', 'expanded': False, 'stripLeadingWhitespace': True, 'charsubs': []})
        outs = it.run_function(ras, env=env)
        chk.paths += len(outs)
        res = set()
        for kind, s2, v in outs:
            if kind != 'return':
                continue
            if isinstance(v, tuple) and v and isinstance(v[0], list):
                res.add(t in v[0])
            else:
                res.add(None)
        if res == {True}:
            stored.add(cc)
        elif res != {False}:
            undetermined.append((cc, sorted(map(repr, res))))
    need(not undetermined, "readArgumentAndSource(type='Args'): what is stored for a token is not determined: %s" % undetermined[:4])
    need(len(stored) >= 10, "the 'Args' writer stores only %s" % sorted(stored))
    # reader and writer together: what the writer stores for the parameter text  #1#{  and what the reader does with it
    inv = m.func('plasTeX', 'Definition.invoke')
    chk.analysed(inv)
    Definition = m.cls('plasTeX', 'Definition')
    H1, D1, H2_, BR = T('#a', CC_PARAMETER, '#'), T('1', CC_OTHER, '1'), T('#b', CC_PARAMETER, '#'), T('{', CC_BGROUP, '{')
    h = TokenStreamHooks(m, TeX, [H1, D1, H2_, BR], [H1, D1, H2_, BR])
    h.keep = lambda ev: False
    h.should_inline = A.private_only
    it = A.Interp(model=m, scope=ras, hooks=h, max_iter=6, exc_edges=False, inline=2)
    env = {a.arg: None for a in ras.node.args.args[1:] + ras.node.args.kwonlyargs}
    env.update({'type': 'Args', 'delim': ',', 'expanded': False, 'stripLeadingWhitespace': True, 'charsubs': []})
    texts = set()
    for kind, s2, v in it.run_function(ras, env=env):
        if kind == 'return':
            texts.add(tuple(labels(v[0])) if isinstance(v, tuple) and v and isinstance(v[0], list) and all(isinstance(x, A.Sym) for x in v[0]) else None)
    if len(texts) != 1 or None in texts:
        chk.undecided(R, 'hashbrace', 'what the writer stores for the parameter text #1#{ is not determined: %s' % sorted(map(repr, texts)), chk.where(ras))
        return
    stored_text = [t for lab in texts.pop() for t in (H1, D1, H2_, BR) if t.label == lab]
    x, y, z, b_ = T('x', CC_LETTER), T('y', CC_LETTER), T('z', CC_LETTER), T('b', CC_LETTER)
    stream = [x, y, z, T('{', CC_BGROUP, '{'), b_]

    class RH(TokenStreamHooks):
        def call(self, interp, node, fname, args, kwargs, state):
            if fname == 'tex.readArgument':
                k = state.env.get('__reads', 0)
                state.env['__reads'] = k + 1
                return [A.Sym('arg%d' % k)]
            if fname == 'expandDef' and len(args) == 2:
                state.env['__params'] = args[1]
                return []
            return TokenStreamHooks.call(self, interp, node, fname, args, kwargs, state)
    hk = RH(m, Definition, stream, stream)
    hk.keep = lambda ev: False
    hk.should_inline = A.private_only
    it = A.Interp(model=m, scope=inv, hooks=hk, max_iter=len(stored_text) + len(stream) + 2, exc_edges=False, inline=3, heap=True, precise_exc=True)
    try:
        outs = it.run_function(inv, env={'self': A.Obj('definition', {'args': list(stored_text), 'definition': [x]}, cls=Definition), 'tex': A.Obj('tex', {'readArgument': A.Sym('extfunc:tex.readArgument', truthy=True), 'itertokens': A.Sym('extfunc:tex.itertokens', truthy=True)})})
    except AnalysisError as e:
        chk.undecided(R, 'hashbrace', str(e), chk.where(inv))
        return
    if it.imprecise:
        chk.undecided(R, 'hashbrace', '; '.join(sorted(set(it.imprecise))[:3]), chk.where(inv))
        return
    got = set()
    for kind, s2, v in outs:
        p_ = s2.env.get('__params')
        got.add((kind, repr([labels(e) if isinstance(e, list) else e for e in p_]) if isinstance(p_, list) else 'TOP'))
    want = {('return', "[None, ['x', 'y', 'z']]")}
    A.IMPRECISION[:] = []
    chk.decide(R, 'hashbrace', got, want,
               'for the parameter text #1#{ the writer stores %s and, on the input xyz{b}, the reader binds %s; TeX binds #1 = xyz (everything up '
               'to the brace): the writer never stores the begin-group token, so "#1#{" is read as two adjacent undelimited parameters '
               '(\\def\\a#1#{[#1]}\\a xyz{b} gives [x]zb)' % (labels(stored_text), sorted(got)), chk.where(inv))


def r26(chk, m, rule_id='R2.6'):
    R = chk.rule(rule_id, 'a token list obtained from invoke()/expand() may be the stored definition itself (Definition.invoke '
                 'returns self.definition): no function of the package edits such a list in place', 3)
    n = 0
    for fn in E.all_functions(m):
        if 'simpletal' in fn.fullname:
            continue
        holders = set()
        for x in M.walk_no_nested(fn.node):
            if isinstance(x, ast.Assign) and isinstance(x.value, ast.Call) and isinstance(x.value.func, ast.Attribute) \
               and x.value.func.attr == 'invoke' and len(x.targets) == 1 and isinstance(x.targets[0], ast.Name):
                holders.add(x.targets[0].id)
            # `expanded = expanded or [tok]` keeps the alias
        if not holders:
            continue
        changed = True
        while changed:
            changed = False
            for x in M.walk_no_nested(fn.node):
                if isinstance(x, ast.Assign) and len(x.targets) == 1 and isinstance(x.targets[0], ast.Name) and x.targets[0].id not in holders:
                    v = x.value
                    if isinstance(v, ast.Name) and v.id in holders or isinstance(v, ast.BoolOp) and any(isinstance(o, ast.Name) and o.id in holders for o in v.values):
                        holders.add(x.targets[0].id)
                        changed = True
        n += 1
        chk.analysed(fn)
        bad = []
        for x in M.walk_no_nested(fn.node):
            if isinstance(x, ast.Call) and isinstance(x.func, ast.Attribute) and x.func.attr in E.MUTATORS and isinstance(x.func.value, ast.Name) and x.func.value.id in holders:
                bad.append(text(x))
            if isinstance(x, ast.AugAssign) and isinstance(x.target, ast.Name) and x.target.id in holders:
                bad.append(text(x))
            if isinstance(x, (ast.Assign, ast.Delete)):
                for t in (x.targets):
                    if isinstance(t, ast.Subscript) and isinstance(t.value, ast.Name) and t.value.id in holders:
                        bad.append(text(x))
        chk.verdict(R, '%s holds an invoke() result' % fn.fullname, not bad,
                    '%s edits the token list returned by invoke() in place (%s): for a parameterless \\def that list is the stored '
                    'definition, so the macro body is changed for every later use' % (fn.fullname, bad), chk.where(fn), 'holders %s read-only' % sorted(holders))
    need(n >= 3, 'only %d functions hold invoke() results' % n)
    # producer side: who returns the stored list un-copied
    inv = m.func('plasTeX', 'Definition.invoke')
    direct = [text(r.value) for r in M.walk_no_nested(inv.node) if isinstance(r, ast.Return) and r.value is not None and text(r.value) == 'self.definition']
    chk.note('Definition.invoke returns the stored list itself at %d site(s): consumers must not edit it' % len(direct))


class RedefHooks(SelfHooks):
    def __init__(self, model, cls, kind):
        SelfHooks.__init__(self, model, cls)
        self.kind = kind

    def call(self, interp, node, fname, args, kwargs, state):
        if fname == 'issubclass' and len(args) == 2:
            targets = args[1] if isinstance(args[1], tuple) else (args[1],)
            if all(isinstance(t, M.ClassInfo) for t in targets):
                return any(self.model.is_subclass(self.kind, t) for t in targets)
            return None
        if fname == 'isinstance':
            if len(args) == 2 and text(node.args[1]) == 'str':
                return False
            if len(args) == 2 and text(node.args[1]) == 'int':
                return True
        if fname == 'self.addGlobal':
            state.env['__added'] = True
        return None

    def decide(self, interp, test, state):
        if 'self.keys()' in text(test) and isinstance(test, ast.Compare):
            return isinstance(test.ops[0], ast.In)
        return None


def r27(chk, m):
    R = chk.rule('R2.7', '(re)newcommand on an existing name redefines user-level definitions (\\newcommand, \\def, unrecognised, '
                 '\\relax, \\thecounter) and leaves built-in Python macros alone', 6)
    Context = m.cls('plasTeX.Context', 'Context')
    fn = m.find_method(Context, 'newcommand')
    chk.analysed(fn)
    kinds = [('NewCommand', m.cls('plasTeX', 'NewCommand'), True), ('Definition (\\def)', m.cls('plasTeX', 'Definition'), True),
             ('UnrecognizedMacro', m.cls('plasTeX', 'UnrecognizedMacro'), True), ('relax', m.cls('plasTeX.Base.TeX.Primitives', 'relax'), True),
             ('TheCounter', m.cls('plasTeX', 'TheCounter'), True), ('built-in command', m.cls('plasTeX.Base.LaTeX.Sectioning', 'section'), False)]
    from . import c04
    for label, cls, want in kinds:
        # interpreted on a heap of frames: the name is known, its current meaning is a class of the given kind; the outcome is
        # whether the global frame receives a new definition (however the registration is spelled)
        class H(c04.RegHooks):
            def call(self, interp, node, fname, args, kwargs, state, kind=cls):
                if fname == 'self.keys' and not args:
                    return ['foo']
                if fname == 'issubclass' and len(args) == 2:
                    targets = args[1] if isinstance(args[1], tuple) else (args[1],)
                    if all(isinstance(t, M.ClassInfo) for t in targets):
                        return any(self.model.is_subclass(kind, t) for t in targets)
                    return None
                if fname == 'isinstance' and len(args) == 2 and text(node.args[1]) == 'int':
                    return isinstance(args[0], int)
                return c04.RegHooks.call(self, interp, node, fname, args, kwargs, state)

            def decide(self, interp, test, state):
                if 'self.keys()' in text(test) and isinstance(test, ast.Compare):
                    return isinstance(test.ops[0], ast.In)
                return None
        try:
            hits = c04.registrations(m, fn, {'name': 'foo', 'nargs': 0, 'definition': None, 'opt': None}, hooks_cls=H, inline=4)
        except AnalysisError as e:
            chk.undecided(R, 'newcommand over an existing %s' % label, str(e), chk.where(fn))
            continue
        chk.paths += len(hits)
        got = {repr(h) for h in hits}
        chk.decide(R, 'newcommand over an existing %s' % label, got, {repr((0,)) if want else repr(())},
                   'newcommand on a name currently bound to a %s registers in frames %s (0 = the global frame, () = nothing); expected: %s'
                   % (label, sorted(got), 'a new definition in the global frame' if want else 'nothing (built-in macros are left alone)'), chk.where(fn),
                   str(sorted(got)))
