"""C05 - Arguments are delimited, typed and bound as the signature declares.

R5.1 ParameterCommand.disable/enable balance on every normal path,
R5.2 type exhaustiveness of all `args` signatures vs TeX.argtypes,
R5.3 unit tables (dimen.__new__ vs inverse properties vs TeX constants),
R5.4 look-ahead push-back table of the optional/continuation scanners,
R5.5 radix table of readInteger and sibling-arm agreement on the optional space."""
import ast
import re

from .. import absint as A
from .. import model as M
from ..report import AnalysisError, need
from ..util import SelfHooks, text, tex_name, macro_classes


def check(chk):
    m = chk.model
    r51(chk, m)
    r52(chk, m)
    r53(chk, m)
    r54(chk, m)
    r55(chk, m)
    r56(chk, m)
    r57(chk, m)
    from . import shared
    shared.cache_rules(chk, m, 'R5.8')
    shared.sign_rules(chk, m, 'R5.9')
    shared.grouping_rules(chk, m, 'R5.10')
    chk.decline('the values bound for concrete invocations (value-level)')
    chk.decline('the mandatory first-token loops of readInteger/readDecimal on a missing number, and '
                'readKeyword dropping an already expanded element after a missing unit (non-conforming calls)')


# ---------------------------------------------------------------------------
def balance_of(trace):
    """Running balance of enable (+1) / disable (-1) calls along a trace."""
    bal, lo, hi = 0, 0, 0
    for ev in trace:
        if ev[0] == 'call':
            if ev[1].endswith('ParameterCommand.enable'):
                bal += 1
            elif ev[1].endswith('ParameterCommand.disable'):
                bal -= 1
            lo, hi = min(lo, bal), max(hi, bal)
    return bal, lo, hi


class BalHooks(A.Hooks):
    def keep(self, ev):
        return ev[0] in ('call', 'return', 'raise') and (ev[0] != 'call' or 'ParameterCommand.' in ev[1])


def balanced_functions(m):
    out = []
    for mod in m.modules.values():
        fns = list(mod.functions.values())
        for c in mod.classes.values():
            stack = [c]
            while stack:
                k = stack.pop()
                fns.extend(k.methods.values())
                for p in k.properties.values():
                    fns.extend(x for x in p.values() if x not in fns)
                stack.extend(k.nested.values())
        for f in fns:
            names = [M.call_name(c) for c in M.calls_in(f.node)]
            if any(n.endswith('ParameterCommand.enable') or n.endswith('ParameterCommand.disable') for n in names):
                out.append(f)
    return out


def r51(chk, m, rule_id='R5.1'):
    R = chk.rule(rule_id, 'ParameterCommand.disable()/enable() are balanced on every normal exit of every function '
                 'that calls either (net 0, never positive)', 20)
    fns = balanced_functions(m)
    need(len(fns) >= 6, 'fewer than 6 functions call ParameterCommand.enable/disable: anchors moved')
    for fn in sorted(fns, key=lambda f: f.fullname):
        if fn.cls is not None and fn.cls.name == 'ParameterCommand':
            continue
        chk.analysed(fn)
        it = A.Interp(model=m, scope=fn, hooks=BalHooks(), max_iter=1, exc_edges=True)
        outs = it.run_function(fn)
        chk.paths += len(outs)
        exits = {}
        for kind, s, v in outs:
            if kind != 'return':
                continue
            bal, lo, hi = balance_of(s.trace)
            rets = [e for e in s.trace if e[0] == 'return']
            line = rets[-1][2] if rets else None
            key = exit_key(fn, line)
            exits.setdefault(key, set()).add((bal, hi, line))
        for key, vals in sorted(exits.items()):
            bad = [(b, h, l) for (b, h, l) in vals if b != 0 or h > 0]
            chk.verdict(R, '%s :: %s' % (fn.qualname, key), not bad,
                        'exit "%s" of %s leaves the ParameterCommand enable level changed by %s (enable() missing or doubled on this path)'
                        % (key, fn.qualname, sorted({b for b, h, l in bad})),
                        chk.where(fn, type('L', (), {'lineno': bad[0][2]})() if bad and bad[0][2] else None),
                        'balance 0')


def exit_key(fn, line):
    """Key an exit by the normalised text of its return statement and guard."""
    if line is None:
        return 'end of function'
    for n in M.walk_no_nested(fn.node):
        if isinstance(n, ast.Return) and n.lineno == line:
            guard = enclosing_guard(fn.node, n)
            return ('%s [%s]' % (M.norm(n), guard))[:150]
    return 'line?'


def enclosing_guard(root, node):
    """Text of the innermost enclosing if/for test of a statement."""
    best = ''
    for n in ast.walk(root):
        if isinstance(n, (ast.If, ast.For, ast.While)):
            inside = any(x is node for b in (n.body, n.orelse) for st in b for x in ast.walk(st))
            if inside:
                t = M.norm(n.test) if isinstance(n, (ast.If, ast.While)) else 'for ' + M.norm(n.target) + ' in ' + M.norm(n.iter)
                # innermost = the last one found whose range is smallest
                if not best or n.lineno >= best[1]:
                    best = (t, n.lineno)
    return best[0] if best else 'top level'


# ---------------------------------------------------------------------------
def r52(chk, m):
    R = chk.rule('R5.2', 'every type/subtype named in an `args` signature of any Macro subclass is a key of '
                 'TeX.argtypes or special-cased by readArgumentAndSource; signatures parse', 300)
    Macro = m.cls('plasTeX', 'Macro')
    argfn = m.func('plasTeX', 'Macro.arguments')
    chk.analysed(argfn)
    # the tokenising regular expression, literally from the source
    split = [c for c in M.calls_in(argfn.node) if M.call_name(c) == 're.split']
    need(len(split) == 1 and isinstance(split[0].args[0], ast.Constant), 'Macro.arguments: re.split(<literal>) not found')
    rx = re.compile(split[0].args[0].value)
    groupings = None
    for n in M.walk_no_nested(argfn.node):
        if isinstance(n, ast.Assign) and text(n.targets[0]) == 'groupings':
            groupings = m.eval_const(argfn, n.value)
    need(isinstance(groupings, dict), 'Macro.arguments: groupings table not found')
    for k, v in sorted(groupings.items()):
        chk.verdict(R, 'groupings[%r]' % k, isinstance(v, str) and len(v) == 2 and v[0] == k and v[1] in ')]>}',
                    'grouping %r maps to %r (must be the opener followed by its closer)' % (k, v), chk.where(argfn))
    # known types
    init = m.func('plasTeX.TeX', 'TeX.__init__')
    known = set()
    for n in M.walk_no_nested(init.node):
        if isinstance(n, ast.Assign) and text(n.targets[0]) == 'self.argtypes' and isinstance(n.value, ast.Dict):
            for k in n.value.keys:
                if isinstance(k, ast.Constant) and isinstance(k.value, str):
                    known.add(k.value)
    need(len(known) >= 15, 'TeX.argtypes literal not found')
    ras = m.func('plasTeX.TeX', 'TeX.readArgumentAndSource')
    special = set()
    for n in M.walk_no_nested(ras.node):
        if isinstance(n, ast.Compare) and text(n.left) == 'type' and isinstance(n.ops[0], ast.In):
            v = m.eval_const(ras, n.comparators[0])
            if isinstance(v, (list, tuple)):
                special.update(x for x in v if isinstance(x, str))
    need(len(special) >= 10, 'special-cased types of readArgumentAndSource not found')
    # 'self' is handled like an ordinary argument name; all signatures
    n_typed = 0
    for c in macro_classes(m):
        if 'args' not in c.assigns:
            continue
        v = m.eval_const(c, c.assigns['args'][-1])
        if M.is_unknown(v) or v is None:
            continue
        if not isinstance(v, str):
            chk.fail(R, 'args of %s' % c.fullname, 'args is not a string: %r' % (v,), chk.where(c))
            continue
        try:
            types = parse_args(rx, v)
        except ValueError as e:
            chk.fail(R, 'args of %s' % c.fullname, 'signature %r does not parse: %s' % (v, e), chk.where(c))
            continue
        if not types:
            continue
        bad = sorted({t for t in types if t not in known and t not in special})
        n_typed += len(types)
        chk.verdict(R, 'args of %s' % c.fullname, not bad,
                    'signature %r names unknown argument type(s) %s: cast() would silently return raw tokens' % (v, bad),
                    chk.where(c), '%r: types %s' % (v, sorted(set(types))))
    chk.note('typed arguments checked: %d; known types: %d argtypes + %d special-cased' % (n_typed, len(known), len(special)))
    chk.call_sites += n_typed


def parse_args(rx, args):
    """Mirror of the type extraction in Macro.arguments (tokenised with the
    repository's own regular expression)."""
    items = [x.strip() for x in rx.split(args) if x is not None and x.strip()]
    types = []
    havetype = False
    for item in items:
        if item in '*+-' or item in '=':
            havetype = False
        elif item in '[(<{':
            havetype = False
        elif item in '])>}':
            pass
        elif item[0].isalpha() and item[0].isascii():
            parts = item.split(':')
            parts.pop(0)
            if parts:
                if havetype:
                    types.append(parts.pop(0))
                else:
                    mm = re.search(r'(\w+)(?:\((\W)\))?', parts.pop(0))
                    types.append(mm.group(1))
                    if parts:
                        types.append(parts.pop(0))
            havetype = False
        else:
            raise ValueError('unexpected %r' % item)
    return types


# ---------------------------------------------------------------------------
PT = 65536.0
INCH = 72.27 * PT
TEX_UNITS = {'pt': PT, 'pc': 12 * PT, 'in': INCH, 'bp': INCH / 72, 'cm': INCH / 2.54, 'mm': INCH / 25.4,
             'dd': 1238.0 * PT / 1157, 'cc': 12 * 1238.0 * PT / 1157, 'sp': 1.0}
FIL = {'fil': 2e9, 'fill': 4e9, 'filll': 6e9}


def r53(chk, m):
    R = chk.rule('R5.3', 'every unit has a conversion arm in dimen.__new__ whose factor equals the divisor of the '
                 'inverse property and TeX\'s constant; fil orders are the 2e9/4e9/6e9 bands', 9 + 3 + 2)
    dimen = m.cls('plasTeX', 'dimen')
    new = m.find_method(dimen, '__new__')
    chk.analysed(new)
    units = m.class_const(dimen, 'units')
    need(isinstance(units, list) and len(units) >= 9, 'dimen.units not a foldable list')
    arms = {}
    fil_arms = {}
    for n in ast.walk(new.node):
        if isinstance(n, ast.If) and isinstance(n.test, ast.Compare) and text(n.test.left) == 'units' \
           and isinstance(n.test.ops[0], ast.Eq) and isinstance(n.test.comparators[0], ast.Constant):
            u = n.test.comparators[0].value
            factor = None
            for st in n.body:
                if isinstance(st, ast.AugAssign) and isinstance(st.op, ast.Mult) and text(st.target) == 'v':
                    factor = m.eval_const(new, st.value)
                elif isinstance(st, ast.Pass):
                    factor = 1.0
                elif isinstance(st, ast.If):
                    adds = [m.eval_const(new, x.value) for x in ast.walk(st) if isinstance(x, ast.AugAssign)]
                    ops = [type(x.op).__name__ for x in ast.walk(st) if isinstance(x, ast.AugAssign)]
                    fil_arms[u] = (text(st.test), adds, ops)
            arms[u] = factor
    for u in units:
        if u in ('ex', 'em'):
            continue      # font dependent, "just estimates" - not TeX constants
        want = TEX_UNITS.get(u)
        got = arms.get(u)
        inv = inverse_divisor(m, dimen, u)
        ok = want is not None and isinstance(got, (int, float)) and abs(got - want) <= 1e-9 * want \
            and isinstance(inv, (int, float)) and abs(inv - want) <= 1e-9 * want
        chk.verdict(R, 'unit %s' % u, ok,
                    'unit %s: dimen.__new__ multiplies by %r, inverse property divides by %r, TeX: %r scaled points'
                    % (u, got, inv, want), chk.where(new), 'factor %r' % (got,))
    for u in ('ex', 'em'):
        got = arms.get(u)
        inv = inverse_divisor(m, dimen, u)
        chk.verdict(R, 'unit %s (writer/reader agreement only)' % u,
                    isinstance(got, (int, float)) and got == inv and u in units,
                    'unit %s: factor %r in __new__ but divisor %r in the inverse property' % (u, got, inv), chk.where(new))
    for u, band in FIL.items():
        t, adds, ops = fil_arms.get(u, ('', [], []))
        ok = sorted(ops) == ['Add', 'Sub'] and all(a == band for a in adds) and t.replace(' ', '') == 'v<0'
        chk.verdict(R, 'fil order %s' % u, ok,
                    '%s must be encoded by +-%g (found test %r, %s %s)' % (u, band, t, ops, adds), chk.where(new))
    # decoding bands in source / fill
    for prop in ('source', 'fill'):
        f = m.find_method(dimen, prop)
        chk.analysed(f)
        bands = []
        for n in ast.walk(f.node):
            if isinstance(n, ast.If) and isinstance(n.test, ast.Compare) and 'abs(self)' in text(n.test.left):
                thr = m.eval_const(f, n.test.comparators[0])
                sub = [m.eval_const(f, x.right) for x in ast.walk(n.body[0]) if isinstance(x, ast.BinOp) and isinstance(x.op, ast.Sub) and 'abs(self)' in text(x.left)]
                suffix = [x.value for x in ast.walk(n.body[0]) if isinstance(x, ast.Constant) and isinstance(x.value, str)]
                bands.append((type(n.test.ops[0]).__name__, thr, sub, suffix))
        want_thr = [6e9, 4e9, 2e9]
        ok = [b[1] for b in bands] == want_thr and all(b[0] == 'GtE' and b[2] == [b[1]] for b in bands)
        if prop == 'source':
            ok = ok and [b[3] for b in bands] == [['filll'], ['fill'], ['fil']]
        chk.verdict(R, 'dimen.%s decodes the fil bands' % prop, ok,
                    'dimen.%s must test >= 6e9, 4e9, 2e9 in this order and subtract the same constant: %r' % (prop, bands), chk.where(f))


def inverse_divisor(m, dimen, unit):
    name = {'in': '_in'}.get(unit, unit)
    f = None
    if name in dimen.properties:
        f = dimen.properties[name].get('get')
    if f is None:
        return None
    for n in ast.walk(f.node):
        if isinstance(n, ast.Return):
            if isinstance(n.value, ast.BinOp) and isinstance(n.value.op, ast.Div) and text(n.value.left) == 'self':
                return m.eval_const(f, n.value.right)
            if text(n.value) == 'self':
                return 1.0
    return None


# ---------------------------------------------------------------------------
ELEMENT = 1
TEXT = 3
CC_SPACE, CC_LETTER, CC_OTHER = 10, 11, 12


def tok(label, char, catcode=CC_OTHER, element=False, cls=None):
    attrs = {'nodeType': ELEMENT if element else TEXT, 'ELEMENT_NODE': ELEMENT, 'catcode': catcode,
             'char': char, 'distinct': True}
    return A.Sym(label, truthy=True, attrs=attrs, cls=cls)


class ScanHooks(SelfHooks):
    """Feeds one abstract token to the first stream loop of a scanner."""

    def __init__(self, model, cls, stream, env_names=()):
        SelfHooks.__init__(self, model, cls)
        self.stream = stream

    def call(self, interp, node, fname, args, kwargs, state):
        if fname in ('self.itertokens',):
            return A.Sym('stream')
        if fname == 'str' and len(args) == 1:
            if isinstance(args[0], A.Sym) and 'char' in args[0].attrs:
                return args[0].attrs['char']
            if isinstance(args[0], A.Inst) and args[0].args and isinstance(args[0].args[0], str):
                return args[0].args[0]
        if fname.endswith('.upper') and isinstance(node.func, ast.Attribute):
            base = interp.ev(node.func.value, state)
            if isinstance(base, A.Sym) and 'char' in base.attrs:
                return base.attrs['char'].upper()
        if fname in ('self.readOptionalSpaces', 'self.readOptionalSigns', 'self.readOneOptionalSpace',
                     'self.readSequence', 'self.readKeyword', 'self.readDecimal', 'self.readInteger',
                     'self.readUnitOfMeasure', 'self.readDimen'):
            state.env['__sub'] = state.env.get('__sub', ()) + (fname,)
            if fname == 'self.readOptionalSigns':
                return 1
            if fname == 'self.readSequence':
                return ''
            return A.TOP
        return None

    def lookup(self, interp, name, state):
        if name == 'self':
            return A.Sym('stream')
        return SelfHooks.lookup(self, interp, name, state)

    def iter_item(self, interp, loop, k, state):
        it = interp.ev(loop.iter, state)
        if isinstance(it, A.Sym) and it.label == 'stream':
            pos = state.env.get('__pos', 0)
            if pos >= len(self.stream):
                return A.STOP
            state.env['__pos'] = pos + 1
            return self.stream[pos]
        return None

    def decide(self, interp, test, state):
        # comparisons of an abstract character token with strings / sets
        if isinstance(test, ast.Compare) and len(test.ops) == 1:
            l = interp.ev(test.left, state)
            r = interp.ev(test.comparators[0], state)
            op = test.ops[0]
            if isinstance(l, A.Sym) and 'char' in l.attrs:
                ch = l.attrs['char']
                if isinstance(r, A.Inst) and r.args and isinstance(r.args[0], str):
                    r = r.args[0]
                if isinstance(op, (ast.Eq, ast.NotEq)) and isinstance(r, str):
                    res = (ch == r) and not l.attrs.get('nodeType') == ELEMENT
                    return res if isinstance(op, ast.Eq) else not res
                if isinstance(op, (ast.In, ast.NotIn)) and isinstance(r, str) and not isinstance(r, M._StringLetters):
                    res = ch != '' and ch in r
                    return res if isinstance(op, ast.In) else not res
                if isinstance(op, (ast.In, ast.NotIn)) and isinstance(r, A.Sym) and r.label == 'chars':
                    res = bool(l.attrs.get('inset'))
                    return res if isinstance(op, ast.In) else not res
                if isinstance(op, (ast.Is, ast.IsNot)) and r is None:
                    return isinstance(op, ast.IsNot)
        return None


def dispositions(trace, token):
    """How was `token` disposed of: pushed back / kept (appended or returned)."""
    pushed = kept = 0
    for ev in trace:
        if ev[0] == 'call' and ev[1] in ('self.pushToken',) and token in ev[2]:
            pushed += 1
        elif ev[0] == 'call' and ev[1] == 'self.pushTokens':
            pushed += 1 if '__matched_has_token' else 0
        elif ev[0] == 'call' and ev[1].endswith('.append') and token in ev[2]:
            kept += 1
        elif ev[0] == 'return' and (ev[1] == token or isinstance(ev[1], tuple) and token in ev[1]):
            kept += 1
    return pushed, kept


def r54(chk, m):
    R = chk.rule('R5.4', 'optional/continuation scanners: a character token that fails the acceptance test is pushed '
                 'back before the loop is left; an accepted one is consumed exactly once (table per scanner x token kind)', 20)
    TeX = m.cls('plasTeX.TeX', 'TeX')
    space = lambda: tok('SPACE', ' ', CC_SPACE)
    other = lambda: tok('X', 'x', CC_LETTER)
    elem = lambda: tok('ELEM', '', CC_OTHER, element=True)
    plus, minus = (lambda: tok('PLUS', '+')), (lambda: tok('MINUS', '-'))
    digit_in = lambda: A.Sym('DIGIT', truthy=True, attrs=dict(tok('D', '7').attrs, inset=True))

    def run(fname, stream, env=None, kw=None):
        fn = m.func('plasTeX.TeX', 'TeX.' + fname)
        chk.analysed(fn)
        hooks = ScanHooks(m, TeX, stream)
        it = A.Interp(model=m, scope=fn, hooks=hooks, max_iter=len(stream) + 1, exc_edges=False)
        outs = it.run_function(fn, env=env or {})
        chk.paths += len(outs)
        return fn, outs

    def expect(fname, label, stream, want, env=None, subject=-1):
        """want: 'pushed' | 'consumed' for the subject token of the stream."""
        fn, outs = run(fname, stream, env)
        t = stream[subject]
        res = set()
        for kind, s, v in outs:
            if kind != 'return':
                continue
            pushed = sum(1 for ev in s.trace if ev[0] == 'call' and ev[1] == 'self.pushToken' and t in ev[2])
            lists = [ev for ev in s.trace if ev[0] == 'call' and ev[1] == 'self.pushTokens']
            for ev in lists:
                # pushTokens(matched): the list value at the time of the call
                pass
            pushed += s.env.get('__listpush_%s' % t.label, 0)
            res.add('pushed' if pushed == 1 else ('consumed' if pushed == 0 else 'pushed x%d' % pushed))
        chk.verdict(R, '%s :: %s' % (fname, label), res == {want},
                    '%s: a %s is %s, the scanner contract requires %s (text following the invocation would be lost or duplicated)'
                    % (fname, label, sorted(res), want), chk.where(fn), str(sorted(res)))

    expect('readOptionalSpaces', 'space', [space()], 'consumed')
    expect('readOptionalSpaces', 'non-space character', [other()], 'pushed')
    expect('readOptionalSpaces', 'space then non-space character', [space(), other()], 'pushed')
    expect('readOptionalSpaces', 'expanded element', [elem()], 'pushed')
    expect('readOneOptionalSpace', 'space', [space()], 'consumed')
    expect('readOneOptionalSpace', 'non-space character', [other()], 'pushed')
    expect('readOneOptionalSpace', 'second space', [space(), space()], 'consumed', subject=0)
    expect('readOneOptionalSpace', 'expanded element', [elem()], 'pushed')
    expect('readOptionalSigns', 'plus sign', [plus()], 'consumed')
    expect('readOptionalSigns', 'minus sign', [minus()], 'consumed')
    expect('readOptionalSigns', 'character after signs', [minus(), other()], 'pushed')
    expect('readOptionalSigns', 'space between signs', [minus(), space(), minus()], 'consumed', subject=1)
    expect('readOptionalSigns', 'sign after a space', [minus(), space(), minus()], 'consumed', subject=2)
    expect('readOptionalSigns', 'expanded element', [elem()], 'pushed')
    expect('readSequence', 'character of the set', [digit_in()], 'consumed', env={'chars': A.Sym('chars'), 'optspace': True})
    expect('readSequence', 'character outside the set', [digit_in(), other()], 'pushed', env={'chars': A.Sym('chars'), 'optspace': True})
    expect('readSequence', 'one optional space (optspace)', [digit_in(), space()], 'consumed', env={'chars': A.Sym('chars'), 'optspace': True})
    expect('readSequence', 'space without optspace', [digit_in(), space()], 'pushed', env={'chars': A.Sym('chars'), 'optspace': False})
    expect('readSequence', 'expanded element', [digit_in(), elem()], 'pushed', env={'chars': A.Sym('chars'), 'optspace': True})
    expect('readCharacter', 'the expected character', [tok('C', '*')], 'consumed', env={'char': '*'})
    expect('readCharacter', 'another character', [other()], 'pushed', env={'char': '*'})
    expect('readGrouping', 'a token that does not open the group', [other()], 'pushed', env={'chars': '[]'})

    # readKeyword: every partially matched character goes back
    fn = m.func('plasTeX.TeX', 'TeX.readKeyword')
    chk.analysed(fn)
    for label, stream, words, want_push in (
            ('mismatch on first letter', [tok('Q', 'q', CC_LETTER)], ['pt'], 1),
            ('mismatch on second letter', [tok('P', 'p', CC_LETTER), tok('Q', 'q', CC_LETTER)], ['pt'], 2),
            ('full match', [tok('P', 'p', CC_LETTER), tok('T', 't', CC_LETTER)], ['pt'], 0)):
        hooks = ScanHooks(m, TeX, stream)
        it = A.Interp(model=m, scope=fn, hooks=hooks, max_iter=3, exc_edges=False)
        outs = it.run_function(fn, env={'words': words, 'optspace': True})
        chk.paths += len(outs)
        res = set()
        for kind, s, v in outs:
            n = 0
            for ev in s.trace:
                if ev[0] == 'call' and ev[1] == 'self.pushTokens':
                    n += s.env.get('__pushlen', 0)
            # matched list is concrete in the environment
            matched = s.env.get('matched')
            pushes = [ev for ev in s.trace if ev[0] == 'call' and ev[1] == 'self.pushTokens']
            res.add((len(pushes), len(matched) if isinstance(matched, list) else -1, repr(v)))
        if want_push == 0:
            ok = all(r[2] == repr('pt') for r in res) and len(res) == 1
        else:
            ok = len(res) == 1 and all(r[0] >= 1 and r[1] == want_push and r[2] == 'None' for r in res)
        chk.verdict(R, 'readKeyword :: %s' % label, ok,
                    'readKeyword(%s) on %s: (pushTokens calls, characters handed back, result) = %s' % (words, [t.label for t in stream], sorted(res)),
                    chk.where(fn), str(sorted(res)))


# ---------------------------------------------------------------------------
def r55(chk, m):
    R = chk.rule('R5.5', 'readInteger radix table: \' -> base 8 over octdigits, " -> base 16 over hexdigits, ` -> ord of the '
                 'next token, digits -> base 10; every arm consumes the one optional space', 4)
    fn = m.func('plasTeX.TeX', 'TeX.readInteger')
    chk.analysed(fn)
    arms = {}
    for n in ast.walk(fn.node):
        if isinstance(n, ast.If):
            t = n.test
            key = None
            if isinstance(t, ast.Compare) and text(t.left) == 't' and isinstance(t.ops[0], ast.Eq) and isinstance(t.comparators[0], ast.Constant):
                key = t.comparators[0].value
            elif isinstance(t, ast.Compare) and text(t.left) == 't' and isinstance(t.ops[0], ast.In) and text(t.comparators[0]) == 'string.digits':
                key = 'digits'
            if key is not None:
                arms[key] = n.body
    def info(body):
        src = ' '.join(text(s) for s in body)
        calls = [c for s in body for c in ast.walk(s) if isinstance(c, ast.Call)]
        seq = [c for c in calls if M.call_name(c) == 'self.readSequence']
        sets = [text(c.args[0]) for c in seq if c.args]
        opt = any(any(k.arg == 'optspace' and text(k.value) == 'optspace' for k in c.keywords) for c in seq) or \
            any(M.call_name(c) == 'self.readOneOptionalSpace' for c in calls)
        base = None
        for c in calls:
            if M.call_name(c) == 'int' and len(c.args) == 2:
                base = m.eval_const(fn, c.args[1])
            elif M.call_name(c) == 'int' and len(c.args) == 1:
                base = 10
        has_ord = any(M.call_name(c) == 'ord' for c in calls)
        sign = src.count('sign *')
        return sets, opt, base, has_ord, sign
    table = {"'": (['string.octdigits'], 8, False), '"': (['string.hexdigits'], 16, False),
             'digits': (['string.digits'], 10, False), '`': ([], None, True)}
    for key, (wsets, wbase, word) in table.items():
        body = arms.get(key)
        if body is None:
            chk.fail(R, 'readInteger arm %s' % key, 'no arm for constants introduced by %r' % key, chk.where(fn))
            continue
        sets, opt, base, has_ord, sign = info(body)
        ok = sets == wsets and base == wbase and has_ord == word and opt and sign == 1
        chk.verdict(R, 'readInteger arm %s' % key, ok,
                    'arm %r: digit set %s (want %s), base %r (want %r), ord %s, consumes one optional space: %s, sign applied %d time(s)'
                    % (key, sets, wsets, base, wbase, has_ord, opt, sign), chk.where(fn),
                    'set %s base %r optspace %s' % (sets, base, opt))


# ---------------------------------------------------------------------------
def r56(chk, m, rule_id='R5.6'):
    R = chk.rule(rule_id, 'numeric scanners apply the sign read by readOptionalSigns exactly once to every value they '
                 'return (constants, registers, coerced values)', 10)
    for fname in ('readInteger', 'readDecimal', 'readDimen', 'readGlue', 'readMuGlue'):
        fn = m.func('plasTeX.TeX', 'TeX.' + fname)
        chk.analysed(fn)
        signvars = [text(n.targets[0]) for n in M.walk_no_nested(fn.node)
                    if isinstance(n, ast.Assign) and isinstance(n.value, ast.Call) and M.call_name(n.value) == 'self.readOptionalSigns']
        need(len(signvars) == 1, '%s no longer reads its sign through readOptionalSigns' % fname)
        sv = signvars[0]
        assigns = {}
        for n in M.walk_no_nested(fn.node):
            if isinstance(n, ast.Assign) and isinstance(n.targets[0], ast.Name):
                assigns.setdefault(n.targets[0].id, []).append(n)

        def uses(expr, depth=0):
            """number of times the sign reaches the value of expr"""
            names = [x.id for x in ast.walk(expr) if isinstance(x, ast.Name)]
            n = names.count(sv)
            return n

        def value_sites(expr, seen=()):
            """(site node, count) for every expression that defines the returned value"""
            if isinstance(expr, ast.Name) and expr.id in assigns and expr.id not in seen and expr.id != sv:
                out = []
                for a in assigns[expr.id]:
                    if isinstance(a.value, ast.Constant) and a.value.value is None:
                        continue
                    selfref = [x for x in ast.walk(a.value) if isinstance(x, ast.Name) and x.id == expr.id]
                    if selfref:
                        continue      # refinement of an already signed value (num * register)
                    out.extend(value_sites(a.value, seen + (expr.id,)))
                return out
            # a product/constructor: the sign may come through a local variable
            cnt = uses(expr)
            for x in ast.walk(expr):
                if isinstance(x, ast.Name) and x.id in assigns and x.id != sv and x.id not in seen:
                    for a in assigns[x.id]:
                        cnt += uses(a.value)
            return [(expr, cnt)]

        for r in M.walk_no_nested(fn.node):
            if not isinstance(r, ast.Return) or r.value is None:
                continue
            src = text(r.value)
            if re.fullmatch(r'(number|float|dimen|glue)\(0\)|0|0\.0', src):
                chk.ok(R, '%s :: return %s' % (fname, src), 'missing-number recovery returns zero')
                continue
            for site, cnt in value_sites(r.value):
                chk.verdict(R, '%s :: %s' % (fname, M.norm(site)), cnt == 1,
                            '%s returns %s in which the sign read by readOptionalSigns is applied %d time(s) (must be exactly once)'
                            % (fname, M.norm(site), cnt), chk.where(fn, site), 'sign applied once')


# ---------------------------------------------------------------------------
def r57(chk, m):
    R = chk.rule('R5.7', 'category codes changed for an argument type (url: # ~ % & become ordinary) are restored on every '
                 'normal exit of readArgumentAndSource, including the one for an absent optional argument', 2)
    from .. import flow
    fn = m.func('plasTeX.TeX', 'TeX.readArgumentAndSource')
    chk.analysed(fn)
    saved = set()
    for n in M.walk_no_nested(fn.node):
        if isinstance(n, ast.Assign) and isinstance(n.targets[0], ast.Subscript) and isinstance(n.targets[0].value, ast.Name) \
           and 'whichCode' in text(n.value):
            saved.add(n.targets[0].value.id)
    need(len(saved) == 1, 'readArgumentAndSource: the table of saved category codes was not found')
    sv = saved.pop()
    restoring = set()
    for n in M.walk_no_nested(fn.node):
        if isinstance(n, ast.For) and re.search(r'\b%s\b' % sv, text(n.iter)):
            for c in ast.walk(n):
                if isinstance(c, ast.Call) and M.call_name(c).endswith('context.catcode'):
                    restoring.add(id(c))
    need(restoring, 'readArgumentAndSource: no loop restores the saved category codes')
    rets = {}

    def transfer(n, v):
        if isinstance(n, ast.Call) and M.call_name(n).endswith('context.catcode') and id(n) not in restoring:
            return 'dirty'
        if isinstance(n, ast.Call) and isinstance(n.func, ast.Attribute) and n.func.attr in ('items', 'keys') \
           and text(n.func.value) == sv and v == 'dirty':
            return 'restored'
        if isinstance(n, ast.Return):
            rets.setdefault(n.lineno, set()).add(v)
        return v
    normal, raised = flow.function_exits(fn.node, 'clean', transfer)
    bad = sorted(l for l, vs in rets.items() if 'dirty' in vs)
    for l in sorted(rets):
        if 'dirty' in rets[l] or 'restored' in rets[l]:
            chk.verdict(R, 'readArgumentAndSource :: %s' % exit_key(fn, l), 'dirty' not in rets[l],
                        'this exit can be reached with the category codes of the argument type still in force (the restore loop is not '
                        'on its path): the rest of the document is read with # ~ %% & as ordinary characters', chk.where(fn, type('L', (), {'lineno': l})()))
    chk.verdict(R, 'readArgumentAndSource :: falls off with codes restored', 'dirty' not in normal,
                'a normal exit leaves argument-type category codes in force', chk.where(fn))
