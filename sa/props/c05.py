"""C05 - Arguments are delimited, typed and bound as the signature declares.

R5.1 ParameterCommand.disable/enable balance on every normal path,
R5.2 type exhaustiveness of all `args` signatures vs TeX.argtypes,
R5.3 unit tables (dimen.__new__ vs inverse properties vs TeX constants),
R5.4 look-ahead push-back table of the optional/continuation scanners,
R5.5 radix table of readInteger and sibling-arm agreement on the optional space."""
import ast
import re

from .. import absint as A
from .. import model as M
from ..report import AnalysisError, need
from ..util import SelfHooks, text, tex_name, macro_classes


def check(chk):
    m = chk.model
    r51(chk, m)
    r52(chk, m)
    r53(chk, m)
    r54(chk, m)
    from . import shared
    shared.number_rules(chk, m, 'R5.5')
    shared.bracket_rules(chk, m, 'R5.12')
    r57(chk, m)
    from . import shared
    shared.cache_rules(chk, m, 'R5.8')
    shared.sign_rules(chk, m, 'R5.9')
    shared.grouping_rules(chk, m, 'R5.10')
    r511(chk, m)
    chk.decline('the values bound for concrete invocations (value-level)')
    chk.decline('the mandatory first-token loops of readInteger/readDecimal on a missing number, and '
                'readKeyword dropping an already expanded element after a missing unit (non-conforming calls)')


# ---------------------------------------------------------------------------
def balance_of(trace):
    """Running balance of enable (+1) / disable (-1) calls along a trace."""
    bal, lo, hi = 0, 0, 0
    for ev in trace:
        if ev[0] == 'call':
            if ev[1].endswith('ParameterCommand.enable'):
                bal += 1
            elif ev[1].endswith('ParameterCommand.disable'):
                bal -= 1
            lo, hi = min(lo, bal), max(hi, bal)
    return bal, lo, hi


class BalHooks(A.Hooks):
    def keep(self, ev):
        return ev[0] in ('call', 'return', 'raise') and (ev[0] != 'call' or 'ParameterCommand.' in ev[1])

    def call(self, interp, node, fname, args, kwargs, state):
        # enable / disable reached under another spelling (cls.disable(), an alias): recorded under the canonical name
        if not fname.endswith(('ParameterCommand.enable', 'ParameterCommand.disable')) and fname.rsplit('.', 1)[-1] in ('enable', 'disable') \
           and interp.model is not None:
            info = interp.resolve_callee(node, state)
            if info is not None and info.cls is not None and info.cls.name == 'ParameterCommand' and info.name in ('enable', 'disable'):
                interp.emit(state, ('call', 'ParameterCommand.' + info.name, (), node.lineno))
                return A.NONE
        return None


def balanced_functions(m):
    out = []
    for mod in m.modules.values():
        fns = list(mod.functions.values())
        for c in mod.classes.values():
            stack = [c]
            while stack:
                k = stack.pop()
                fns.extend(k.methods.values())
                for p in k.properties.values():
                    fns.extend(x for x in p.values() if x not in fns)
                stack.extend(k.nested.values())
        from .c04 import resolved_calls
        for f in fns:
            names = [M.call_name(c) for c in M.calls_in(f.node)]
            if any(n.endswith('ParameterCommand.enable') or n.endswith('ParameterCommand.disable') for n in names):
                out.append(f)
            elif any(cal.cls is not None and cal.cls.name == 'ParameterCommand' and cal.name in ('enable', 'disable') for c, cal in resolved_calls(m, f)):
                out.append(f)             # (reached as cls.disable() / through an alias)
    return out


def _all_functions(mod):
    fns = list(mod.functions.values())
    for c in mod.classes.values():
        stack = [c]
        while stack:
            k = stack.pop()
            fns.extend(k.methods.values())
            for p in k.properties.values():
                fns.extend(x for x in p.values() if x not in fns)
            stack.extend(k.nested.values())
    return fns


def r51(chk, m, rule_id='R5.1'):
    R = chk.rule(rule_id, 'ParameterCommand.disable()/enable() are balanced on every normal exit of every function '
                 'that calls either, private helpers being interpreted inside their callers (net 0, never positive)', 12)
    fns = balanced_functions(m)           # (private helpers of ParameterCommand itself - context managers - count as helpers below)
    need(len(fns) >= 1, 'no function calls ParameterCommand.enable/disable: anchors moved')
    # private helpers that share the bracket with their callers are interpreted inside them
    from .c04 import resolved_calls
    allf = [f for mod in m.modules.values() if 'simpletal' not in mod.name for f in _all_functions(mod)]
    callers = {}
    for f in allf:
        for c, cal in resolved_calls(m, f):
            callers.setdefault(cal.fullname, set()).add(f.fullname)
    byname = {f.fullname: f for f in allf}
    helpers = set()
    work = {f.fullname for f in fns}
    changed = True
    while changed:
        changed = False
        for name in sorted(work - helpers):
            f = byname.get(name)
            own = f is not None and f.cls is not None and f.cls.name == 'ParameterCommand'      # (a bracket that ParameterCommand itself offers)
            if f is not None and ((f.name.startswith('_') and not f.name.startswith('__')) or own) and callers.get(name):
                helpers.add(name)
                new = callers[name] - work
                work |= callers[name]
                changed = True
    fns = [byname[n] for n in sorted(work - helpers) if n in byname and not (byname[n].cls is not None and byname[n].cls.name == 'ParameterCommand')]
    need(len(fns) >= 3, 'fewer than 3 functions bracket their work with ParameterCommand.disable/enable: anchors moved')
    for fn in sorted(fns, key=lambda f: f.fullname):
        chk.analysed(fn)
        hk = BalHooks()
        hk.cls = fn.cls
        hk.should_inline = lambda fname, node, info: info is not None and info.fullname in helpers
        it = A.Interp(model=m, scope=fn, hooks=hk, max_iter=1, exc_edges=True, inline=3 if helpers else 0, generators=True)
        outs = it.run_function(fn)
        chk.paths += len(outs)
        exits = {}
        for kind, s, v in outs:
            if kind != 'return':
                continue
            bal, lo, hi = balance_of(s.trace)
            rets = [e for e in s.trace if e[0] == 'return']
            line = rets[-1][2] if rets else None
            key = exit_key(fn, line)
            exits.setdefault(key, set()).add((bal, hi, line))
        for key, vals in sorted(exits.items()):
            bad = [(b, h, l) for (b, h, l) in vals if b != 0 or h > 0]
            chk.verdict(R, '%s :: %s' % (fn.qualname, key), not bad,
                        'exit "%s" of %s leaves the ParameterCommand enable level changed by %s (enable() missing or doubled on this path)'
                        % (key, fn.qualname, sorted({b for b, h, l in bad})),
                        chk.where(fn, type('L', (), {'lineno': bad[0][2]})() if bad and bad[0][2] else None),
                        'balance 0')


def exit_key(fn, line):
    """Key an exit by the normalised text of its return statement and guard."""
    if line is None:
        return 'end of function'
    for n in M.walk_no_nested(fn.node):
        if isinstance(n, ast.Return) and n.lineno == line:
            guard = enclosing_guard(fn.node, n)
            return ('%s [%s]' % (M.norm(n), guard))[:150]
    return 'line?'


def enclosing_guard(root, node):
    """Text of the innermost enclosing if/for test of a statement."""
    best = ''
    for n in ast.walk(root):
        if isinstance(n, (ast.If, ast.For, ast.While)):
            inside = any(x is node for b in (n.body, n.orelse) for st in b for x in ast.walk(st))
            if inside:
                t = M.norm(n.test) if isinstance(n, (ast.If, ast.While)) else 'for ' + M.norm(n.target) + ' in ' + M.norm(n.iter)
                # innermost = the last one found whose range is smallest
                if not best or n.lineno >= best[1]:
                    best = (t, n.lineno)
    return best[0] if best else 'top level'


# ---------------------------------------------------------------------------
def r52(chk, m):
    R = chk.rule('R5.2', 'every type/subtype named in an `args` signature of any Macro subclass is a key of '
                 'TeX.argtypes or special-cased by readArgumentAndSource; signatures parse', 300)
    Macro = m.cls('plasTeX', 'Macro')
    argfn = m.func('plasTeX', 'Macro.arguments')
    chk.analysed(argfn)
    # the tokenising regular expression of the repository itself (a literal, or a module constant compiled from one)
    fns = [argfn] + reachable_private(m, argfn, any_name=True)       # (the parser may live in helpers or in a function of another module)
    rx = None
    for f in fns:
        for c in M.calls_in(f.node):
            nm = M.call_name(c)
            pat = None
            if nm == 're.split' and c.args:
                pat = m.eval_const(f, c.args[0])
            elif nm.endswith('.split') and isinstance(c.func.value, ast.Name):
                r = m.resolve_name(f, c.func.value.id)
                if isinstance(r, tuple) and r[0] == 'assign' and isinstance(r[2][-1], ast.Call) and M.call_name(r[2][-1]) == 're.compile' and r[2][-1].args:
                    pat = m.eval_const(r[1], r[2][-1].args[0])
            if isinstance(pat, str) and '\\w' in pat:
                need(rx is None or rx.pattern == pat, 'Macro.arguments: more than one tokenising regular expression')
                rx = re.compile(pat)
    need(rx is not None, 'Macro.arguments: the regular expression that splits the signature was not found')
    groupings = None
    cands = []
    for f in fns:
        for n in M.walk_no_nested(f.node):
            if isinstance(n, (ast.Dict, ast.DictComp)) or (isinstance(n, ast.Call) and M.call_name(n) == 'dict'):
                cands.append(m.eval_const(f, n))
            elif isinstance(n, ast.Name) and isinstance(n.ctx, ast.Load):
                r = m.resolve_name(f, n.id)
                if isinstance(r, tuple) and r[0] == 'assign' and isinstance(r[2][-1], (ast.Dict, ast.DictComp, ast.Call)):
                    cands.append(m.eval_const(r[1], r[2][-1]))
    for k_ in {f.cls for f in fns if f.cls is not None and f.cls is not Macro}:
        for exprs in k_.assigns.values():            # (a table kept as a class attribute of a helper class)
            if isinstance(exprs[-1], (ast.Dict, ast.DictComp)):
                cands.append(m.eval_const(k_, exprs[-1]))
    for v in cands:
        if isinstance(v, dict) and v and all(isinstance(k, str) and len(k) == 1 and k in '[(<{' for k in v):
            groupings = v
    need(isinstance(groupings, dict), 'Macro.arguments: groupings table not found')
    for k, v in sorted(groupings.items()):
        chk.verdict(R, 'groupings[%r]' % k, isinstance(v, str) and len(v) == 2 and v[0] == k and v[1] in ')]>}',
                    'grouping %r maps to %r (must be the opener followed by its closer)' % (k, v), chk.where(argfn))
    # known types: the argtypes table
    known = set()
    TeXc = m.cls('plasTeX.TeX', 'TeX')
    for f in list(TeXc.methods.values()):
        for n in M.walk_no_nested(f.node):
            if isinstance(n, ast.Assign) and text(n.targets[0]).endswith('argtypes') and isinstance(n.value, ast.Dict):
                for k in n.value.keys:
                    if isinstance(k, ast.Constant) and isinstance(k.value, str):
                        known.add(k.value)
    need(len(known) >= 15, 'TeX.argtypes literal not found')
    ras = m.func('plasTeX.TeX', 'TeX.readArgumentAndSource')
    special_cache = {}

    def special(tname):
        """A type outside argtypes is handled iff readArgumentAndSource(type=tname) never reaches the generic cast()."""
        if tname not in special_cache:
            h = SelfHooks(m, TeXc)
            h.keep = lambda ev: (ev[0] == 'call' and ev[1] == 'self.cast') or ev[0] == 'return'
            h.should_inline = A.private_only
            it = A.Interp(model=m, scope=ras, hooks=h, max_iter=1, exc_edges=False, inline=2, max_states=20000)
            env = {a.arg: A.TOP for a in ras.node.args.args[1:] + ras.node.args.kwonlyargs}
            env.update({'type': tname, 'spec': None, 'stripLeadingWhitespace': False, 'charsubs': [], 'expanded': False})
            try:
                outs = it.run_function(ras, env=env)
                special_cache[tname] = {e[2] for kind, s2, v in outs if kind == 'return' and not any(x[0] == 'call' for x in s2.trace)
                                        for e in s2.trace[-1:] if e[0] == 'return'}
            except AnalysisError:
                special_cache[tname] = None
        if tname == 'NoSuchType' or special_cache[tname] is None or special_cache.get('NoSuchType') is None:
            return special_cache[tname]
        if 'NoSuchType' not in special_cache:
            special('NoSuchType')
        # exits that only this type name reaches (before the generic conversion)
        return bool(special_cache[tname] - special_cache['NoSuchType'])
    need(special('NoSuchType') is not None and special('Dimen') is True and special('Args') is True and special('NoSuchTypeEither') is False,
         'readArgumentAndSource: special-cased argument types are not recognised (Dimen %s, Args %s, unknown %s)'
         % (special('Dimen'), special('Args'), special('NoSuchTypeEither')))
    # 'self' is handled like an ordinary argument name; all signatures
    n_typed = 0
    for c in macro_classes(m):
        if 'args' not in c.assigns:
            continue
        v = m.eval_const(c, c.assigns['args'][-1])
        if M.is_unknown(v) or v is None:
            continue
        if not isinstance(v, str):
            chk.fail(R, 'args of %s' % c.fullname, 'args is not a string: %r' % (v,), chk.where(c))
            continue
        try:
            types = parse_args(rx, v)
        except ValueError as e:
            chk.fail(R, 'args of %s' % c.fullname, 'signature %r does not parse: %s' % (v, e), chk.where(c))
            continue
        if not types:
            continue
        bad = sorted({t for t in types if t not in known and special(t) is not True})
        n_typed += len(types)
        chk.verdict(R, 'args of %s' % c.fullname, not bad,
                    'signature %r names unknown argument type(s) %s: cast() would silently return raw tokens' % (v, bad),
                    chk.where(c), '%r: types %s' % (v, sorted(set(types))))
    chk.note('typed arguments checked: %d; known types: %d argtypes + special-cased %s' % (n_typed, len(known), sorted(k for k in special_cache if k != 'NoSuchType' and special(k) is True)))
    chk.call_sites += n_typed


def reachable_private(m, fn, depth=3, any_name=False):
    """Private helpers (module functions / methods of the class) reachable from fn through resolved calls; any_name: public ones too."""
    from .c04 import resolved_calls
    out, seen, todo = [], {fn.fullname}, [(fn, 0)]
    while todo:
        f, d = todo.pop()
        if d >= depth:
            continue
        for c, callee in resolved_calls(m, f):           # ClassName._helper(...), module functions, methods through self
            if callee.fullname not in seen and (any_name or (callee.name.startswith('_') and not callee.name.startswith('__'))):
                seen.add(callee.fullname)
                out.append(callee)
                todo.append((callee, d + 1))
        for c in M.calls_in(f.node):
            if isinstance(c.func, (ast.Name, ast.Attribute)):
                try:
                    k = m.resolve_expr(f, c.func)
                except Exception:
                    k = None
                if isinstance(k, M.ClassInfo) and (any_name or re.match(r'_[A-Za-z]', k.name)):
                    # a helper class made here: its methods are part of the computation
                    for meth in k.methods.values():
                        if meth.fullname not in seen:
                            seen.add(meth.fullname)
                            out.append(meth)
                            todo.append((meth, d + 1))
        for c in M.calls_in(f.node):
            callee = None
            fx = c.func
            if isinstance(fx, ast.Attribute) and isinstance(fx.value, ast.Name) and fx.value.id in ('self', 'cls', 'tself') and f.cls is not None:
                callee = m.find_method(f.cls, fx.attr)
            elif isinstance(fx, ast.Name):
                r = m.resolve_name(f, fx.id)
                if isinstance(r, M.FunctionInfo):
                    callee = r
            if callee is not None and callee.fullname not in seen and callee.name.startswith('_') and not callee.name.startswith('__'):
                seen.add(callee.fullname)
                out.append(callee)
                todo.append((callee, d + 1))
    return out


def parse_args(rx, args):
    """Mirror of the type extraction in Macro.arguments (tokenised with the
    repository's own regular expression)."""
    items = [x.strip() for x in rx.split(args) if x is not None and x.strip()]
    types = []
    havetype = False
    for item in items:
        if item in '*+-' or item in '=':
            havetype = False
        elif item in '[(<{':
            havetype = False
        elif item in '])>}':
            pass
        elif item[0].isalpha() and item[0].isascii():
            parts = item.split(':')
            parts.pop(0)
            if parts:
                if havetype:
                    types.append(parts.pop(0))
                else:
                    mm = re.search(r'(\w+)(?:\((\W)\))?', parts.pop(0))
                    types.append(mm.group(1))
                    if parts:
                        types.append(parts.pop(0))
            havetype = False
        else:
            raise ValueError('unexpected %r' % item)
    return types


# ---------------------------------------------------------------------------
PT = 65536.0
INCH = 72.27 * PT
TEX_UNITS = {'pt': PT, 'pc': 12 * PT, 'in': INCH, 'bp': INCH / 72, 'cm': INCH / 2.54, 'mm': INCH / 25.4,
             'dd': 1238.0 * PT / 1157, 'cc': 12 * 1238.0 * PT / 1157, 'sp': 1.0}
FIL = {'fil': 2e9, 'fill': 4e9, 'filll': 6e9}


def r53(chk, m):
    R = chk.rule('R5.3', 'dimen("<n><unit>") (abstract interpretation on concrete strings): every unit of dimen.units/mudimen.units '
                 'is converted with TeX\'s constant, the inverse property gives the number back, fil orders are the +-2e9/4e9/6e9 '
                 'bands and are decoded by the same bands, glue components after the dimension are ignored', 9 + 3 + 2)
    dimen = m.cls('plasTeX', 'dimen')
    mudimen = m.cls('plasTeX', 'mudimen')
    new = m.find_method(dimen, '__new__')
    chk.analysed(new)
    units = m.class_const(dimen, 'units')
    muunits = m.class_const(mudimen, 'units')
    need(isinstance(units, list) and len(units) >= 9 and isinstance(muunits, list), 'dimen.units / mudimen.units are not foldable lists')

    class H(SelfHooks):
        def call(self, interp, node, fname, args, kwargs, state):
            if fname == 'isinstance' and len(args) == 2:
                t = text(node.args[1])
                if t == 'str':
                    return isinstance(args[0], str)
                if t in ('Macro', 'plasTeX.Macro'):
                    return False
            if fname in ('float.__new__', 'super().__new__', 'super(dimen, cls).__new__') and args:
                return args[-1]
            return None

        def keep(self, ev):
            return False

    def convert(textval):
        h = H(m, dimen)
        h.should_inline = A.private_only
        it = A.Interp(model=m, scope=new, hooks=h, max_iter=14, exc_edges=False, inline=3, heap=True, precise_exc=True)
        outs = it.run_function(new, env={'cls': dimen, 'v': textval})
        chk.paths += len(outs)
        return {(kind, round(v, 3) if isinstance(v, float) else (v if isinstance(v, int) else repr(v))) for kind, s2, v in outs}

    def inverse(u, value):
        name = {'in': '_in'}.get(u, u)
        f = dimen.properties.get(name, {}).get('get') if name in dimen.properties else None
        if f is None:
            return None
        hk = H(m, dimen)
        hk.should_inline = A.private_only
        it = A.Interp(model=m, scope=f, hooks=hk, max_iter=4, exc_edges=False, inline=3, heap=True, precise_exc=True)
        outs = it.run_function(f, env={'self': value})
        vals = {round(v, 6) if isinstance(v, float) else v for kind, s2, v in outs if kind == 'return'}
        return vals.pop() if len(vals) == 1 else None
    for u in units + [x for x in muunits if x not in units]:
        got = convert('2' + u)
        if u in TEX_UNITS:
            want = {('return', round(2 * TEX_UNITS[u], 3))}
            chk.decide(R, 'unit %s' % u, got, want, 'dimen("2%s") gives %s, TeX: %s scaled points' % (u, sorted(got, key=repr), 2 * TEX_UNITS[u]), chk.where(new))
        elif u == 'mu':
            chk.decide(R, 'unit mu', got, {('return', 2.0)}, 'dimen("2mu") gives %s, expected 2.0 (math units are kept as written)' % sorted(got, key=repr), chk.where(new))
        else:
            vals = [v for k, v in got if k == 'return' and isinstance(v, (int, float))]
            back = inverse(u, vals[0]) if len(got) == 1 and vals else None
            if back is None:
                chk.undecided(R, 'unit %s (writer/reader agreement only)' % u, 'dimen("2%s") gives %s; the %s property of that is not determined' % (u, sorted(got, key=repr), u), chk.where(new))
            else:
                chk.verdict(R, 'unit %s (writer/reader agreement only)' % u, back == 2.0,
                            'dimen("2%s") gives %s and the %s property turns that into %r (expected 2.0)' % (u, sorted(got, key=repr), u, back), chk.where(new))
        if u in TEX_UNITS and u != 'sp':
            back = inverse(u, 2 * TEX_UNITS[u])
            if back is None:
                chk.undecided(R, 'unit %s inverse property' % u, 'the %s property of 2%s in scaled points is not determined' % (u, u), chk.where(dimen))
            else:
                chk.verdict(R, 'unit %s inverse property' % u, abs(back - 2.0) < 1e-6,
                            'the %s property of 2%s in scaled points gives %r (expected 2.0)' % (u, u, back), chk.where(dimen))
    for u, band in FIL.items():
        for sign in (1, -1):
            got = convert('%d%s' % (2 * sign, u))
            chk.decide(R, 'fil order %s (%s)' % (u, 'positive' if sign > 0 else 'negative'), got, {('return', round(sign * (2 + band), 3))},
                       'dimen("%d%s") gives %s, expected %r (the order is encoded by the +-%g band)' % (2 * sign, u, sorted(got, key=repr), sign * (2 + band), band), chk.where(new))
    got = convert('1pt plus 2pt minus 3pt')
    chk.decide(R, 'glue components are ignored', got, {('return', 65536.0)},
               'dimen("1pt plus 2pt minus 3pt") gives %s, expected 65536.0' % sorted(got, key=repr), chk.where(new))
    # decoding bands in fill / source
    for prop in ('fill', 'source'):
        f = dimen.properties.get(prop, {}).get('get') if prop in dimen.properties else m.find_method(dimen, prop)
        need(f is not None, 'dimen.%s not found' % prop)
        chk.analysed(f)
        res = {}
        for u, band in FIL.items():
            for sign in (1, -1):
                hk = H(m, dimen)
                hk.should_inline = A.private_only
                it = A.Interp(model=m, scope=f, hooks=hk, max_iter=4, exc_edges=False, inline=4, heap=True, precise_exc=True)
                outs = it.run_function(f, env={'self': sign * (2 + band)})
                res[(u, sign)] = {v if not isinstance(v, float) else round(v, 6) for kind, s2, v in outs if kind == 'return'}
        if prop == 'fill':
            ok = all(res[(u, sg)] == {2.0 * sg} for u in FIL for sg in (1, -1))
        else:
            ok = all(res[(u, sg)] == {'%s%s' % (2.0 * sg, u)} for u in FIL for sg in (1, -1))
        if not ok and any(not v or any(x is A.TOP or isinstance(x, A.Sym) for x in v) for v in res.values()):
            chk.undecided(R, 'dimen.%s decodes the fil bands' % prop, 'dimen.%s of +-(2 + band) is not determined: %s' % (prop, {k: sorted(map(repr, v)) for k, v in res.items()}), chk.where(f))
            continue
        chk.verdict(R, 'dimen.%s decodes the fil bands' % prop, ok,
                    'dimen.%s of +-(2 + band) gives %s; expected the amount 2 %s' % (prop, {k: sorted(map(repr, v)) for k, v in res.items()},
                                                                                 'back' if prop == 'fill' else 'followed by the unit name'), chk.where(f))


# ---------------------------------------------------------------------------
ELEMENT = 1
TEXT = 3
CC_SPACE, CC_LETTER, CC_OTHER = 10, 11, 12


def tok(label, char, catcode=CC_OTHER, element=False, cls=None):
    attrs = {'nodeType': ELEMENT if element else TEXT, 'ELEMENT_NODE': ELEMENT, 'catcode': catcode,
             'char': char, 'distinct': True}
    return A.Sym(label, truthy=True, attrs=attrs, cls=cls)


class ScanHooks(SelfHooks):
    """Feeds one abstract token to the first stream loop of a scanner."""

    def __init__(self, model, cls, stream, env_names=()):
        SelfHooks.__init__(self, model, cls)
        self.stream = stream

    def call(self, interp, node, fname, args, kwargs, state):
        if fname in ('self.itertokens',):
            return A.Sym('stream')
        if fname == 'iter' and len(args) == 1 and isinstance(args[0], A.Sym) and args[0].label == 'stream':
            return args[0]
        if fname == 'next' and args and isinstance(args[0], A.Sym) and args[0].label == 'stream':
            pos = state.env.get('__pos', 0)
            if pos < len(self.stream):
                state.env['__pos'] = pos + 1
                return self.stream[pos]
            if len(args) > 1:
                return A.NONE if args[1] is None else args[1]
            state.env['__exc'] = 'StopIteration'
            return A.TOP
        if fname == 'str' and len(args) == 1:
            if isinstance(args[0], A.Sym) and 'char' in args[0].attrs:
                return args[0].attrs['char']
            if isinstance(args[0], A.Inst) and args[0].args and isinstance(args[0].args[0], str):
                return args[0].args[0]
        if fname.endswith('.upper') and isinstance(node.func, ast.Attribute):
            base = interp.ev(node.func.value, state)
            if isinstance(base, A.Sym) and 'char' in base.attrs:
                return base.attrs['char'].upper()
        if fname in ('self.readOptionalSpaces', 'self.readOptionalSigns', 'self.readOneOptionalSpace',
                     'self.readSequence', 'self.readKeyword', 'self.readDecimal', 'self.readInteger',
                     'self.readUnitOfMeasure', 'self.readDimen'):
            state.env['__sub'] = state.env.get('__sub', ()) + (fname,)
            if fname == 'self.readOptionalSigns':
                return 1
            if fname == 'self.readSequence':
                return ''
            return A.TOP
        return None

    def lookup(self, interp, name, state):
        if name == 'self':
            return A.Sym('stream')
        return SelfHooks.lookup(self, interp, name, state)

    def iter_item(self, interp, loop, k, state):
        r = self.take(interp, interp.ev(loop.iter, state), state)
        return None if r is NotImplemented else r

    def take(self, interp, it, state):
        if isinstance(it, A.Sym) and it.label == 'stream':
            pos = state.env.get('__pos', 0)
            if pos >= len(self.stream):
                return A.STOP
            state.env['__pos'] = pos + 1
            return self.stream[pos]
        return NotImplemented

    def decide(self, interp, test, state):
        # comparisons of an abstract character token with strings / sets
        if isinstance(test, ast.Compare) and len(test.ops) == 1:
            l = interp.ev(test.left, state)
            r = interp.ev(test.comparators[0], state)
            op = test.ops[0]
            if isinstance(l, A.Sym) and 'char' in l.attrs:
                ch = l.attrs['char']
                if isinstance(r, A.Inst) and r.args and isinstance(r.args[0], str):
                    r = r.args[0]
                if isinstance(op, (ast.Eq, ast.NotEq)) and isinstance(r, str):
                    res = (ch == r) and not l.attrs.get('nodeType') == ELEMENT
                    return res if isinstance(op, ast.Eq) else not res
                if isinstance(op, (ast.In, ast.NotIn)) and isinstance(r, str) and not isinstance(r, M._StringLetters):
                    res = ch != '' and ch in r
                    return res if isinstance(op, ast.In) else not res
                if isinstance(op, (ast.In, ast.NotIn)) and isinstance(r, A.Sym) and r.label == 'chars':
                    res = bool(l.attrs.get('inset'))
                    return res if isinstance(op, ast.In) else not res
                if isinstance(op, (ast.Is, ast.IsNot)) and r is None:
                    return isinstance(op, ast.IsNot)
        return None


def dispositions(trace, token):
    """How was `token` disposed of: pushed back / kept (appended or returned)."""
    pushed = kept = 0
    for ev in trace:
        if ev[0] == 'call' and ev[1] in ('self.pushToken',) and token in ev[2]:
            pushed += 1
        elif ev[0] == 'call' and ev[1] == 'self.pushTokens':
            pushed += 1 if '__matched_has_token' else 0
        elif ev[0] == 'call' and ev[1].endswith('.append') and token in ev[2]:
            kept += 1
        elif ev[0] == 'return' and (ev[1] == token or isinstance(ev[1], tuple) and token in ev[1]):
            kept += 1
    return pushed, kept


def r54(chk, m):
    R = chk.rule('R5.4', 'optional/continuation scanners: a character token that fails the acceptance test is pushed '
                 'back before the loop is left; an accepted one is consumed exactly once (table per scanner x token kind)', 20)
    TeX = m.cls('plasTeX.TeX', 'TeX')
    space = lambda: tok('SPACE', ' ', CC_SPACE)
    other = lambda: tok('X', 'x', CC_LETTER)
    elem = lambda: tok('ELEM', '', CC_OTHER, element=True)
    plus, minus = (lambda: tok('PLUS', '+')), (lambda: tok('MINUS', '-'))
    digit_in = lambda: A.Sym('DIGIT', truthy=True, attrs=dict(tok('D', '7').attrs, inset=True))

    def run(fname, stream, env=None, kw=None):
        fn = m.func('plasTeX.TeX', 'TeX.' + fname)
        chk.analysed(fn)
        hooks = ScanHooks(m, TeX, stream)
        hooks.should_inline = A.private_only
        it = A.Interp(model=m, scope=fn, hooks=hooks, max_iter=len(stream) + 1, exc_edges=False, heap=True, precise_exc=True, inline=3)
        outs = it.run_function(fn, env=env or {})
        chk.paths += len(outs)
        return fn, outs

    def expect(fname, label, stream, want, env=None, subject=-1):
        """want: 'pushed' | 'consumed' for the subject token of the stream."""
        fn, outs = run(fname, stream, env)
        t = stream[subject]
        res = set()
        for kind, s, v in outs:
            if kind != 'return':
                continue
            pushed = sum(1 for ev in s.trace if ev[0] == 'call' and ev[1] == 'self.pushToken' and t in ev[2])
            lists = [ev for ev in s.trace if ev[0] == 'call' and ev[1] == 'self.pushTokens']
            for ev in lists:
                # pushTokens(matched): the list value at the time of the call
                pass
            pushed += s.env.get('__listpush_%s' % t.label, 0)
            res.add('pushed' if pushed == 1 else ('consumed' if pushed == 0 else 'pushed x%d' % pushed))
        chk.verdict(R, '%s :: %s' % (fname, label), res == {want},
                    '%s: a %s is %s, the scanner contract requires %s (text following the invocation would be lost or duplicated)'
                    % (fname, label, sorted(res), want), chk.where(fn), str(sorted(res)))

    expect('readOptionalSpaces', 'space', [space()], 'consumed')
    expect('readOptionalSpaces', 'non-space character', [other()], 'pushed')
    expect('readOptionalSpaces', 'space then non-space character', [space(), other()], 'pushed')
    expect('readOptionalSpaces', 'expanded element', [elem()], 'pushed')
    expect('readOneOptionalSpace', 'space', [space()], 'consumed')
    expect('readOneOptionalSpace', 'non-space character', [other()], 'pushed')
    expect('readOneOptionalSpace', 'second space', [space(), space()], 'consumed', subject=0)
    expect('readOneOptionalSpace', 'expanded element', [elem()], 'pushed')
    expect('readOptionalSigns', 'plus sign', [plus()], 'consumed')
    expect('readOptionalSigns', 'minus sign', [minus()], 'consumed')
    expect('readOptionalSigns', 'character after signs', [minus(), other()], 'pushed')
    expect('readOptionalSigns', 'space between signs', [minus(), space(), minus()], 'consumed', subject=1)
    expect('readOptionalSigns', 'sign after a space', [minus(), space(), minus()], 'consumed', subject=2)
    expect('readOptionalSigns', 'expanded element', [elem()], 'pushed')
    expect('readSequence', 'character of the set', [digit_in()], 'consumed', env={'chars': A.Sym('chars'), 'optspace': True})
    expect('readSequence', 'character outside the set', [digit_in(), other()], 'pushed', env={'chars': A.Sym('chars'), 'optspace': True})
    expect('readSequence', 'one optional space (optspace)', [digit_in(), space()], 'consumed', env={'chars': A.Sym('chars'), 'optspace': True})
    expect('readSequence', 'space without optspace', [digit_in(), space()], 'pushed', env={'chars': A.Sym('chars'), 'optspace': False})
    expect('readSequence', 'expanded element', [digit_in(), elem()], 'pushed', env={'chars': A.Sym('chars'), 'optspace': True})
    expect('readCharacter', 'the expected character', [tok('C', '*')], 'consumed', env={'char': '*'})
    expect('readCharacter', 'another character', [other()], 'pushed', env={'char': '*'})

    # readKeyword: every partially matched character goes back
    fn = m.func('plasTeX.TeX', 'TeX.readKeyword')
    chk.analysed(fn)
    for label, stream, words, want_push in (
            ('mismatch on first letter', [tok('Q', 'q', CC_LETTER)], ['pt'], 1),
            ('mismatch on second letter', [tok('P', 'p', CC_LETTER), tok('Q', 'q', CC_LETTER)], ['pt'], 2),
            ('full match', [tok('P', 'p', CC_LETTER), tok('T', 't', CC_LETTER)], ['pt'], 0)):
        hooks = ScanHooks(m, TeX, stream)
        hooks.should_inline = A.private_only
        it = A.Interp(model=m, scope=fn, hooks=hooks, max_iter=3, exc_edges=False, heap=True, precise_exc=True, inline=3)
        outs = it.run_function(fn, env={'words': words, 'optspace': True})
        chk.paths += len(outs)
        res = set()
        for kind, s, v in outs:
            n = 0
            for ev in s.trace:
                if ev[0] == 'call' and ev[1] == 'self.pushTokens':
                    n += s.env.get('__pushlen', 0)
            # matched list is concrete in the environment
            matched = s.env.get('matched')
            pushes = [ev for ev in s.trace if ev[0] == 'call' and ev[1] == 'self.pushTokens']
            res.add((len(pushes), len(matched) if isinstance(matched, list) else -1, repr(v)))
        if want_push == 0:
            ok = all(r[2] == repr('pt') for r in res) and len(res) == 1
        else:
            ok = len(res) == 1 and all(r[0] >= 1 and r[1] == want_push and r[2] == 'None' for r in res)
        chk.verdict(R, 'readKeyword :: %s' % label, ok,
                    'readKeyword(%s) on %s: (pushTokens calls, characters handed back, result) = %s' % (words, [t.label for t in stream], sorted(res)),
                    chk.where(fn), str(sorted(res)))


# ---------------------------------------------------------------------------
def r55(chk, m):
    R = chk.rule('R5.5', 'readInteger radix table: \' -> base 8 over octdigits, " -> base 16 over hexdigits, ` -> ord of the '
                 'next token, digits -> base 10; every arm consumes the one optional space', 4)
    fn = m.func('plasTeX.TeX', 'TeX.readInteger')
    chk.analysed(fn)
    arms = {}
    for n in ast.walk(fn.node):
        if isinstance(n, ast.If):
            t = n.test
            key = None
            if isinstance(t, ast.Compare) and text(t.left) == 't' and isinstance(t.ops[0], ast.Eq) and isinstance(t.comparators[0], ast.Constant):
                key = t.comparators[0].value
            elif isinstance(t, ast.Compare) and text(t.left) == 't' and isinstance(t.ops[0], ast.In) and text(t.comparators[0]) == 'string.digits':
                key = 'digits'
            if key is not None:
                arms[key] = n.body
    def info(body):
        src = ' '.join(text(s) for s in body)
        calls = [c for s in body for c in ast.walk(s) if isinstance(c, ast.Call)]
        seq = [c for c in calls if M.call_name(c) == 'self.readSequence']
        sets = [text(c.args[0]) for c in seq if c.args]
        opt = any(any(k.arg == 'optspace' and text(k.value) == 'optspace' for k in c.keywords) for c in seq) or \
            any(M.call_name(c) == 'self.readOneOptionalSpace' for c in calls)
        base = None
        for c in calls:
            if M.call_name(c) == 'int' and len(c.args) == 2:
                base = m.eval_const(fn, c.args[1])
            elif M.call_name(c) == 'int' and len(c.args) == 1:
                base = 10
        has_ord = any(M.call_name(c) == 'ord' for c in calls)
        sign = src.count('sign *')
        return sets, opt, base, has_ord, sign
    table = {"'": (['string.octdigits'], 8, False), '"': (['string.hexdigits'], 16, False),
             'digits': (['string.digits'], 10, False), '`': ([], None, True)}
    for key, (wsets, wbase, word) in table.items():
        body = arms.get(key)
        if body is None:
            chk.fail(R, 'readInteger arm %s' % key, 'no arm for constants introduced by %r' % key, chk.where(fn))
            continue
        sets, opt, base, has_ord, sign = info(body)
        ok = sets == wsets and base == wbase and has_ord == word and opt and sign == 1
        chk.verdict(R, 'readInteger arm %s' % key, ok,
                    'arm %r: digit set %s (want %s), base %r (want %r), ord %s, consumes one optional space: %s, sign applied %d time(s)'
                    % (key, sets, wsets, base, wbase, has_ord, opt, sign), chk.where(fn),
                    'set %s base %r optspace %s' % (sets, base, opt))


# ---------------------------------------------------------------------------
def r56(chk, m, rule_id='R5.6'):
    R = chk.rule(rule_id, 'numeric scanners apply the sign read by readOptionalSigns exactly once to every value they '
                 'return (constants, registers, coerced values)', 10)
    for fname in ('readInteger', 'readDecimal', 'readDimen', 'readGlue', 'readMuGlue'):
        fn = m.func('plasTeX.TeX', 'TeX.' + fname)
        chk.analysed(fn)
        signvars = [text(n.targets[0]) for n in M.walk_no_nested(fn.node)
                    if isinstance(n, ast.Assign) and isinstance(n.value, ast.Call) and M.call_name(n.value) == 'self.readOptionalSigns']
        need(len(signvars) == 1, '%s no longer reads its sign through readOptionalSigns' % fname)
        sv = signvars[0]
        assigns = {}
        for n in M.walk_no_nested(fn.node):
            if isinstance(n, ast.Assign) and isinstance(n.targets[0], ast.Name):
                assigns.setdefault(n.targets[0].id, []).append(n)

        def uses(expr, depth=0):
            """number of times the sign reaches the value of expr"""
            names = [x.id for x in ast.walk(expr) if isinstance(x, ast.Name)]
            n = names.count(sv)
            return n

        def value_sites(expr, seen=()):
            """(site node, count) for every expression that defines the returned value"""
            if isinstance(expr, ast.Name) and expr.id in assigns and expr.id not in seen and expr.id != sv:
                out = []
                for a in assigns[expr.id]:
                    if isinstance(a.value, ast.Constant) and a.value.value is None:
                        continue
                    selfref = [x for x in ast.walk(a.value) if isinstance(x, ast.Name) and x.id == expr.id]
                    if selfref:
                        continue      # refinement of an already signed value (num * register)
                    out.extend(value_sites(a.value, seen + (expr.id,)))
                return out
            # a product/constructor: the sign may come through a local variable
            cnt = uses(expr)
            for x in ast.walk(expr):
                if isinstance(x, ast.Name) and x.id in assigns and x.id != sv and x.id not in seen:
                    for a in assigns[x.id]:
                        cnt += uses(a.value)
            return [(expr, cnt)]

        for r in M.walk_no_nested(fn.node):
            if not isinstance(r, ast.Return) or r.value is None:
                continue
            src = text(r.value)
            if re.fullmatch(r'(number|float|dimen|glue)\(0\)|0|0\.0', src):
                chk.ok(R, '%s :: return %s' % (fname, src), 'missing-number recovery returns zero')
                continue
            for site, cnt in value_sites(r.value):
                chk.verdict(R, '%s :: %s' % (fname, M.norm(site)), cnt == 1,
                            '%s returns %s in which the sign read by readOptionalSigns is applied %d time(s) (must be exactly once)'
                            % (fname, M.norm(site), cnt), chk.where(fn, site), 'sign applied once')


# ---------------------------------------------------------------------------
def r57(chk, m, rule_id='R5.7'):
    R = chk.rule(rule_id, 'category codes changed for an argument type (url: # ~ % & become ordinary) are restored on every '
                 'normal exit of readArgumentAndSource, including the one for an absent optional argument (abstract '
                 'interpretation with a two-entry catcode table)', 2)
    fn = m.func('plasTeX.TeX', 'TeX.readArgumentAndSource')
    chk.analysed(fn)
    TeXc = m.cls('plasTeX.TeX', 'TeX')
    OLD = {'#': 6, '~': 13}

    class H(SelfHooks):
        def __init__(self, model, cls, present):
            SelfHooks.__init__(self, model, cls)
            self.present = present

        def call(self, interp, node, fname, args, kwargs, state):
            if fname.endswith('context.whichCode') and len(args) == 1:
                # the code in force at the moment of the question (a saved value that is computed late sees the new codes)
                cur = dict(OLD)
                cur.update(dict(state.env.get('__codes', ())))
                return cur.get(args[0], A.TOP)
            if fname.endswith('context.catcode') and len(args) == 2:
                state.env['__codes'] = state.env.get('__codes', ()) + ((args[0], args[1]),)
                return A.NONE
            if fname in ('self.readToken', 'self.readGrouping', 'self.readCharacter'):
                return ([A.Sym('tok')], 'src') if self.present else (None, '')
            if fname == 'self.cast':
                return A.Sym('value')
            if fname == 'isinstance' and len(args) == 2 and isinstance(args[0], tuple):
                return True
            return None

        def keep(self, ev):
            return False
    for label, present, spec in (('argument present', True, None), ('optional argument absent', False, '[]'), ('optional argument present', True, '[]')):
        h = H(m, TeXc, present)
        h.should_inline = A.private_only
        it = A.Interp(model=m, scope=fn, hooks=h, max_iter=3, exc_edges=False, inline=3, heap=True, precise_exc=True)
        env = {a.arg: None for a in fn.node.args.args[1:] + fn.node.args.kwonlyargs}
        # the context is a scripted object: whichCode / catcode are answered by the hooks however they are reached
        ctx = A.Obj('context', {'whichCode': A.Sym('extfunc:the.context.whichCode', truthy=True), 'catcode': A.Sym('extfunc:the.context.catcode', truthy=True)})
        me = A.Obj('tex', {'argtypes': {'url': ('cast-url', {'#': 12, '~': 12})}, 'ownerDocument': A.Obj('document', {'context': ctx})}, cls=TeXc)
        env.update({'type': 'url', 'spec': spec, 'delim': ',', 'expanded': False, 'stripLeadingWhitespace': False, 'charsubs': [],
                    'default': A.Sym('default'), 'self': me})
        outs = it.run_function(fn, env=env)
        chk.paths += len(outs)
        got = set()
        for kind, s2, v in outs:
            if kind != 'return':
                continue
            final = dict(OLD)
            seen = False
            for k, val in s2.env.get('__codes', ()):
                final[k] = val
                seen = True
            got.add('codes never changed' if not seen else ('restored' if final == OLD else 'left as %s' % sorted(final.items())))
        if it.imprecise or it.unknown_branches:
            chk.undecided(R, 'readArgumentAndSource :: %s' % label, '; '.join(sorted(set(list(it.imprecise) + list(it.unknown_branches)))[:3]), chk.where(fn))
            continue
        chk.decide(R, 'readArgumentAndSource :: %s' % label, got, {'restored'},
                   'reading an argument of a type with its own category codes (%s): on return the codes are %s; expected the codes '
                   'in force before the argument - otherwise the rest of the document is read with # ~ %% & as ordinary characters'
                   % (label, sorted(got)), chk.where(fn))


# ---------------------------------------------------------------------------
def r511(chk, m):
    """Typed list / dictionary arguments: the splitters interpreted on character tokens."""
    from .. import absint as A2
    from . import domheap as D
    R = chk.rule('R5.11', 'list- and dictionary-typed arguments, interpreted on character tokens: items are split at the delimiter outside '
                 'braces; in a dictionary `k=v` binds the text of v, `k=` binds the empty text, a bare `k` binds True, keys and values '
                 'keep their order and nothing of the argument is dropped', 8)
    TeX = m.cls('plasTeX.TeX', 'TeX')

    class H(D.DomHooks):
        def lookup(self, interp, name, state):
            return {'Token.CC_BGROUP': 1, 'Token.CC_EGROUP': 2, 'Token.CC_SPACE': 10, 'Token.CC_LETTER': 11, 'Token.CC_OTHER': 12}.get(name)

        def call(self, interp, node, fname, args, kwargs, state):
            if fname == 'self.normalize' and len(args) == 1:
                v = args[0]
                if v is None:
                    return A2.NONE
                if isinstance(v, list) and all(isinstance(x, str) for x in v):
                    return ''.join(str(x) for x in v)
                return A2.TOP
            if fname == 'self.cast' and args:
                return A2.NONE if args[0] is None else args[0]
            return D.DomHooks.call(self, interp, node, fname, args, kwargs, state)

    def toks(text_):
        out = []
        for c in text_:
            cc = 1 if c == '{' else 2 if c == '}' else 10 if c == ' ' else 11 if c.isalpha() else 12
            out.append(A2.TextObj(c, label=c, catcode=cc, nodeType=3, __eqkey=('tok', cc, c)))
        return out
    cases = [('castDictionary', 'a=1,b,c=', {}, "{'a': '1', 'b': True, 'c': ''}"),
             ('castDictionary', 'k=', {}, "{'k': ''}"),
             ('castDictionary', 'k', {}, "{'k': True}"),
             ('castDictionary', 'a={x,y},b=2', {}, "{'a': '{x,y}', 'b': '2'}"),
             ('castDictionary', 'a=1;b=', {'delim': ';'}, "{'a': '1', 'b': ''}"),
             ('castDictionary', 'x=,y', {}, "{'x': '', 'y': True}"),
             ('castList', 'a,b,,c', {}, "['a', 'b', '', 'c']"),
             ('castList', 'a,{b,c},d', {}, "['a', '{b,c}', 'd']")]
    for fname, arg, kw, want in cases:
        fn = m.find_method(TeX, fname)
        need(fn is not None, 'TeX.%s not found' % fname)
        chk.analysed(fn)
        it = A2.Interp(model=m, scope=fn, hooks=H(m, TeX), max_iter=len(arg) + 4, exc_edges=False, inline=3, heap=True, precise_exc=True)
        it.h.should_inline = A2.private_only
        env = {'self': A2.Obj('tex', {}, cls=TeX), 'tokens': toks(arg), 'kwargs': dict(kw)}
        env['type'] = dict if fname == 'castDictionary' else list
        outs = it.run_function(fn, env=env)
        key = '%s(%s%s)' % (fname, arg, ''.join(', %s=%r' % kv for kv in kw.items()))
        if it.imprecise or it.unknown_branches:
            chk.undecided(R, key, '; '.join((it.imprecise + it.unknown_branches)[:2]), chk.where(fn))
            continue
        got = {('%r' % ({str(k): (str(v) if isinstance(v, str) else v) for k, v in v_.items()} if isinstance(v_, dict) else
                       [str(x) if isinstance(x, str) else x for x in v_] if isinstance(v_, list) else v_,)) if kind == 'return' else 'raises %s' % (v_,)
               for kind, s2, v_ in outs}
        chk.decide(R, key, got, {want}, '%s gives %s, expected %s' % (key, sorted(got), want), chk.where(fn))
