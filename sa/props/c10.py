"""C10 - Lists and tables keep their shape.

R10.1 cell/row isolation (pop-then-push), R10.2 phantom creation, R10.3 digestion of rows, cells and items on token
streams, R10.4 span bookkeeping, R10.5 rule placement scans, R10.6 column specification - R10.2..R10.6 are decided by
interpreting the table and list methods on small DOM heaps and token streams (domheap), not from the wording of the code."""
import ast
import re

from .. import absint as A
from .. import flow
from .. import model as M
from ..report import AnalysisError, need
from ..util import SelfHooks, text
from . import domheap as D

ARR = 'plasTeX.Base.LaTeX.Arrays'


def check(chk):
    m = chk.model
    r101(chk, m)
    r102(chk, m)
    r103(chk, m)
    r104(chk, m)
    r105(chk, m)
    r106(chk, m)
    from . import shared
    shared.cache_rules(chk, m, 'R10.7')
    from . import c04
    c04.r44(chk, m, rule_id='R10.8')
    chk.decline('row/cell contents and border placement of concrete generated tables (runtime)')


def r101(chk, m):
    from .c04 import pushpop_transfer
    R = chk.rule('R10.1', 'cell and row delimiters pop the previous cell frame before pushing a fresh one (formatting set in one '
                 'cell does not leak into the next), for EndRow and all its subclasses', 4)
    Array = m.cls(ARR, 'Array')
    for cname in ('CellDelimiter', 'EndRow', 'cr', 'tabularnewline'):
        c = Array.nested.get(cname)
        need(c is not None, 'Array.%s not found' % cname)
        fn = m.find_method(c, 'invoke')
        chk.analysed(fn)
        normal, raised = flow.function_exits(fn.node, (0, 0), pushpop_transfer)
        if normal != {(0, -1)}:
            # not visible in the shape of this function (helpers, context managers, delegation): interpreted with a recording context
            from .c04 import semantic_pairing
            sem = semantic_pairing(m, fn, follow=lambda fname, node, info: getattr(node, 'name', '') == 'invoke' or info is None)
            A.IMPRECISION[:] = []
            if sem is None:
                chk.undecided(R, 'Array.%s.invoke' % cname, 'the effect of %s on the context stack is not determined' % fn.fullname, chk.where(fn))
                continue
            normal = sem
        chk.verdict(R, 'Array.%s.invoke' % cname, normal == {(0, -1)},
                    'Array.%s.invoke resolves to %s with (net, lowest) %s; expected pop then push = {(0, -1)}'
                    % (cname, fn.fullname, sorted(normal)), chk.where(fn), fn.fullname)
    try:
        er = m.cls('plasTeX.Base.LaTeX.Math', 'eqnarray').nested.get('EndRow')
    except AnalysisError:
        er = None
    if er is not None:
        fn = m.find_method(er, 'invoke')
        chk.analysed(fn)
        calls = [M.call_name(c) for c in M.calls_in(fn.node)]
        normal, raised = flow.function_exits(fn.node, (0, 0), pushpop_transfer)
        ok = normal == {(0, -1)} or (normal == {(0, 0)} and any(re.search(r'EndRow\.invoke$', c) for c in calls))
        if not ok:
            from .c04 import semantic_pairing
            sem = semantic_pairing(m, fn, follow=lambda fname, node, info: getattr(node, 'name', '') == 'invoke' or info is None)
            A.IMPRECISION[:] = []
            if sem is None:
                chk.undecided(R, 'eqnarray.EndRow.invoke', 'the effect of eqnarray.EndRow.invoke on the context stack is not determined', chk.where(fn))
            else:
                chk.verdict(R, 'eqnarray.EndRow.invoke', sem == {(0, -1)},
                            'eqnarray.EndRow.invoke, interpreted with a recording context, has (net, lowest) %s; expected pop then push = {(0, -1)}'
                            % sorted(sem), chk.where(fn))
        else:
            chk.ok(R, 'eqnarray.EndRow.invoke', str(sorted(normal)))


# ---------------------------------------------------------------------------
class TableHooks(D.DomHooks):
    """Tables and lists on the DOM heap: isinstance by the class of the heap object, context operations and the digestion of
    ordinary tokens as events, the TeX object of compileColspec as a scripted token stream."""

    def __init__(self, model, cls, own_digest=()):
        D.DomHooks.__init__(self, model, cls)
        self.own_digest = own_digest       # classes whose digest() is interpreted (the table / list classes under analysis)

    def should_inline(self, fname, node, info):
        # digest / invoke of the generic macro classes are events of the scenario, however they are reached (by name or through super())
        return not (info is not None and info.cls is not None and info.cls.fullname in ('plasTeX.Environment', 'plasTeX.Command', 'plasTeX.Macro')
                    and info.name in ('digest', 'invoke'))

    def _classes(self, v):
        if isinstance(v, M.ClassInfo):
            return [v]
        if isinstance(v, (tuple, list)) and v and all(isinstance(x, M.ClassInfo) for x in v):
            return list(v)
        return None

    def call(self, interp, node, fname, args, kwargs, state):
        if fname == 'isinstance' and len(args) == 2 and isinstance(args[0], (A.Obj, A.TextObj)):
            ks = self._classes(args[1])
            if ks is not None:
                c = args[0].cls if isinstance(args[0], A.Obj) else None
                if isinstance(c, M.ClassInfo):
                    mro = self.model.mro(c)
                    return any(k in mro for k in ks)
                return False
        if fname == 'isinstance' and len(args) == 2 and args[0] is None and self._classes(args[1]) is not None:
            return False
        ev = state.env.setdefault('__events', [])
        if re.search(r'\.context\.(pop|push)$', fname):
            ev.append(fname.rsplit('.', 1)[1])
            return A.NONE
        if isinstance(node.func, ast.Attribute):
            attr = node.func.attr
            if attr == 'digest' and len(args) == 1:
                recv = interp.ev(node.func.value, state)
                if isinstance(recv, A.Obj) and isinstance(recv.cls, M.ClassInfo) and any(k in self.model.mro(recv.cls) for k in self.own_digest):
                    return None
                if isinstance(recv, (A.Obj, A.TextObj)):
                    ev.append(('digest', D.label_of(recv)))
                    return A.NONE
            via_super = isinstance(node.func.value, ast.Call) and text(node.func.value.func) == 'super' and not node.func.value.args
            if attr == 'digest' and ((len(args) == 2 and text(node.func.value) in ('Environment', 'Command', 'Macro')) or (via_super and len(args) == 1)):
                ev.append('base-digest')
                st = args[-1]
                state.env['__left_at_base'] = [D.label_of(x) for x in st.items[st.pos:]] if isinstance(st, A.Iter) else None
                return A.NONE
            if attr == 'paragraphs' and isinstance(node.func.value, ast.Name) and node.func.value.id == 'self':
                ev.append('paragraphs')
                return A.NONE
            if attr in ('parse',) and isinstance(node.func.value, ast.Name) and node.func.value.id == 'self':
                ev.append('parse')
                return A.NONE
            if attr == 'invoke' and args and ((isinstance(args[0], (A.Obj,)) and text(node.func.value) in ('Environment', 'Command', 'Macro')) or via_super):
                ev.append('base-invoke')
                return A.NONE
        # the TeX object of compileColspec
        if isinstance(node.func, ast.Attribute) and isinstance(node.func.value, (ast.Name, ast.Attribute)):
            recv = state.env.get(node.func.value.id) if isinstance(node.func.value, ast.Name) else interp.ev(node.func.value, state)
            if isinstance(recv, A.Obj) and '__stream' in recv.attrs:
                st = recv.attrs['__stream']
                attr = node.func.attr
                if attr == 'pushToken' and len(args) == 1:
                    st.push(args[0])
                    return A.NONE
                if attr == 'pushTokens' and len(args) == 1:
                    seq = args[0]
                    if isinstance(seq, A.Iter):
                        items = list(seq.items[seq.pos:])
                        seq.pos = len(seq.items)
                    elif isinstance(seq, (list, tuple)):
                        items = list(seq)
                    else:
                        return None
                    for x in reversed(items):
                        st.push(x)
                    return A.NONE
                if attr == 'itertokens' and not args:
                    return st
                if attr == 'readArgument':
                    x = st.take()
                    while isinstance(x, A.TextObj) and not str(x).strip():
                        x = st.take()
                    if x is A.STOP:
                        return A.TOP
                    val = x.attrs.get('__group') if isinstance(x, A.Obj) else [x]
                    if 'type' in kwargs:
                        try:
                            return int(''.join(str(t) for t in val))
                        except ValueError:
                            return A.TOP
                    return list(val)
        if fname.endswith('columnTypes.get') and len(args) == 2 and isinstance(args[0], str):
            return A.Sym('coltype:%s' % str(args[0]), truthy=True)
        callee = None
        if isinstance(node.func, ast.Name):
            callee = state.env.get(node.func.id)
        elif isinstance(node.func, ast.Call) and M.call_name(node.func).endswith('columnTypes.get'):
            callee = interp.ev(node.func, state)
        if isinstance(callee, A.Sym) and callee.label.startswith('coltype:') and not args:
            k = state.env.get('__ncols', 0)
            state.env['__ncols'] = k + 1
            return A.Obj('column%d(%s)' % (k, callee.label[8:]), {'style': {'text-align': callee.label[8:]}, 'before': [], 'after': [], 'between': [],
                                                                  '__eqkey': ('column', k)}, cls=None)
        return D.DomHooks.call(self, interp, node, fname, args, kwargs, state)


def trun(m, fn, env, cls, own_digest=(), inline=16, max_iter=14, filt=None):
    h = TableHooks(m, cls, own_digest)
    if filt is not None:
        h.should_inline = filt
    it = A.Interp(model=m, scope=fn, hooks=h, max_iter=max_iter, exc_edges=False, inline=inline, heap=True, precise_exc=True, max_states=20000)
    outs = it.run_function(fn, env=env)
    if it.imprecise:
        raise D.Imprecise('; '.join(sorted(set(it.imprecise))[:3]))
    if it.unknown_branches:
        raise D.Imprecise('the outcome of a test is not determined on this heap: ' + '; '.join(sorted(set(it.unknown_branches))[:3]))
    return outs


def tree(n):
    """label[children] of a heap node"""
    kids = D.children(n)
    if not kids:
        return D.label_of(n)
    return '%s[%s]' % (D.label_of(n), ' '.join(tree(k) for k in kids))


def classes(m):
    Array = m.cls(ARR, 'Array')
    need(all(k in Array.nested for k in ('ArrayRow', 'ArrayCell', 'CellDelimiter', 'EndRow', 'hline', 'vline', 'cline', 'multicolumn', 'BorderCommand')),
         'the nested table classes of Array were not found')
    return Array, Array.nested


def stream_left(st):
    return [D.label_of(x) for x in st.items[st.pos:]]


def outcomes(outs, fmt):
    got = set()
    for kind, s, v in outs:
        if kind == 'return':
            got.add(fmt(s, v))
        elif kind == 'raise':
            got.add('raises %s' % (v,))
    return got


# ---------------------------------------------------------------------------
def r102(chk, m):
    R = chk.rule('R10.2', 'phantom creation, interpreted: table begin returns [self, new row, new cell] after opening the cell frame; '
                 '& returns [self, new cell]; a row end returns [self, new row, new cell]; the end of the table closes the frame and '
                 'creates nothing', 4)
    Array, N = classes(m)
    Macro = m.cls('plasTeX', 'Macro')
    cases = [('table begin', Array, m.find_method(Array, 'invoke'), {'macroMode': m.class_const(Macro, 'MODE_BEGIN')}, ('self ArrayRow ArrayCell', 'push')),
             ('table end', Array, m.find_method(Array, 'invoke'), {'macroMode': m.class_const(Macro, 'MODE_END')}, ('None', 'pop')),
             ('cell delimiter', N['CellDelimiter'], m.find_method(N['CellDelimiter'], 'invoke'), {}, ('self ArrayCell', 'pop push')),
             ('row end', N['EndRow'], m.find_method(N['EndRow'], 'invoke'), {}, ('self ArrayRow ArrayCell', 'pop push'))]
    for label, cls, fn, attrs, want in cases:
        chk.analysed(fn)
        d = D.Dom(m)
        me = d.elem('self')
        me.cls = cls
        me.attrs.update(attrs)
        me.attrs['attributes'] = {}
        me.attrs['ownerDocument'] = d.doc
        # the context: push and pop are events however they are reached (a local alias, a private context manager of Context)
        d.doc.attrs['context'] = A.Obj('context', {'pop': A.Sym('extfunc:the.context.pop', truthy=True), 'push': A.Sym('extfunc:the.context.push', truthy=True),
                                                   'top': A.Sym('frame')}, cls=m.cls('plasTeX.Context', 'Context'))
        tex = A.Obj('tex', {})

        def fmt(s, v):
            names = ' '.join(('self' if x is s.env['self'] else str(x.attrs.get('nodeName'))) if isinstance(x, A.Obj) else repr(x) for x in v) \
                if isinstance(v, list) else repr(v)
            if isinstance(v, list) and len({id(x) for x in v}) != len(v):
                names += ' (the same object twice)'
            return (names, ' '.join(e for e in s.env.get('__events', []) if e in ('pop', 'push')))
        try:
            outs = trun(m, fn, {'self': me, 'tex': tex}, cls)
        except D.Imprecise as e:
            chk.undecided(R, label, str(e), chk.where(fn))
            continue
        got = outcomes(outs, fmt)
        chk.decide(R, label, got, {want}, '%s: returned nodes / context operations %s, expected %s - the phantom row and cell absorb the '
                   'tokens up to the next delimiter' % (label, sorted(got, key=repr), want), chk.where(fn), str(sorted(got, key=repr)))


# ---------------------------------------------------------------------------
def r103(chk, m):
    R = chk.rule('R10.3', 'digestion on token streams (DOM heap): a cell absorbs the tokens up to the next cell delimiter or row end and '
                 'consumes only a cell delimiter; a row absorbs its cells up to the row end and consumes it; an item absorbs everything '
                 'up to the next item of its list (nested lists stay inside); nothing beyond is taken from the stream; a cell takes '
                 'its span from a \\multicolumn it holds', 9)
    Array, N = classes(m)
    Cell, Row = N['ArrayCell'], N['ArrayRow']
    List = m.cls('plasTeX.Base.LaTeX.Lists', 'List')
    Item = List.nested['item']
    MacroC = m.cls('plasTeX', 'Macro')
    celld = m.find_method(Cell, 'digest')
    rowd = m.find_method(Row, 'digest')
    itemd = m.find_method(Item, 'digest')
    for f in (celld, rowd, itemd, m.func('plasTeX', 'Macro.digestUntil')):
        chk.analysed(f)

    def mk(d, kind, label, depth=5, **kw):
        if kind == 'text':
            t = d.text(label, kw.get('value', label))
            t.attrs['contextDepth'] = depth
            return t
        cls = {'amp': N['CellDelimiter'], 'endrow': N['EndRow'], 'cell': Cell, 'row': Row, 'item': Item, 'multicolumn': N['multicolumn'],
               'hline': N['hline'], 'cline': N['cline'], 'list': List, 'macro': MacroC, 'end': MacroC}[kind]
        e = d.elem(label)
        if kind in ('hline', 'cline'):
            e.attrs['nodeName'] = kind
        e.cls = cls
        e.attrs.update(contextDepth=depth, endToken=None, attributes=kw.get('attributes', {}), style={}, forcePars=True)
        e.attrs.pop('blockType', None)
        return e

    def run(fn, cls, selfnode, toks):
        st = A.Stream(toks)
        outs = trun(m, fn, {'self': selfnode, 'tokens': st, '__me': selfnode, '__st': st}, cls, own_digest=(Cell, Row, Item),
                    filt=lambda fname, node, info: info is None or getattr(node, 'name', '') not in ('paragraphs',))

        def fmt(s, v):
            me = s.env['__me']
            end = me.attrs.get('endToken')

            def attrs_of(n):
                a = n.attrs.get('attributes') if isinstance(n, A.Obj) else None
                return ('colspan=%s' % a['colspan']) if isinstance(a, dict) and 'colspan' in a else ''

            def t(n):
                kids = D.children(n)
                extra = ''
                if isinstance(n, A.Obj) and n.cls in (Cell, Row) and n is not me:
                    e2 = n.attrs.get('endToken')
                    extra = '<end=%s>' % (D.label_of(e2) if e2 is not None else None)
                a = attrs_of(n)
                if a and n.cls is Cell and n is not me:
                    extra += '<%s>' % a
                if not kids:
                    return D.label_of(n) + extra
                return '%s%s[%s]' % (D.label_of(n), extra, ' '.join(t(k) for k in kids))
            return '%s end=%s%s left=%s' % (t(me), D.label_of(end) if end is not None else None,
                                           (' ' + attrs_of(me)) if attrs_of(me) and me.cls is Cell else '', ' '.join(stream_left(s.env['__st'])))
        return outcomes(outs, fmt)

    def case(label, fn, cls, build, want, why):
        d = D.Dom(m)
        me, toks = build(d)
        try:
            got = run(fn, cls, me, toks)
        except D.Imprecise as e:
            chk.undecided(R, label, str(e), chk.where(fn))
            return
        chk.decide(R, label, got, {want}, '%s: %s, expected %s - %s' % (label, sorted(got), want, why), chk.where(fn), str(sorted(got)))

    case('a cell ended by &', celld, Cell,
         lambda d: (mk(d, 'cell', 'cell'), [mk(d, 'text', 'a'), mk(d, 'macro', 'm'), mk(d, 'amp', 'amp'), mk(d, 'cell', 'next'), mk(d, 'text', 'b')]),
         'cell[a m] end=amp left=next b', 'the delimiter is consumed, the next cell stays in the stream')
    case('a cell ended by the row end', celld, Cell,
         lambda d: (mk(d, 'cell', 'cell'), [mk(d, 'text', 'a'), mk(d, 'endrow', 'endrow'), mk(d, 'row', 'nextrow')]),
         'cell[a] end=None left=endrow nextrow', 'the row end belongs to the row: the cell must leave it in the stream')
    case('a cell ended by the end of the table', celld, Cell,
         lambda d: (mk(d, 'cell', 'cell'), [mk(d, 'text', 'a'), mk(d, 'end', 'endtable', depth=3), mk(d, 'text', 'after', depth=3)]),
         'cell[a] end=None left=endtable after', 'a token from outside the cell\'s group ends it and stays in the stream')
    case('an empty cell', celld, Cell,
         lambda d: (mk(d, 'cell', 'cell'), [mk(d, 'amp', 'amp'), mk(d, 'cell', 'next')]),
         'cell end=amp left=next', 'an empty cell consumes exactly its delimiter')
    case('a cell holding a \\multicolumn', celld, Cell,
         lambda d: (mk(d, 'cell', 'cell'), [mk(d, 'multicolumn', 'mc', attributes={'colspan': 3}), mk(d, 'amp', 'amp'), mk(d, 'cell', 'next')]),
         'cell[mc] end=amp colspan=3 left=next', 'the cell takes the span of the \\multicolumn it holds')
    case('a cell holding a partial rule, a blank and then a \\multicolumn', celld, Cell,
         lambda d: (mk(d, 'cell', 'cell'), [mk(d, 'cline', 'cline'), mk(d, 'text', 'ws', value=' '), mk(d, 'multicolumn', 'mc', attributes={'colspan': 2}),
                                           mk(d, 'amp', 'amp'), mk(d, 'cell', 'next')]),
         'cell[cline ws mc] end=amp colspan=2 left=next', 'the span is taken from the \\multicolumn wherever it stands in the cell')
    case('a cell holding text and then a \\multicolumn', celld, Cell,
         lambda d: (mk(d, 'cell', 'cell'), [mk(d, 'macro', 'm'), mk(d, 'multicolumn', 'mc', attributes={'colspan': 4}), mk(d, 'endrow', 'endrow')]),
         'cell[m mc] end=None colspan=4 left=endrow', 'the span is taken from the \\multicolumn wherever it stands in the cell')
    case('a row of two cells', rowd, Row,
         lambda d: (mk(d, 'row', 'row'), [mk(d, 'cell', 'c1'), mk(d, 'text', 'a'), mk(d, 'amp', 'amp'), mk(d, 'cell', 'c2'), mk(d, 'text', 'b'),
                                         mk(d, 'endrow', 'endrow'), mk(d, 'row', 'nextrow'), mk(d, 'cell', 'c3')]),
         'row[c1<end=amp>[a] c2<end=None>[b]] end=endrow left=nextrow c3', 'the row consumes exactly its row end; the next row stays in the stream')
    case('the last row of a table', rowd, Row,
         lambda d: (mk(d, 'row', 'row'), [mk(d, 'cell', 'c1'), mk(d, 'text', 'a'), mk(d, 'end', 'endtable', depth=3)]),
         'row[c1<end=None>[a]] end=None left=endtable', 'without a row end nothing is consumed beyond the cells')
    case('a row with a spanning cell', rowd, Row,
         lambda d: (mk(d, 'row', 'row'), [mk(d, 'cell', 'c1'), mk(d, 'multicolumn', 'mc', attributes={'colspan': 2}), mk(d, 'amp', 'amp'),
                                         mk(d, 'cell', 'c2'), mk(d, 'text', 'b'), mk(d, 'endrow', 'endrow')]),
         'row[c1<end=amp><colspan=2>[mc] c2<end=None>[b]] end=endrow left=', 'spans are recorded cell by cell')
    case('an item up to the next item', itemd, Item,
         lambda d: (mk(d, 'item', 'item'), [mk(d, 'text', 'ws', value=' '), mk(d, 'text', 'a'), mk(d, 'list', 'nestedlist'), mk(d, 'text', 'b'),
                                           mk(d, 'item', 'item2'), mk(d, 'text', 'c')]),
         'item[a nestedlist b] end=None left=item2 c', 'one item per \\item, holding everything up to the next \\item')
    # the list itself: blanks and blank lines before the first item are dropped
    listd = m.find_method(List, 'digest')
    chk.analysed(listd)
    Par = m.cls('plasTeX.Base.TeX.Primitives', 'par')

    def build_list(d):
        lst = mk(d, 'list', 'list')
        lst.attrs['macroMode'] = m.class_const(MacroC, 'MODE_BEGIN')
        par = d.elem('blankline', childlist=False)
        par.cls = Par
        par.attrs.pop('isElementContentWhitespace', None)
        par.attrs['contextDepth'] = 5
        return lst, [mk(d, 'text', 'ws', value=' '), par, mk(d, 'text', 'ws2', value='\n'), mk(d, 'item', 'item1'), mk(d, 'text', 'a'), mk(d, 'item', 'item2')]
    d = D.Dom(m)
    me, toks = build_list(d)
    st = A.Stream(toks)
    try:
        outs = trun(m, listd, {'self': me, 'tokens': st}, List, own_digest=())
        got = outcomes(outs, lambda s, v: 'the items are digested from: %s' % ' '.join(s.env.get('__left_at_base') or ['?']))
        chk.decide(R, 'a list with a blank line before the first item', got, {'the items are digested from: item1 a item2'},
                   'the list starts absorbing at %s, expected at its first item - a blank line before the first \\item becomes a child of the '
                   'list and swallows the items' % sorted(got), chk.where(listd))
    except D.Imprecise as e:
        chk.undecided(R, 'a list with a blank line before the first item', str(e), chk.where(listd))
    case('the last item of a list', itemd, Item,
         lambda d: (mk(d, 'item', 'item'), [mk(d, 'text', 'a'), mk(d, 'end', 'endlist', depth=3), mk(d, 'text', 'after', depth=3)]),
         'item[a] end=None left=endlist after', 'the end of the list ends the item and stays in the stream')


# ---------------------------------------------------------------------------
def r104(chk, m):
    R = chk.rule('R10.4', 'span bookkeeping on the heap: a rule command marks exactly the cells whose columns lie in its span, counting '
                 'each cell by its own span (default 1); the column count of the table is the largest sum of spans of a row; the '
                 'column specification is applied column by column with spanning cells counted by their span', 10)
    Array, N = classes(m)
    Cell, Row = N['ArrayCell'], N['ArrayRow']
    fn = m.find_method(N['BorderCommand'], 'applyBorders')
    chk.analysed(fn)

    def cells(d, spans):
        out = []
        for i, sp in enumerate(spans):
            c = d.elem('cell%d' % i)
            c.cls = Cell
            c.attrs['attributes'] = None if sp is None else ({} if sp == 1 else {'colspan': sp})
            c.attrs['style'] = {}
            out.append(c)
        return out
    layouts = [('plain cells', [None, 1, 1, 1]), ('a spanning cell first', [2, 1, 1]), ('a spanning cell in the middle', [1, 2, 1]),
               ('two spanning cells', [2, 2])]
    spans = [None, 1, 2, 3, 4, (1, 2), (2, 3), (3, 4), (2, 4)]
    for lname, layout in layouts:
        for sp in spans:
            d = D.Dom(m)
            cs = cells(d, layout)
            rule = d.elem('rule')
            rule.cls = N['cline']
            rule.attrs['attributes'] = {} if sp is None else {'span': list(sp) if isinstance(sp, tuple) else sp}
            rule.attrs['position'] = 0
            lo, hi = (-10 ** 9, 10 ** 9) if sp is None else (sp if isinstance(sp, tuple) else (sp, sp))
            col, want = 1, []
            for c, w in zip(cs, layout):
                if lo <= col <= hi:
                    want.append(c.label)
                col += (w or 1)
            key = 'rule over columns %s on %s' % ('all' if sp is None else sp, lname)

            def fmt(s, v):
                marked = []
                for c in s.env['cells']:
                    st = c.attrs.get('style')
                    ks = sorted(k for k in st if k.startswith('border-')) if isinstance(st, dict) else ['?']
                    if ks:
                        if {'border-top-style', 'border-top-color', 'border-top-width'} <= set(ks) and len(ks) == 3:
                            marked.append(c.label)
                        else:
                            marked.append('%s%s' % (c.label, ks))
                return ' '.join(marked)
            try:
                outs = trun(m, fn, {'self': rule, 'cells': cs, 'location': 'top'}, N['BorderCommand'])
            except D.Imprecise as e:
                chk.undecided(R, key, str(e), chk.where(fn))
                continue
            got = outcomes(outs, fmt)
            chk.decide(R, key, got, {' '.join(want)}, 'a rule over columns %s of a row with spans %s marks %s, expected %s - the rule lands on the '
                       'wrong cells' % (sp, [w or 1 for w in layout], sorted(got), want), chk.where(fn), str(sorted(got)))
    # column count
    link = m.find_method(Array, 'linkCells')
    chk.analysed(link)
    for label, rows, want in (('rows of plain cells', [[1, 1], [1, 1, 1]], 3), ('a row with a spanning cell', [[1, 3], [1, 1]], 4),
                              ('spanning cells only', [[2, 2]], 4)):
        d = D.Dom(m)
        rs = []
        for i, r in enumerate(rows):
            cs = cells(d, r)
            for c in cs:
                if c.attrs['attributes'] is None:
                    c.attrs['attributes'] = {}
            row = d.elem('row%d' % i, cs)
            row.cls = Row
            rs.append(row)
        T = d.elem('table', rs)
        T.cls = Array
        T.attrs['colspec'] = None
        try:
            outs = trun(m, link, {'self': T, '__T': T}, Array)
        except D.Imprecise as e:
            chk.undecided(R, 'column count: ' + label, str(e), chk.where(link))
            continue
        got = outcomes(outs, lambda s, v: repr(s.env['__T'].attrs.get('numCols')))
        chk.decide(R, 'column count: ' + label, got, {repr(want)}, 'the column count of rows with spans %s is %s, expected %d (spans add up)'
                   % (rows, sorted(got), want), chk.where(link))
    # column specification applied by column
    ab = m.find_method(Array, 'applyBorders')
    chk.analysed(ab)
    for label, layout, want in (('plain cells', [1, 1, 1], 'cell0:A cell1:B cell2:C'), ('a spanning cell first', [2, 1], 'cell0:A+B cell1:C'),
                                ('a spanning cell last', [1, 2], 'cell0:A cell1:B+C'), ('a \\multicolumn with its own specification', ['own', 1], 'cell0:M cell1:C')):
        d = D.Dom(m)
        cs = cells(d, [2 if w == 'own' else w for w in layout])
        for c, w in zip(cs, layout):
            if c.attrs['attributes'] is None:
                c.attrs['attributes'] = {}
            c.attrs['borders'] = ([], [])
            if w == 'own':
                c.attrs['colspec'] = A.Obj('ownspec', {'style': {'M': 1}})
        row = d.elem('row', cs)
        row.cls = Row
        row.attrs['isBorderOnly'] = False
        T = d.elem('table', [row])
        T.cls = Array
        T.attrs['colspec'] = [A.Obj('spec%s' % k, {'style': {k: 1}}) for k in 'ABC']

        def fmt(s, v):
            out = []
            for c in D.children(D.children(s.env['__T'])[0]):
                st = c.attrs.get('style')
                out.append('%s:%s' % (c.label, '+'.join(sorted(st)) if isinstance(st, dict) else '?'))
            return ' '.join(out)
        try:
            outs = trun(m, ab, {'self': T, '__T': T}, Array)
        except D.Imprecise as e:
            chk.undecided(R, 'column specification over ' + label, str(e), chk.where(ab))
            continue
        got = outcomes(outs, fmt)
        chk.decide(R, 'column specification over ' + label, got, {want}, 'the styles of the column specification [A, B, C] land as %s on a row with '
                   'spans %s, expected %s' % (sorted(got), layout, want), chk.where(ab))


# ---------------------------------------------------------------------------
def r105(chk, m):
    R = chk.rule('R10.5', 'rule placement on the heap: rule commands at the end of a cell are marked BORDER_AFTER, those at its start '
                 'BORDER_BEFORE; blanks are skipped, the first other item stops the scan; rules inside the text are not collected', 6)
    Array, N = classes(m)
    Cell = N['ArrayCell']
    fn = Cell.properties.get('borders', {}).get('get')
    need(fn is not None, 'ArrayCell.borders not found')
    chk.analysed(fn)
    BEFORE = m.class_const(N['BorderCommand'], 'BORDER_BEFORE')
    AFTER = m.class_const(N['BorderCommand'], 'BORDER_AFTER')
    need(isinstance(BEFORE, int) and isinstance(AFTER, int) and BEFORE != AFTER, 'BORDER_BEFORE / BORDER_AFTER not found')
    cases = [('rules before and after the text', 'h1 ws t ws v1 h2', {'h1': 'before', 'v1': 'after', 'h2': 'after'}),
             ('a rule after the text', 't h1', {'h1': 'after'}),
             ('a rule before the text', 'h1 ws t', {'h1': 'before'}),
             ('a vertical rule before the text', 'v1 t', {'v1': 'before'}),
             ('a rule between two texts', 't h1 t2', {}),
             ('rules around a macro', 'h1 m h2', {'h1': 'before', 'h2': 'after'}),
             ('text only', 't ws t2', {}),
             ('blanks before a leading rule', 'ws h1 t', {'h1': 'before'}),
             ('a rule alone in the cell (the other cells of the row have text)', 'h1', {'h1': 'before'}),
             ('rules and blanks only', 'ws h1 ws v1', {'h1': 'before', 'v1': 'before'})]
    for label, spec, want in cases:
        d = D.Dom(m)
        kids = []
        for name in spec.split():
            if name.startswith('h') or name.startswith('v'):
                e = d.elem(name)
                e.cls = N['hline'] if name[0] == 'h' else N['vline']
                e.attrs['position'] = None
            elif name == 'ws':
                e = d.text('ws%d' % len(kids), ' ')
            elif name.startswith('t'):
                e = d.text(name, 'x')
            else:
                e = d.elem(name)
                e.cls = m.cls('plasTeX', 'Macro')
            kids.append(e)
        cell = d.elem('cell', kids)
        cell.cls = Cell

        def fmt(s, v):
            pos = {}
            if not (isinstance(v, tuple) and len(v) == 2 and all(isinstance(x, list) for x in v)):
                return 'returns %r' % (v,)
            horiz, vert = v
            for kind, lst in (('h', horiz), ('v', vert)):
                for x in lst:
                    if not isinstance(x, A.Obj) or x.label[0] != kind:
                        return '%s collected as %s' % (D.label_of(x), 'horizontal' if kind == 'h' else 'vertical')
                    p = x.attrs.get('position')
                    pos[x.label] = 'before' if p == BEFORE else ('after' if p == AFTER else repr(p))
            return ' '.join('%s=%s' % kv for kv in sorted(pos.items()))
        try:
            outs = trun(m, fn, {'self': cell}, Cell)
        except D.Imprecise as e:
            chk.undecided(R, label, str(e), chk.where(fn))
            continue
        got = outcomes(outs, fmt)
        w = ' '.join('%s=%s' % kv for kv in sorted(want.items()))
        chk.decide(R, label, got, {w}, 'the border commands of a cell holding [%s] are collected as {%s}, expected {%s} - the rule is drawn on '
                   'the wrong side or lost' % (spec, sorted(got), w), chk.where(fn), str(sorted(got)))


# ---------------------------------------------------------------------------
def r106(chk, m):
    R = chk.rule('R10.6', 'column specification on a scripted token stream: one fresh column object per column (also for *{n}{..}), | marks '
                 'the adjacent column only, arguments of p{..} and @{..} are consumed', 6)
    Array, N = classes(m)
    fn = m.find_method(Array, 'compileColspec')
    chk.analysed(fn)
    cases = [('|l|c|', ['l:left+right', 'c:right']),
             ('lcr', ['l:', 'c:', 'r:']),
             ('l|*{2}{c|}r', ['l:right', 'c:right', 'c:right', 'r:']),
             ('*{3}{l}', ['l:', 'l:', 'l:']),
             ('|p{3cm}|l', ['p:left+right', 'l:']),
             ('l@{x}r|', ['l:', 'r:right']),
             ('*{2}{l|r}c', ['l:right', 'r:', 'l:right', 'r:', 'c:']),
             ('l | c', ['l:right', 'c:'])]
    for spec, want in cases:
        d = D.Dom(m)
        toks = []
        i = 0
        while i < len(spec):
            ch = spec[i]
            if ch == '{':
                j = spec.index('}', i)
                inner = spec[i + 1:j]
                # one level of nesting is all the cases need
                g = A.Obj('{%s}' % inner, {'__group': [d.text(c, c) for c in inner], 'isElementContentWhitespace': False, 'nodeType': D.ELEMENT})
                toks.append(g)
                i = j + 1
                continue
            toks.append(d.text(ch, ch))
            i += 1
        tex = A.Obj('tex', {'__stream': A.Stream([])})

        def fmt(s, v):
            if not isinstance(v, list):
                return 'returns %r' % (v,)
            out = []
            if len({id(x) for x in v}) != len(v):
                out.append('(columns share one object)')
            for x in v:
                if not isinstance(x, A.Obj):
                    out.append(repr(x))
                    continue
                st = x.attrs.get('style')
                b = sorted(k[7:] for k in st if k.startswith('border-')) if isinstance(st, dict) else ['?']
                out.append('%s:%s' % (str(st.get('text-align')) if isinstance(st, dict) else '?', '+'.join(b)))
            left = [D.label_of(x) for x in s.env['tex'].attrs['__stream'].items[s.env['tex'].attrs['__stream'].pos:]]
            if left:
                out.append('(left in the stream: %s)' % ' '.join(left))
            return ' '.join(out)
        try:
            outs = trun(m, fn, {'cls': Array, 'tex': tex, 'colspec': toks}, Array, max_iter=40)
        except D.Imprecise as e:
            chk.undecided(R, 'colspec %s' % spec, str(e), chk.where(fn))
            continue
        got = outcomes(outs, fmt)
        chk.decide(R, 'colspec %s' % spec, got, {' '.join(want)}, 'the column specification %s compiles to %s, expected %s (type:borders per column)'
                   % (spec, sorted(got), want), chk.where(fn), str(sorted(got)))
