"""C10 - Lists and tables keep their shape.

R10.1 cell/row isolation (pop-then-push), R10.2 phantom creation table,
R10.3 end-class tables (who ends what, and which delimiter is consumed),
R10.4 span bookkeeping on every arm, R10.5 rule placement scans,
R10.6 one fresh column object per column of the specification."""
import ast
import re

from .. import absint as A
from .. import flow
from .. import model as M
from ..report import AnalysisError, need
from ..util import SelfHooks, text

ARR = 'plasTeX.Base.LaTeX.Arrays'


def check(chk):
    m = chk.model
    r101(chk, m)
    r102(chk, m)
    r103(chk, m)
    r104(chk, m)
    r105(chk, m)
    r106(chk, m)
    from . import shared
    shared.cache_rules(chk, m, 'R10.7')
    from . import c04
    c04.r44(chk, m, rule_id='R10.8')
    chk.decline('row/cell contents and border placement of concrete generated tables (runtime)')


def r101(chk, m):
    from .c04 import pushpop_transfer
    R = chk.rule('R10.1', 'cell and row delimiters pop the previous cell frame before pushing a fresh one (formatting set in one '
                 'cell does not leak into the next), for EndRow and all its subclasses', 4)
    Array = m.cls(ARR, 'Array')
    for cname in ('CellDelimiter', 'EndRow', 'cr', 'tabularnewline'):
        c = Array.nested.get(cname)
        need(c is not None, 'Array.%s not found' % cname)
        fn = m.find_method(c, 'invoke')
        chk.analysed(fn)
        normal, raised = flow.function_exits(fn.node, (0, 0), pushpop_transfer)
        chk.verdict(R, 'Array.%s.invoke' % cname, normal == {(0, -1)},
                    'Array.%s.invoke resolves to %s with (net, lowest) %s; expected pop then push = {(0, -1)}'
                    % (cname, fn.fullname, sorted(normal)), chk.where(fn), fn.fullname)
    try:
        er = m.cls('plasTeX.Base.LaTeX.Math', 'eqnarray').nested.get('EndRow')
    except AnalysisError:
        er = None
    if er is not None:
        fn = m.find_method(er, 'invoke')
        chk.analysed(fn)
        calls = [M.call_name(c) for c in M.calls_in(fn.node)]
        normal, raised = flow.function_exits(fn.node, (0, 0), pushpop_transfer)
        ok = normal == {(0, -1)} or (normal == {(0, 0)} and any(re.search(r'EndRow\.invoke$', c) for c in calls))
        chk.verdict(R, 'eqnarray.EndRow.invoke', ok, 'eqnarray.EndRow.invoke neither pops/pushes nor delegates to Array.EndRow.invoke: %s' % calls, chk.where(fn))


class ElemHooks(SelfHooks):
    def call(self, interp, node, fname, args, kwargs, state):
        if fname.endswith('createElement') and len(args) == 1 and isinstance(args[0], str):
            return A.Sym('new:%s' % args[0], truthy=True)
        return None

    def lookup(self, interp, name, state):
        if name == 'self':
            return A.Sym('self', truthy=True)
        return SelfHooks.lookup(self, interp, name, state)


def r102(chk, m):
    R = chk.rule('R10.2', 'phantom creation: table begin -> [self, row, cell]; & -> [self, cell]; row end -> [self, row, cell]', 3)
    Array = m.cls(ARR, 'Array')
    Macro = m.cls('plasTeX', 'Macro')
    cases = [('Array.invoke (begin)', m.find_method(Array, 'invoke'), Array, ['self', 'new:ArrayRow', 'new:ArrayCell']),
             ('Array.CellDelimiter.invoke', m.find_method(Array.nested['CellDelimiter'], 'invoke'), Array.nested['CellDelimiter'], ['self', 'new:ArrayCell']),
             ('Array.EndRow.invoke', m.find_method(Array.nested['EndRow'], 'invoke'), Array.nested['EndRow'], ['self', 'new:ArrayRow', 'new:ArrayCell'])]
    for label, fn, cls, want in cases:
        chk.analysed(fn)
        it = A.Interp(model=m, scope=fn, hooks=ElemHooks(m, cls), max_iter=1, exc_edges=False)
        outs = it.run_function(fn, env={'self.macroMode': m.class_const(Macro, 'MODE_BEGIN')})
        got = set()
        for kind, s, v in outs:
            if kind == 'return':
                got.add(repr([x.label if isinstance(x, A.Sym) else repr(x) for x in v]) if isinstance(v, list) else repr(v))
        chk.verdict(R, label, got == {repr(want)}, '%s returns %s, expected %s' % (label, sorted(got), want), chk.where(fn), str(sorted(got)))


def r103(chk, m):
    R = chk.rule('R10.3', 'end-class tables: a row digests until a row end and consumes it; a cell digests until a cell delimiter '
                 'or a row end and consumes only a cell delimiter; an item digests until the next item of a list', 4)
    Array = m.cls(ARR, 'Array')
    row = m.find_method(Array.nested['ArrayRow'], 'digest')
    cell = m.find_method(Array.nested['ArrayCell'], 'digest')
    chk.analysed(row)
    chk.analysed(cell)

    def until_args(fn):
        return [text(c.args[1]) for c in M.calls_in(fn.node) if M.call_name(c) == 'self.digestUntil' and len(c.args) == 2]
    ra = until_args(row)
    chk.verdict(R, 'ArrayRow.digest end class', ra == ['Array.EndRow'], 'a row must digest until Array.EndRow, found %s' % ra, chk.where(row), str(ra))
    ca = until_args(cell)
    chk.verdict(R, 'ArrayCell.digest end classes', [a.replace(' ', '') for a in ca] == ['(Array.CellDelimiter,Array.EndRow)'],
                'a cell must digest until (Array.CellDelimiter, Array.EndRow), found %s' % ca, chk.where(cell), str(ca))
    # consumption: next(tokens) guarded by the matching test
    def next_guards(fn):
        from .c06 import guard_chain
        from .c07 import parent_stmt
        out = []
        for c in M.calls_in(fn.node):
            if M.call_name(c) == 'next' and c.args and text(c.args[0]) == 'tokens':
                out.append(guard_chain(fn.node, parent_stmt(fn.node, c)))
        return out
    rg = next_guards(row)
    chk.verdict(R, 'ArrayRow.digest consumes its row end', rg == [['self.endToken is not None']],
                'the row must consume exactly the row end it stopped at (guards of next(tokens): %s)' % rg, chk.where(row), str(rg))
    cg = next_guards(cell)
    chk.verdict(R, 'ArrayCell.digest consumes only a cell delimiter', cg == [['isinstance(self.endToken, Array.CellDelimiter)']],
                'a cell must consume the delimiter only when it is a cell delimiter - a row end belongs to the row (guards: %s)' % cg,
                chk.where(cell), str(cg))
    item = m.func('plasTeX.Base.LaTeX.Lists', 'List.item.digest')
    chk.analysed(item)
    ia = until_args(item)
    chk.verdict(R, 'List.item.digest end class', ia == ['List.item'], 'an item must digest until the next List.item, found %s' % ia, chk.where(item), str(ia))
    du = m.func('plasTeX', 'Macro.digestUntil')
    chk.analysed(du)
    src = text(du.node)
    ok = 'isinstance(tok, endclass)' in src and 'tokens.push(tok)' in src
    chk.verdict(R, 'digestUntil pushes the end token back', ok, 'digestUntil must push the end token back for its owner', chk.where(du))


class SpanHooks(A.Hooks):
    def call(self, interp, node, fname, args, kwargs, state):
        if fname.endswith('attributes.get') and args and args[0] == 'colspan':
            return A.Sym('SPAN', truthy=True)
        return None

    def keep(self, ev):
        return ev[0] in ('aug', 'assume', 'continue')


def r104(chk, m):
    R = chk.rule('R10.4', 'span bookkeeping: every statement that advances a running column number while iterating over the cells '
                 'of a row adds that cell\'s own span (default 1) - on every arm of the loop body', 3)
    Array = m.cls(ARR, 'Array')
    fn = m.find_method(Array.nested['BorderCommand'], 'applyBorders')
    chk.analysed(fn)
    loops = [n for n in M.walk_no_nested(fn.node) if isinstance(n, ast.For) and text(n.iter) == 'cells']
    need(len(loops) == 1, 'BorderCommand.applyBorders: cell loop not found')
    loop = loops[0]
    cell = A.Sym('CELL', truthy=True, attrs={'distinct': True})
    it = A.Interp(model=m, scope=fn, hooks=SpanHooks(), max_iter=1, exc_edges=False)
    outs = it.block(loop.body, [A.State({text(loop.target): cell, 'colnum': A.Sym('COL')})])
    bad = []
    n = 0
    for kind in ('fall', 'continue', 'break'):
        for s, v in outs.get(kind, []):
            n += 1
            ass = {e[1]: e[2] for e in s.trace if e[0] == 'assume'}
            has_attrs = ass.get('cell.attributes')
            augs = [e for e in s.trace if e[0] == 'aug' and e[1] == 'colnum']
            want = 'SPAN' if has_attrs else 1
            vals = []
            for e in augs:
                v2 = e[3]
                # resolve a local name holding the span
                if isinstance(v2, str) and v2 in s.env:
                    v2 = s.env[v2]
                vals.append(v2.label if isinstance(v2, A.Sym) else v2)
            if vals != [want]:
                arm = 'skipping arm' if any('colnum' in k and v3 for k, v3 in ass.items()) else 'applying arm'
                bad.append('%s (cell %s attributes): column number advanced by %s, expected [%s]'
                           % (arm, 'with' if has_attrs else 'without', vals, want))
    chk.paths += n
    chk.verdict(R, 'BorderCommand.applyBorders advances by the span on every arm', not bad and n >= 3,
                '; '.join(sorted(set(bad))) + ' - \\cline after a \\multicolumn lands on the wrong cells', chk.where(fn, loop), '%d paths' % n)
    # sibling sites
    link = m.find_method(Array, 'linkCells')
    chk.analysed(link)
    augs = [n for n in M.walk_no_nested(link.node) if isinstance(n, ast.AugAssign) and text(n.target) == 'numcols']
    ok = len(augs) == 1 and text(augs[0].value).replace(' ', '') == "cell.attributes.get('colspan',1)"
    chk.verdict(R, 'Array.linkCells counts columns by span', ok,
                'the column count of a row must add each cell\'s span (default 1): %s' % [text(a) for a in augs], chk.where(link))
    ab = m.find_method(Array, 'applyBorders')
    chk.analysed(ab)
    src = text(ab.node)
    ok = "span = cell.attributes.get('colspan', 1)" in src and 'cells += [cell] * span' in src
    chk.verdict(R, 'Array.applyBorders expands cells by span for the column specification', ok,
                'cells must be repeated by their span before being zipped with the column specification', chk.where(ab))
    # a cell takes its span from a contained multicolumn
    cd = m.find_method(Array.nested['ArrayCell'], 'digest')
    ok = any(isinstance(n, ast.Assign) and text(n.targets[0]) == "self.attributes['colspan']" and text(n.value) == "item.attributes['colspan']"
             for n in M.walk_no_nested(cd.node))
    mc = Array.nested['multicolumn']
    margs = m.class_const(mc, 'args')
    chk.verdict(R, 'ArrayCell copies colspan from \\multicolumn', ok and isinstance(margs, str) and margs.split()[0] == 'colspan:int',
                'ArrayCell.digest must copy colspan from a contained multicolumn (args %r)' % (margs,), chk.where(cd))


def r105(chk, m):
    R = chk.rule('R10.5', 'rule placement: the trailing scan marks rule commands at the end of a cell BORDER_AFTER, the leading scan '
                 'marks those at the start BORDER_BEFORE; each scan skips only whitespace and stops at the first other item', 2)
    Array = m.cls(ARR, 'Array')
    fn = m.find_method(Array.nested['ArrayCell'], 'borders')
    chk.analysed(fn)
    loops = [n for n in fn.node.body if isinstance(n, ast.For)]
    need(len(loops) == 2, 'ArrayCell.borders: the two scans were not found')
    for loop, pos, label in ((loops[0], 'BORDER_AFTER', 'trailing'), (loops[1], 'BORDER_BEFORE', 'leading')):
        item = A.Sym('ITEM', truthy=True, attrs={'distinct': True})
        it = A.Interp(model=m, scope=fn, max_iter=1, exc_edges=False)
        it.h.keep = lambda ev: ev[0] in ('assume', 'setattr', 'call')
        env = {'item': item, 'horiz': A.Sym('horiz'), 'vert': A.Sym('vert')}
        if text(loop.target) != 'item':
            env[text(loop.target)] = A.Sym('i')
            it.h.call = lambda interp, node, fname, args, kwargs, state: None
        outs = it.block(loop.body, [A.State(env)])
        # in the trailing loop `item = self[i]` rebinds; re-run with subscript value
        bad = []
        n = 0
        for kind in ('fall', 'continue', 'break'):
            for s, v in outs.get(kind, []):
                n += 1
                ass = [(e[1], e[2]) for e in s.trace if e[0] == 'assume']
                true = [k for k, v2 in ass if v2]
                sets = [e for e in s.trace if e[0] == 'setattr' and e[1] == 'item.position']
                apps = [e for e in s.trace if e[0] == 'call' and re.fullmatch(r'(horiz|vert)\.append', e[1])]
                if kind == 'break':
                    if sets or apps:
                        bad.append('stops but also marks an item')
                    continue
                if any(k.endswith('isElementContentWhitespace') for k in true):
                    if sets or apps:
                        bad.append('marks whitespace')
                    continue
                hl = any(re.search(r'isinstance\(item, Array\.hline\)', k) for k in true)
                vl = any(re.search(r'isinstance\(item, Array\.vline\)', k) for k in true)
                if hl or vl:
                    wantv = m.class_const(Array.nested['BorderCommand'], pos)
                    ok = len(sets) == 1 and len(apps) == 1 and apps[0][1].startswith('horiz' if hl else 'vert') and \
                        (sets[0][2] == wantv or str(sets[0][2]).endswith(pos))
                    extra = [k for k in true if 'isinstance' not in k]
                    if not ok:
                        bad.append('%s rule not marked %s once (%s, %s)' % ('horizontal' if hl else 'vertical', pos, sets, [a[1] for a in apps]))
                    continue
                bad.append('an item is skipped under %s (only whitespace may be skipped)' % (true or [k for k, _ in ass]))
        # any additional guard on the marking paths?
        tests = {text(n.test) for n in ast.walk(loop) if isinstance(n, ast.If)}
        allowed = {'item.isElementContentWhitespace', 'isinstance(item, Array.hline)', 'isinstance(item, Array.vline)'}
        extra = sorted(tests - allowed)
        chk.paths += n
        chk.verdict(R, 'ArrayCell.borders %s scan' % label, not bad and not extra and n >= 4,
                    'the %s scan %s%s' % (label, '; '.join(sorted(set(bad))), (' extra conditions: %s' % extra) if extra else ''),
                    chk.where(fn, loop), '%d paths' % n)


def r106(chk, m):
    R = chk.rule('R10.6', 'column specification: every column gets its own fresh ColumnType instance (repetition *{n}{..} re-reads the '
                 'tokens n times); | marks the adjacent column only', 2)
    Array = m.cls(ARR, 'Array')
    fn = m.find_method(Array, 'compileColspec')
    chk.analysed(fn)
    adds = []
    for n in M.walk_no_nested(fn.node):
        if isinstance(n, ast.Call) and re.fullmatch(r'output\.(append|extend|insert)', M.call_name(n)):
            adds.append(n)
        if isinstance(n, ast.AugAssign) and text(n.target) == 'output':
            adds.append(n)
    fresh = [a for a in adds if isinstance(a, ast.Call) and M.call_name(a) == 'output.append' and isinstance(a.args[0], ast.Call)
             and 'ColumnType' in text(a.args[0])]
    chk.verdict(R, 'compileColspec creates one fresh column object per column', len(adds) == 1 and len(fresh) == 1,
                'columns are added by %s: objects shared between columns make a | next to a repeated group mark every repetition'
                % [text(a) for a in adds], chk.where(fn))
    star = [n for n in M.walk_no_nested(fn.node) if isinstance(n, ast.If) and text(n.test) == "tok == '*'"]
    ok = len(star) == 1 and any(isinstance(c, ast.Call) and M.call_name(c) == 'tex.pushTokens' for c in ast.walk(star[0])) \
        and any(isinstance(l, ast.For) and 'range(num)' in text(l.iter) for l in ast.walk(star[0]))
    bar = [n for n in M.walk_no_nested(fn.node) if isinstance(n, ast.If) and text(n.test) == "tok == '|'"]
    okbar = len(bar) == 1 and "output[-1].style['border-right']" in text(bar[0]) and 'leftborder = True' in text(bar[0])
    chk.verdict(R, 'compileColspec: * re-reads its tokens; | marks the adjacent column', ok and okbar,
                'the * arm must push the repeated specification back num times and the | arm must mark output[-1] (or the left border)', chk.where(fn))
