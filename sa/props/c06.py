"""C06 - The document tree stays consistent under any sequence of DOM edits.

R6.1 ownership of the child list, R6.2 adders set both links, R6.3 every
other adder routes through them (detach first, locate by identity),
R6.4 clone/normalize shape, R6.5 attribute re-parenting, R6.6 deep clones do
not share attribute nodes, R6.7 derived views locate nodes by identity."""
import ast
import re

from .. import absint as A
from .. import effects as E
from .. import flow
from .. import model as M
from ..report import AnalysisError, need
from ..util import text

DOM = 'plasTeX.DOM'
OWNERS = {'plasTeX.DOM.Node.append', 'plasTeX.DOM.Node.insert', 'plasTeX.DOM.Node.pop', 'plasTeX.DOM.Node.normalize',
          'plasTeX.DOM.Node.childNodes'}


def check(chk):
    m = chk.model
    r61(chk, m)
    r62(chk, m)
    r63(chk, m)
    r64_r66(chk, m)
    r65(chk, m)
    r67(chk, m)
    chk.decline('agreement of the derived views with a list model for every history (runtime); decided are the structural '
                'preconditions: one owner of the child list, both links set by the adders, identity-based location')


def child_list_expr(e):
    t = text(e)
    return re.search(r'(^|\.)(childNodes|_dom_childNodes)$', t) is not None


def r61(chk, m):
    R = chk.rule('R6.1', 'only Node.append/insert/pop/normalize and the childNodes property mutate a child list; '
                 '_dom_childNodes is bound only by the childNodes getter', 5)
    n_owner_sites = 0
    positive = False
    for fn in E.all_functions(m):
        if 'simpletal' in fn.fullname:
            continue
        aliases = set()
        for n in M.walk_no_nested(fn.node):
            if isinstance(n, ast.Assign) and child_list_expr(n.value):
                for t in n.targets:
                    if isinstance(t, ast.Name):
                        aliases.add(t.id)
        sites = []
        for n in M.walk_no_nested(fn.node):
            if isinstance(n, ast.Call) and isinstance(n.func, ast.Attribute) and n.func.attr in E.MUTATORS:
                r = n.func.value
                if child_list_expr(r) or (isinstance(r, ast.Name) and r.id in aliases):
                    sites.append((n, 'mutates %s.%s()' % (text(r), n.func.attr)))
            tgts = []
            if isinstance(n, ast.Assign):
                tgts = n.targets
            elif isinstance(n, (ast.AugAssign, ast.AnnAssign)):
                tgts = [n.target]
            elif isinstance(n, ast.Delete):
                tgts = n.targets
            for t in tgts:
                if isinstance(t, ast.Subscript) and (child_list_expr(t.value) or (isinstance(t.value, ast.Name) and t.value.id in aliases)):
                    sites.append((n, 'stores into %s[...]' % text(t.value)))
                if isinstance(t, ast.Attribute) and t.attr in ('childNodes', '_dom_childNodes'):
                    sites.append((n, 'rebinds %s' % text(t)))
                if isinstance(t, ast.Name) and isinstance(n, ast.AugAssign) and t.id in aliases:
                    sites.append((n, 'augments alias %s' % t.id))
        for n, what in sites:
            chk.analysed(fn)
            chk.call_sites += 1
            rebind = what.startswith('rebinds')
            allowed = fn.fullname in OWNERS and (not rebind or fn.fullname == 'plasTeX.DOM.Node.childNodes')
            if allowed:
                n_owner_sites += 1
            chk.verdict(R, '%s :: %s' % (fn.fullname, what), allowed,
                        '%s %s: the child list may only be changed by Node.append/insert/pop/normalize (which keep parent and '
                        'owner links and the attribute-held child list in step); a rebinding detaches the list shared with '
                        "attributes['self']" % (fn.fullname, what), chk.where(fn, n))
    need(n_owner_sites >= 5, 'owner sites of the child list not found (%d)' % n_owner_sites)
    # positive control: the scanner must see a raw mutation in a fixture
    fx = ast.parse('def f(node, x):\n    node.childNodes.append(x)\n    l = node.childNodes\n    l[0] = x\n    node._dom_childNodes = []\n')
    hits = 0
    for n in ast.walk(fx):
        if isinstance(n, ast.Call) and isinstance(n.func, ast.Attribute) and n.func.attr in E.MUTATORS and child_list_expr(n.func.value):
            hits += 1
        if isinstance(n, ast.Assign) and isinstance(n.targets[0], ast.Attribute) and n.targets[0].attr == '_dom_childNodes':
            hits += 1
    need(hits == 2, 'positive fixture for the ownership scanner did not match')


def r62(chk, m):
    R = chk.rule('R6.2', 'append and insert: on every path that puts the child into the list, ownerDocument is assigned '
                 'unconditionally and parentNode under exactly the setParent guard; fragments are inserted item by item '
                 '(insert advances the index)', 6)
    for name in ('append', 'insert'):
        fn = m.func(DOM, 'Node.' + name)
        chk.analysed(fn)

        def transfer(n, v):
            listed, owner, parent, rec = v
            if isinstance(n, ast.Call) and re.fullmatch(r'self\.childNodes\.(append|insert)', M.call_name(n)):
                listed = True
            if isinstance(n, ast.Call) and M.call_name(n) == 'self.' + name:
                rec = True
            if isinstance(n, ast.Assign):
                for t in n.targets:
                    if text(t) == 'newChild.ownerDocument':
                        owner = text(n.value)
                    if text(t) == 'newChild.parentNode':
                        parent = True
            return (listed, owner, parent, rec)
        normal, raised = flow.function_exits(fn.node, (False, None, False, False), transfer)
        chk.paths += len(normal)
        need(normal, 'Node.%s has no normal exit' % name)
        bad_owner = [v for v in normal if (v[0] or v[3]) and v[1] != 'self.ownerDocument']
        chk.verdict(R, 'Node.%s sets ownerDocument' % name, not bad_owner,
                    'Node.%s can return after listing the child without newChild.ownerDocument = self.ownerDocument' % name, chk.where(fn))
        # parentNode assignments are exactly under `if setParent:`
        pa = [n for n in M.walk_no_nested(fn.node) if isinstance(n, ast.Assign) and any(text(t) == 'newChild.parentNode' for t in n.targets)]
        guards = [guard_chain(fn.node, n) for n in pa]
        vals = sorted(text(n.value) for n in pa)
        ok = bool(pa) and all(g and g[0] == 'setParent' for g in guards) and vals == ['self', 'self.parentNode']
        frag_guard = all(len(g) == 2 and 'DOCUMENT_FRAGMENT_NODE' in g[1] for g in guards)
        chk.verdict(R, 'Node.%s sets parentNode under setParent' % name, ok and frag_guard,
                    'Node.%s assigns newChild.parentNode = %s under guards %s; expected self / self.parentNode (for fragments) '
                    'under `if setParent`' % (name, vals, guards), chk.where(fn))
        # fragment arm recurses per item with the same setParent
        rec = [c for c in M.calls_in(fn.node) if M.call_name(c) == 'self.' + name]
        ok = bool(rec) and all(any(k.arg == 'setParent' and text(k.value) == 'setParent' for k in c.keywords) for c in rec)
        if name == 'insert':
            loops = [n for n in M.walk_no_nested(fn.node) if isinstance(n, ast.For)]
            adv = any(isinstance(x, ast.AugAssign) and text(x.target) == 'i' and isinstance(x.op, ast.Add) and text(x.value) == '1'
                      for l in loops for x in ast.walk(l))
            ok = ok and adv
        chk.verdict(R, 'Node.%s inserts fragments item by item' % name, ok,
                    'the fragment arm of Node.%s must call self.%s(item, setParent=setParent) per item%s'
                    % (name, name, ' and advance the index' if name == 'insert' else ''), chk.where(fn))


def guard_chain(root, node):
    """Tests of the enclosing if statements, outermost first ('not' prefix for else arms)."""
    chain = []

    def visit(stmts, acc):
        for st in stmts:
            if st is node:
                chain.extend(acc)
                return True
            if isinstance(st, ast.If):
                if visit(st.body, acc + [text(st.test)]) or visit(st.orelse, acc + ['not ' + text(st.test)]):
                    return True
            elif isinstance(st, (ast.For, ast.While, ast.With)):
                if visit(st.body, acc) or visit(getattr(st, 'orelse', []), acc):
                    return True
            elif isinstance(st, ast.Try):
                if visit(st.body, acc) or any(visit(h.body, acc) for h in st.handlers) or visit(st.orelse, acc) or visit(st.finalbody, acc):
                    return True
        return False
    visit(root.body, [])
    return chain


def r63(chk, m):
    R = chk.rule('R6.3', 'every other adder reaches the child list only through append/insert/pop; the relative inserts first '
                 'detach newChild, then locate refChild by identity and raise NotFoundErr when absent', 12)
    Node = m.cls(DOM, 'Node')
    for name in ('insertBefore', 'insertAfter', 'replaceChild', '__setitem__', 'extend', 'appendText', 'cloneNode', '__add__', '__radd__', 'removeChild'):
        fn = m.find_method(Node, name)
        need(fn is not None, 'Node.%s not found' % name)
        chk.analysed(fn)
        calls = [M.call_name(c) for c in M.calls_in(fn.node)]
        routes = [c for c in calls if re.fullmatch(r'(self|obj|node)\.(append|appendChild|insert|pop)', c)]
        chk.verdict(R, 'Node.%s routes through append/insert/pop' % name, bool(routes),
                    'Node.%s does not call append/insert/pop (calls: %s)' % (name, sorted(set(calls))), chk.where(fn), str(sorted(set(routes))))
    for name, offset in (('insertBefore', 'i'), ('insertAfter', 'i + 1'), ('replaceChild', 'i')):
        fn = m.find_method(Node, name)
        # order of events along the body: removeChild(newChild) in try/except NotFoundErr, then a search loop
        body = fn.node.body
        stmts = [s for s in body if not (isinstance(s, ast.Expr) and isinstance(s.value, ast.Constant))]
        ok_detach = isinstance(stmts[0], ast.Try) and 'self.removeChild(newChild)' in text(stmts[0].body[0]) and \
            all(h.type is not None and 'NotFoundErr' in text(h.type) for h in stmts[0].handlers)
        loops = [s for s in stmts if isinstance(s, ast.For)]
        ok_loop = False
        detail = ''
        if len(loops) == 1 and stmts.index(loops[0]) > 0:
            l = loops[0]
            tests = [n for n in ast.walk(l) if isinstance(n, ast.Compare)]
            ident = [t for t in tests if isinstance(t.ops[0], ast.Is)]
            ins = [c for c in ast.walk(l) if isinstance(c, ast.Call) and M.call_name(c) == 'self.insert']
            ok_loop = len(tests) == 1 and len(ident) == 1 and len(ins) == 1 and text(ins[0].args[0]) == offset and text(ins[0].args[1]) == 'newChild'
            if name == 'replaceChild':
                pops = [c for c in ast.walk(l) if isinstance(c, ast.Call) and M.call_name(c) == 'self.pop']
                ok_loop = ok_loop and len(pops) == 1 and text(pops[0].args[0]) == 'i' and pops[0].lineno < ins[0].lineno
            detail = 'test %s, insert at %s' % ([text(t) for t in tests], [text(c.args[0]) for c in ins])
        ends_raise = isinstance(stmts[-1], ast.Raise) and 'NotFoundErr' in text(stmts[-1].exc)
        chk.verdict(R, 'Node.%s: detach, locate by identity, insert at %s' % (name, offset), ok_detach and ok_loop and ends_raise,
                    'Node.%s must (1) detach newChild inside try/except NotFoundErr BEFORE searching, (2) find the reference child '
                    'with `is`, (3) insert at index %s, (4) raise NotFoundErr otherwise; found detach-first=%s, %s, raises=%s'
                    % (name, offset, ok_detach, detail, ends_raise), chk.where(fn))
    fn = m.find_method(Node, 'removeChild')
    tests = [n for n in ast.walk(fn.node) if isinstance(n, ast.Compare)]
    chk.verdict(R, 'Node.removeChild locates by identity', len(tests) == 1 and isinstance(tests[0].ops[0], ast.Is),
                'removeChild compares with %s: equal-but-distinct nodes (two identical text nodes) would be confused'
                % [text(t) for t in tests], chk.where(fn))


def r64_r66(chk, m):
    R = chk.rule('R6.4', 'deep cloneNode appends clones of the children; normalize disposes of every saved child exactly once '
                 'and flushes the text buffer after the loop; the child list is emptied in place', 4)
    Node = m.cls(DOM, 'Node')
    fn = m.find_method(Node, 'cloneNode')
    chk.analysed(fn)
    deep_if = [n for n in M.walk_no_nested(fn.node) if isinstance(n, ast.If) and text(n.test) == 'deep']
    need(len(deep_if) == 1, 'Node.cloneNode: `if deep:` not found')
    deep = deep_if[0]
    apps = [c for s in deep.body for c in ast.walk(s) if isinstance(c, ast.Call) and M.call_name(c) == 'node.append']
    ok = bool(apps) and all(re.fullmatch(r'\w+\.cloneNode\((deep|True|deep=True|deep=deep)\)', text(c.args[0])) for c in apps)
    chk.verdict(R, 'cloneNode(deep) appends clones', ok,
                'the deep arm appends %s: children must be cloned, not shared' % [text(c.args[0]) for c in apps], chk.where(fn))
    R6 = chk.rule('R6.6', 'deep clones do not share attribute nodes: no attribute value of the original is stored in the '
                  "clone's map without passing through a clone operation", 1)
    shared = []
    cloned = False
    for s in deep.body:
        for c in ast.walk(s):
            if isinstance(c, ast.Call) and M.call_name(c) == 'node.attributes.update':
                shared.append(text(c))
            if isinstance(c, ast.Assign) and any(text(t).startswith('node.attributes[') for t in c.targets):
                if re.search(r'[cC]lone', text(c.value)):
                    cloned = True
                else:
                    shared.append(text(c))
    chk.verdict(R6, 'cloneNode(deep) clones node-valued attributes', cloned and not shared,
                "the deep arm hands the original's attribute values to the clone (%s): NamedNodeMap.__setitem__ re-parents a stored "
                'node, so the originals lose their parent link and both elements share the same objects' % (shared or 'no cloning found'),
                chk.where(fn))
    helper = m.find_method(Node, '_cloneAttributeValue')
    if helper is not None:
        chk.analysed(helper)
        src = text(helper.node)
        ok = 'cloneNode(True)' in src and 'isinstance(value, list)' in src and 'isinstance(value, dict)' in src
        chk.verdict(R6, '_cloneAttributeValue covers nodes, lists and dictionaries', ok,
                    'the attribute clone helper must clone nodes and rebuild lists and dictionaries of nodes', chk.where(helper))
    # normalize
    fn = m.find_method(Node, 'normalize')
    chk.analysed(fn)
    loops = [n for n in fn.node.body if isinstance(n, ast.For)]
    need(loops, 'Node.normalize: child loop not found')
    loop = loops[-1]

    def transfer(n, v):
        buf, app = v
        if isinstance(n, ast.Call) and M.call_name(n) in ('text.append',):
            buf += 1
        if isinstance(n, ast.Call) and M.call_name(n) in ('self.appendChild', 'self.append') and n.args and text(n.args[0]) == text(loop.target):
            app += 1
        return (buf, app)
    r = flow.run(loop.body, {(0, 0)}, transfer)
    disp = r['fall'] | r['continue']
    chk.verdict(R, 'normalize disposes of each child once', disp == {(1, 0), (0, 1)} and not r['break'] and not r['return'],
                'per child, (buffered as text, appended) must be (1,0) or (0,1); found %s' % sorted(disp), chk.where(fn, loop))
    # flush before appending a non-text child and after the loop
    body_calls = [(c.lineno, M.call_name(c)) for c in M.calls_in(loop)]
    flush_before = any(nm == 'self.appendText' for l, nm in body_calls) and \
        min(l for l, nm in body_calls if nm == 'self.appendText') < min(l for l, nm in body_calls if nm in ('self.appendChild', 'self.append'))
    idx = fn.node.body.index(loop)
    after = [text(s) for s in fn.node.body[idx + 1:]]
    chk.verdict(R, 'normalize flushes text before each element and after the loop',
                flush_before and any(a.startswith('self.appendText(text') for a in after),
                'normalize must flush the text buffer before appending a non-text child and once after the loop (after: %s)' % after, chk.where(fn))
    # emptied in place (ownership of the list shared with attributes['self'])
    rebinds = [n for n in M.walk_no_nested(fn.node) if isinstance(n, ast.Assign) and any(isinstance(t, ast.Attribute) and t.attr in ('_dom_childNodes', 'childNodes') for t in n.targets)]
    pops = [c for c in M.calls_in(fn.node) if M.call_name(c) in ('self.childNodes.pop', 'self.childNodes.clear')]
    slice_del = [n for n in M.walk_no_nested(fn.node) if isinstance(n, (ast.Delete, ast.Assign)) and 'self.childNodes[:]' in text(n)]
    chk.verdict(R, 'normalize empties the child list in place', not rebinds and bool(pops or slice_del),
                "normalize must empty the existing list object (it may be the fragment held in attributes['self']); rebinding it "
                'makes the two views diverge', chk.where(fn))


def r65(chk, m):
    R = chk.rule('R6.5', 'NamedNodeMap.__setitem__ re-parents before storing; _resetPosition assigns parent and owner for node '
                 'values and recurses into fragments, lists and dictionaries', 3)
    NM = m.cls(DOM, 'NamedNodeMap')
    fn = m.find_method(NM, '__setitem__')
    chk.analysed(fn)
    calls = [(c.lineno, M.call_name(c)) for c in M.calls_in(fn.node)]
    rp = [l for l, n in calls if n == 'self._resetPosition']
    st = [l for l, n in calls if n == 'dict.__setitem__']
    chk.verdict(R, 'NamedNodeMap.__setitem__', bool(rp) and bool(st) and min(rp) < min(st),
                '__setitem__ must call _resetPosition(value) before dict.__setitem__: %s' % calls, chk.where(fn))
    fn = m.find_method(NM, '_resetPosition')
    chk.analysed(fn)
    src = text(fn.node)
    assigns = [(text(t), text(n.value)) for n in M.walk_no_nested(fn.node) if isinstance(n, ast.Assign) for t in n.targets]
    ok = ('value.parentNode', 'parent') in assigns and ('value.ownerDocument', 'self.ownerDocument') in assigns
    chk.verdict(R, '_resetPosition assigns parent and owner', ok, '_resetPosition assigns %s' % assigns, chk.where(fn))
    rec = [text(c) for c in M.calls_in(fn.node) if M.call_name(c) == 'self._resetPosition']
    ok = len(rec) >= 3 and 'DOCUMENT_FRAGMENT_NODE' in src and 'isinstance(value, list)' in src and 'isinstance(value, dict)' in src
    chk.verdict(R, '_resetPosition recurses into fragments, lists, dictionaries', ok,
                '_resetPosition recursion: %s' % rec, chk.where(fn))
    up = m.find_method(NM, 'update')
    chk.analysed(up)
    ok = any(isinstance(n, ast.Assign) and text(n.targets[0]) == 'self[key]' for n in M.walk_no_nested(up.node))
    chk.verdict(R, 'NamedNodeMap.update stores through __setitem__', ok, 'update must store with self[key] = value (re-parenting)', chk.where(up))


def r67(chk, m):
    R = chk.rule('R6.7', 'derived views locate a node among its siblings by identity (`is`), never by equality/index(): '
                 'equal-but-distinct nodes (two identical text nodes) are different children', 2)
    mod = m.module(DOM)
    for name in ('_previousSibling', '_nextSibling'):
        fn = mod.functions.get(name)
        need(fn is not None, '%s not found' % name)
        chk.analysed(fn)
        cmp_ = [n for n in M.walk_no_nested(fn.node) if isinstance(n, ast.Compare) and 'self' in [text(n.left)] + [text(c) for c in n.comparators]]
        bad = [text(c) for c in cmp_ if not isinstance(c.ops[0], (ast.Is, ast.IsNot))]
        idx = [text(c) for c in M.calls_in(fn.node) if isinstance(c.func, ast.Attribute) and c.func.attr in ('index', 'count')]
        chk.verdict(R, '%s locates self by identity' % name, bool(cmp_) and not bad and not idx,
                    '%s finds its position with %s: an earlier sibling that compares equal is mistaken for the node' % (name, bad + idx or 'no identity test'),
                    chk.where(fn))
