"""C06 - The document tree stays consistent under any sequence of DOM edits.

R6.1 ownership of the child list, R6.2 adders set both links, R6.3 every
other adder routes through them (detach first, locate by identity),
R6.4 clone/normalize shape, R6.5 attribute re-parenting, R6.6 deep clones do
not share attribute nodes, R6.7 derived views locate nodes by identity."""
import ast
import re

from .. import absint as A
from .. import effects as E
from .. import flow
from .. import model as M
from ..report import AnalysisError, need
from ..util import text

DOM = 'plasTeX.DOM'
OWNERS = {'plasTeX.DOM.Node.append', 'plasTeX.DOM.Node.insert', 'plasTeX.DOM.Node.pop', 'plasTeX.DOM.Node.normalize',
          'plasTeX.DOM.Node.childNodes'}


def check(chk):
    m = chk.model
    r61(chk, m)
    r62(chk, m)
    r63(chk, m)
    r64_r66(chk, m)
    r65(chk, m)
    r67(chk, m)
    chk.decline('agreement of the derived views with a list model for every history (runtime); decided are the structural '
                'preconditions: one owner of the child list, both links set by the adders, identity-based location')


def child_list_expr(e):
    t = text(e)
    return re.search(r'(^|\.)(childNodes|_dom_childNodes)$', t) is not None


def r61(chk, m):
    R = chk.rule('R6.1', 'only Node.append/insert/pop/normalize and the childNodes property mutate a child list; '
                 '_dom_childNodes is bound only by the childNodes getter', 5)
    n_owner_sites = 0
    positive = False
    # a private helper acts for the functions that call it
    from .c04 import resolved_calls
    callers = {}
    for f in E.all_functions(m):
        if 'simpletal' in f.fullname:
            continue
        for c, cal in resolved_calls(m, f):
            callers.setdefault(cal.fullname, set()).add(f)

    def owners_of(fn, seen=()):
        if not (fn.name.startswith('_') and not fn.name.startswith('__')) or not callers.get(fn.fullname) or fn.fullname in seen:
            return [fn.fullname]
        out = []
        for c in sorted(callers[fn.fullname], key=lambda x: x.fullname):
            for o in owners_of(c, seen + (fn.fullname,)):
                if o not in out:
                    out.append(o)
        return out
    for fn in E.all_functions(m):
        if 'simpletal' in fn.fullname:
            continue
        aliases = set()
        for n in M.walk_no_nested(fn.node):
            if isinstance(n, ast.Assign) and child_list_expr(n.value):
                for t in n.targets:
                    if isinstance(t, ast.Name):
                        aliases.add(t.id)
        sites = []
        for n in M.walk_no_nested(fn.node):
            if isinstance(n, ast.Call) and isinstance(n.func, ast.Attribute) and n.func.attr in E.MUTATORS:
                r = n.func.value
                if child_list_expr(r) or (isinstance(r, ast.Name) and r.id in aliases):
                    sites.append((n, 'mutates %s.%s()' % (text(r), n.func.attr)))
            tgts = []
            if isinstance(n, ast.Assign):
                tgts = n.targets
            elif isinstance(n, (ast.AugAssign, ast.AnnAssign)):
                tgts = [n.target]
            elif isinstance(n, ast.Delete):
                tgts = n.targets
            for t in tgts:
                if isinstance(t, ast.Subscript) and (child_list_expr(t.value) or (isinstance(t.value, ast.Name) and t.value.id in aliases)):
                    sites.append((n, 'stores into %s[...]' % text(t.value)))
                if isinstance(t, ast.Attribute) and t.attr in ('childNodes', '_dom_childNodes'):
                    sites.append((n, 'rebinds %s' % text(t)))
                if isinstance(t, ast.Name) and isinstance(n, ast.AugAssign) and t.id in aliases:
                    sites.append((n, 'augments alias %s' % t.id))
        for n, what in sites:
            chk.analysed(fn)
            chk.call_sites += 1
            rebind = what.startswith('rebinds')
            owners = owners_of(fn)
            allowed = all(o in OWNERS for o in owners) and (not rebind or owners == ['plasTeX.DOM.Node.childNodes'])
            if allowed:
                n_owner_sites += 1
            chk.verdict(R, '%s :: %s' % (fn.fullname, what), allowed,
                        '%s %s: the child list may only be changed by Node.append/insert/pop/normalize (which keep parent and '
                        'owner links and the attribute-held child list in step); a rebinding detaches the list shared with '
                        "attributes['self']" % (fn.fullname, what), chk.where(fn, n))
    need(n_owner_sites >= 5, 'owner sites of the child list not found (%d)' % n_owner_sites)
    # positive control: the scanner must see a raw mutation in a fixture
    fx = ast.parse('def f(node, x):\n    node.childNodes.append(x)\n    l = node.childNodes\n    l[0] = x\n    node._dom_childNodes = []\n')
    hits = 0
    for n in ast.walk(fx):
        if isinstance(n, ast.Call) and isinstance(n.func, ast.Attribute) and n.func.attr in E.MUTATORS and child_list_expr(n.func.value):
            hits += 1
        if isinstance(n, ast.Assign) and isinstance(n.targets[0], ast.Attribute) and n.targets[0].attr == '_dom_childNodes':
            hits += 1
    need(hits == 2, 'positive fixture for the ownership scanner did not match')


def guard_chain(root, node):
    """Tests of the enclosing if statements, outermost first ('not' prefix for else arms)."""
    chain = []

    def visit(stmts, acc):
        for st in stmts:
            if st is node:
                chain.extend(acc)
                return True
            if isinstance(st, ast.If):
                if visit(st.body, acc + [text(st.test)]) or visit(st.orelse, acc + ['not ' + text(st.test)]):
                    return True
            elif isinstance(st, (ast.For, ast.While, ast.With)):
                if visit(st.body, acc) or visit(getattr(st, 'orelse', []), acc):
                    return True
            elif isinstance(st, ast.Try):
                if visit(st.body, acc) or any(visit(h.body, acc) for h in st.handlers) or visit(st.orelse, acc) or visit(st.finalbody, acc):
                    return True
        return False
    visit(root.body, [])
    return chain


def edit_cases(m):
    """(method, label, builder) - builder returns (env, parent key, expected child labels, expected outcome kind, extra check)."""
    from . import domheap as D

    def base():
        d = D.Dom(m)
        a, b = d.elem('a'), d.elem('b')
        P = d.elem('P', [a, b])
        x, y = d.elem('x'), d.elem('y')
        f1, f2 = d.elem('f1'), d.elem('f2')
        F = d.frag('F', [f1, f2])
        return d, dict(P=P, a=a, b=b, x=x, y=y, F=F, f1=f1, f2=f2, E=d.frag('E', []))

    def twins():
        d = D.Dom(m)
        t1, t2 = d.text('t1', 'same'), d.text('t2', 'same')
        b, c = d.elem('b'), d.elem('c')
        P = d.elem('P', [t1, b, t2, c])
        for t in (t1, t2):
            t.attrs['parentNode'] = P
        return d, dict(P=P, t1=t1, t2=t2, b=b, c=c, x=d.elem('x'))
    def base3():
        d = D.Dom(m)
        a, b, c = d.elem('a'), d.elem('b'), d.elem('c')
        P = d.elem('P', [a, b, c])
        return d, dict(P=P, a=a, b=b, c=c, x=d.elem('x'))
    C = []
    add = lambda meth, label, mk, args, want, kind='return', setparent=True: C.append((meth, label, mk, args, want, kind, setparent))
    add('append', 'a node', base, {'newChild': 'x'}, ['a', 'b', 'x'])
    add('append', 'a fragment is appended item by item', base, {'newChild': 'F'}, ['a', 'b', 'f1', 'f2'])
    add('append', 'setParent=False still sets the owner', base, {'newChild': 'x', 'setParent': False}, ['a', 'b', 'x'], setparent=False)
    add('insert', 'a node', base, {'i': 1, 'newChild': 'x'}, ['a', 'x', 'b'])
    add('insert', 'a fragment keeps its order', base, {'i': 1, 'newChild': 'F'}, ['a', 'f1', 'f2', 'b'])
    add('insert', 'a fragment at an index beyond the end', base, {'i': 5, 'newChild': 'F'}, ['a', 'b', 'f1', 'f2'])
    add('insertBefore', 'before a child', base, {'newChild': 'x', 'refChild': 'b'}, ['a', 'x', 'b'])
    add('insertBefore', 'moving a child', base, {'newChild': 'b', 'refChild': 'a'}, ['b', 'a'])
    add('insertBefore', 'reference is not a child', base, {'newChild': 'x', 'refChild': 'y'}, ['a', 'b'], kind='raise NotFoundErr')
    add('insertBefore', 'reference among equal siblings is found by identity', twins, {'newChild': 'x', 'refChild': 't2'}, ['t1', 'b', 'x', 't2', 'c'])
    add('insertAfter', 'after the first child', base, {'newChild': 'x', 'refChild': 'a'}, ['a', 'x', 'b'])
    add('insertAfter', 'after the last child', base, {'newChild': 'x', 'refChild': 'b'}, ['a', 'b', 'x'])
    add('insertAfter', 'reference among equal siblings is found by identity', twins, {'newChild': 'x', 'refChild': 't2'}, ['t1', 'b', 't2', 'x', 'c'])
    add('insertAfter', 'moving an earlier child', base3, {'newChild': 'a', 'refChild': 'b'}, ['b', 'a', 'c'])
    add('insertBefore', 'moving an earlier child', base3, {'newChild': 'a', 'refChild': 'c'}, ['b', 'a', 'c'])
    add('insertBefore', 'moving a later child', base3, {'newChild': 'c', 'refChild': 'a'}, ['c', 'a', 'b'])
    add('replaceChild', 'by a node that is already a child', base3, {'newChild': 'a', 'oldChild': 'c'}, ['b', 'a'])
    add('replaceChild', 'a child', base, {'newChild': 'x', 'oldChild': 'a'}, ['x', 'b'])
    add('replaceChild', 'old child is not a child', base, {'newChild': 'x', 'oldChild': 'y'}, ['a', 'b'], kind='raise NotFoundErr')
    add('removeChild', 'a child', base, {'oldChild': 'b'}, ['a'])
    add('removeChild', 'the second of two equal siblings', twins, {'oldChild': 't2'}, ['t1', 'b', 'c'])
    add('removeChild', 'not a child', base, {'oldChild': 'x'}, ['a', 'b'], kind='raise NotFoundErr')
    add('pop', 'by index', base, {'index': 0}, ['b'])
    add('__setitem__', 'a node', base, {'i': 0, 'node': 'x'}, ['x', 'b'])
    add('__setitem__', 'a fragment', base, {'i': 0, 'node': 'F'}, ['f1', 'f2', 'b'])
    add('__setitem__', 'an empty fragment removes the addressed child only', base, {'i': 0, 'node': 'E'}, ['b'])
    add('__setitem__', 'an empty fragment at the last position', base, {'i': 1, 'node': 'E'}, ['a'])
    add('__setitem__', 'a fragment at the last position', base, {'i': 1, 'node': 'F'}, ['a', 'f1', 'f2'])
    add('append', 'an empty fragment adds nothing', base, {'newChild': 'E'}, ['a', 'b'])
    add('insert', 'an empty fragment adds nothing', base, {'i': 1, 'newChild': 'E'}, ['a', 'b'])
    add('extend', 'a list of nodes', base, {'other': ['x', 'y']}, ['a', 'b', 'x', 'y'])
    return C


def r62(chk, m):
    from . import domheap as D
    R = chk.rule('R6.2', 'tree edits on a small heap (abstract interpretation of Node.append/insert/insertBefore/insertAfter/'
                 'replaceChild/removeChild/pop/__setitem__/extend): the child list afterwards is the one of the plain list model, '
                 'every listed child has this node as parent and its document as owner, no child is listed twice, reference '
                 'children are located by identity (equal-but-distinct siblings are different children), a missing reference '
                 'raises NotFoundErr and changes nothing', 20)
    Node = m.cls(DOM, 'Node')
    for meth, label, mk, args, want, kind, setparent in edit_cases(m):
        fn = m.find_method(Node, meth)
        need(fn is not None, 'Node.%s not found' % meth)
        chk.analysed(fn)
        d, nodes = mk()
        env = {'self': nodes['P'], '__P': nodes['P']}
        for k, v in args.items():
            env[k] = nodes[v] if isinstance(v, str) and v in nodes else ([nodes[x] for x in v] if isinstance(v, list) else v)
        for prm in fn.node.args.args[1:]:
            if prm.arg not in env:
                dflt = fn.node.args.defaults[len(fn.node.args.defaults) - (len(fn.node.args.args) - fn.node.args.args.index(prm)):]
                env[prm.arg] = m.eval_const(fn, dflt[0]) if dflt else None
        try:
            outs = D.run(m, fn, env)
        except D.Imprecise as e:
            chk.undecided(R, 'Node.%s: %s' % (meth, label), 'the interpretation lost effects on heap objects: %s' % e, chk.where(fn))
            continue
        chk.paths += len(outs)
        got = set()
        for k2, s2, v in outs:
            P = s2.env['__P']
            lst = D.children(P)
            labs = tuple(D.label_of(c) for c in lst) if lst is not None else ('?',)
            probs = tuple(D.link_problems(P, expect_parent=True))
            if not setparent:
                probs = tuple(p for p in probs if 'parentNode' not in p)
            got.add((k2 if k2 != 'raise' else 'raise %s' % v, labs, probs))
        w = (kind, tuple(want), ())
        chk.decide(R, 'Node.%s: %s' % (meth, label), {repr(g) for g in got}, {repr(w)},
                   'Node.%s(%s) on the children [a, b] (or [t1, b, t2, c] with t1 == t2) gives (outcome, children, link problems) = %s; '
                   'expected %s' % (meth, ', '.join('%s=%s' % kv for kv in args.items()), sorted(got, key=repr), w), chk.where(fn))


def r63(chk, m):
    from . import domheap as D
    R = chk.rule('R6.3', 'derived views on the heap: nextSibling / previousSibling locate the node among equal-but-distinct siblings '
                 'by identity; text concatenation helpers route through append', 4)
    mod = m.module(DOM)
    for name, which, want in (('_nextSibling', 't2', 'c'), ('_nextSibling', 't1', 'b'), ('_previousSibling', 't2', 'b'), ('_previousSibling', 'c', 't2'),
                              ('_nextSibling', 'c', 'None'), ('_previousSibling', 't1', 'None')):
        fn = m.func_or_none(mod, name)
        d = D.Dom(m)
        if fn is not None:
            chk.analysed(fn)
            t1, t2 = d.text('t1', 'same'), d.text('t2', 'same')
        else:
            # not a plain function any more (a partial object, a method ...): the property is read on the node, whatever computes it;
            # the equal siblings are two empty elements that compare equal
            t1, t2 = d.elem('t1', eq='same'), d.elem('t2', eq='same')
        b, c = d.elem('b'), d.elem('c')
        P = d.elem('P', [t1, b, t2, c])
        for t in (t1, t2):
            t.attrs['parentNode'] = P
        nodes = dict(t1=t1, t2=t2, b=b, c=c)
        if fn is not None:
            outs = D.run(m, fn, {'self': nodes[which]})
        else:
            Node_ = m.cls(DOM, 'Node')
            scope = m.find_method(Node_, 'hasChildNodes') or next(iter(Node_.methods.values()))
            fn = scope
            h = D.DomHooks(m, Node_)
            it = A.Interp(model=m, scope=scope, hooks=h, max_iter=12, exc_edges=False, inline=8, heap=True, precise_exc=True)
            st = A.State({'self': nodes[which]})
            try:
                val = it.ev(ast.parse('self.%s' % name.strip('_'), mode='eval').body, st)
            except AnalysisError as e:
                chk.undecided(R, '%s of %s among [t1, b, t2, c] (t1 == t2)' % (name.strip('_'), which), str(e), chk.where(Node_))
                continue
            if it.imprecise or it.unknown_branches or val is A.TOP:
                chk.undecided(R, '%s of %s among [t1, b, t2, c] (t1 == t2)' % (name.strip('_'), which),
                              'reading the property gives %r (%s)' % (val, '; '.join((list(it.imprecise) + list(it.unknown_branches))[:2])), chk.where(Node_))
                continue
            outs = [('return' if '__exc' not in st.env else 'raise', st, val)]
        got = {(k2, D.label_of(v) if v is not None else 'None') for k2, s2, v in outs}
        chk.decide(R, '%s of %s among [t1, b, t2, c] (t1 == t2)' % (name.strip('_'), which), got, {('return', want)},
                   '%s(%s) with children [t1, b, t2, c] where t1 and t2 compare equal gives %s; expected %s (the position must be found by identity)'
                   % (name, which, sorted(got), want), chk.where(fn))


def r67(chk, m):
    from . import domheap as D
    R = chk.rule('R6.7', 'the child list and the name search on the heap: the child list of an element whose content is its `self` '
                 'argument is that argument itself (the same object, also while it is still empty), a missing argument gives a fresh '
                 'list that is remembered; the search by name from an ancestor finds every element of that name below it, in document '
                 'order, also inside the argument fragments of an element that has no children of its own', 5)
    Node = m.cls(DOM, 'Node')
    getter = Node.properties.get('childNodes', {}).get('get')
    need(getter is not None, 'Node.childNodes getter not found')
    chk.analysed(getter)
    for label, make in (('an empty fragment as `self` argument', lambda d: d.frag('content', [])),
                        ('a fragment with one child', lambda d: d.frag('content', [d.elem('x')])),
                        ('an empty list as `self` argument', lambda d: []),
                        ('no `self` value (None)', lambda d: None)):
        d = D.Dom(m)
        content = make(d)
        e = d.elem('e', childlist=False)
        e.attrs['attributes'] = {'self': content}
        e.attrs['__closed'] = True
        key = 'childNodes with %s' % label
        try:
            outs = D.run(m, getter, {'self': e, '__e': e, '__content': content})
        except D.Imprecise as ex:
            chk.undecided(R, key, str(ex), chk.where(getter))
            continue
        got = set()
        for k2, s2, v in outs:
            c2, e2 = s2.env['__content'], s2.env['__e']
            if k2 != 'return':
                got.add('%s %s' % (k2, v))
            elif c2 is None:
                got.add('a fresh list, remembered' if isinstance(v, list) and v == [] and e2.attrs.get('_dom_childNodes') is v else 'returns %r' % (v,))
            else:
                got.add('the argument itself, remembered' if v is c2 and e2.attrs.get('_dom_childNodes') is c2 else
                        ('another object (%s)' % (D.label_of(v) if isinstance(v, (A.Obj, A.TextObj)) else repr(v))))
        want = 'a fresh list, remembered' if content is None else 'the argument itself, remembered'
        chk.decide(R, key, got, {want}, 'the child list of an element with %s is %s; expected %s - children added later would be missing from '
                   'the argument (and from the source, the XML and clones)' % (label, sorted(got), want), chk.where(getter))
    fn = m.func_or_none(DOM, '_getElementsByTagName')
    need(fn is not None, '_getElementsByTagName not found')
    chk.analysed(fn)
    d = D.Dom(m)

    Element = m.cls(DOM, 'Element')
    Fragment = m.cls(DOM, 'DocumentFragment')

    def el(label, tag, kids=(), attributes=None):
        e = d.elem(label, list(kids))
        e.cls = Element
        e.attrs['tagName'] = tag
        e.attrs['attributes'] = attributes
        return e
    t_attr = el('target-in-title', 'math')
    title = d.frag('title', [d.text('tt', 'One '), t_attr])
    title.cls = Fragment
    leaf = el('section-without-children', 'section', [], {'title': title})
    t_deep = el('target-deep', 'math')
    root = el('root', 'document', [el('first', 'par', [el('target-first', 'math')]), leaf, el('last', 'par', [el('group', 'bgroup', [t_deep])])])
    try:
        outs = D.run(m, fn, {'self': root, 'tagname': 'math'}, filt=lambda fname, node, info: True)
        got = {(k2, ' '.join(D.label_of(x) for x in v) if isinstance(v, list) else repr(v)) for k2, s2, v in outs}
        chk.decide(R, 'getElementsByTagName from the root', got, {('return', 'target-first target-in-title target-deep')},
                   'searching `math` below root[par[math] section(title: math) par[group[math]]] gives %s; expected the three elements in document order'
                   % sorted(got), chk.where(fn))
    except D.Imprecise as ex:
        chk.undecided(R, 'getElementsByTagName from the root', str(ex), chk.where(fn))


def r64_r66(chk, m):
    from . import domheap as D
    R = chk.rule('R6.4', 'cloneNode(deep) and normalize on the heap: a deep clone has clones of the children (no node shared with the '
                 'original, which is left untouched) chained to the clone; normalize merges adjacent text nodes, keeps the other '
                 'children in order with correct links, also inside fragments held in attributes, and keeps the list object', 5)
    Node = m.cls(DOM, 'Node')
    fn = m.find_method(Node, 'cloneNode')
    chk.analysed(fn)
    d = D.Dom(m)
    a, b = d.elem('a'), d.elem('b', [d.elem('b1')])
    P = d.elem('P', [a, b], attributes=None)
    outs = D.run(m, fn, {'self': P, 'deep': True, '__P': P})
    got = set()
    for k2, s2, v in outs:
        P2 = s2.env['__P']
        orig = tuple(D.label_of(c) for c in D.children(P2))
        if isinstance(v, A.Obj) and D.children(v) is not None:
            kids = D.children(v)
            shared = [D.label_of(c) for c in kids if any(c is o for o in D.children(P2))]
            deep2 = [len(D.children(c) or []) for c in kids]
            got.add((k2, orig, len(kids), tuple(shared), tuple(D.link_problems(v)), tuple(deep2), tuple(D.link_problems(P2))))
        else:
            got.add((k2, orig, 'TOP'))
    want = ('return', ('a', 'b'), 2, (), (), (0, 1), ())
    chk.decide(R, 'cloneNode(deep) clones the children', {repr(g) for g in got}, {repr(want)},
               'P.cloneNode(True) with children [a, b[b1]] gives (outcome, original children, clone children, shared nodes, link problems of the clone, '
               'grandchildren, link problems of the original) = %s; expected %s' % (sorted(got, key=repr), want), chk.where(fn))
    R6 = chk.rule('R6.6', 'deep clones do not share attribute nodes: a node or fragment stored in the attribute map of the original is '
                  'cloned for the clone, and the original keeps its own', 1)
    d = D.Dom(m)
    tnode = d.elem('title')
    frag = d.frag('F', [d.elem('f1')])
    E = d.elem('E', [], attributes={'title': tnode, 'toc': frag, 'n': 3})
    tnode.attrs['parentNode'] = E
    outs = D.run(m, fn, {'self': E, 'deep': True, '__P': E}, cls=Node)
    got = set()
    for k2, s2, v in outs:
        E2 = s2.env['__P']
        oa = E2.attrs.get('attributes')
        ca = v.attrs.get('attributes') if isinstance(v, A.Obj) else None
        if not isinstance(ca, dict) or not isinstance(oa, dict):
            got.add((k2, 'TOP'))
            continue
        got.add((k2, tuple(sorted(ca)), ca.get('title') is oa.get('title'), ca.get('toc') is oa.get('toc'), ca.get('n'),
                 oa['title'].attrs.get('parentNode') is E2))
    want = ('return', ('n', 'title', 'toc'), False, False, 3, True)
    chk.decide(R6, 'cloneNode(deep) clones node-valued attributes', {repr(g) for g in got}, {repr(want)},
               'deep clone of an element with attributes {title: node, toc: fragment, n: 3}: (outcome, keys, title shared, toc shared, n, original title '
               'still parented by the original) = %s; expected %s' % (sorted(got, key=repr), want), chk.where(fn))
    # a text node, and nodes inside a list / a dictionary, held in the attribute map
    d = D.Dom(m)
    txt = d.text('caption-text', 'Caption')
    inlist, indict = d.elem('in-list'), d.elem('in-dict')
    E = d.elem('E', [], attributes={'label': txt, 'items': [inlist, 7], 'table': {'k': indict}})
    txt.attrs['parentNode'] = E
    try:
        outs = D.run(m, fn, {'self': E, 'deep': True, '__P': E}, cls=Node)
        got = set()
        for k2, s2, v in outs:
            E2 = s2.env['__P']
            oa = E2.attrs.get('attributes')
            ca = v.attrs.get('attributes') if isinstance(v, A.Obj) else None
            if not isinstance(ca, dict) or not isinstance(oa, dict) or not isinstance(ca.get('items'), list) or not isinstance(ca.get('table'), dict):
                got.add((k2, 'TOP'))
                continue
            got.add((k2, 'text shared' if ca.get('label') is oa.get('label') else 'text cloned', str(ca.get('label')) if isinstance(ca.get('label'), str) else 'TOP',
                     'list item shared' if ca['items'][:1] and ca['items'][0] is oa['items'][0] else 'list item cloned', ca['items'][1:] == [7],
                     'dict item shared' if ca['table'].get('k') is oa['table'].get('k') else 'dict item cloned',
                     'original text still parented by the original' if oa['label'].attrs.get('parentNode') is E2 else 'original text re-parented'))
        want = ('return', 'text cloned', 'Caption', 'list item cloned', True, 'dict item cloned', 'original text still parented by the original')
        chk.decide(R6, 'cloneNode(deep) clones text nodes and nodes inside containers of the attribute map', {repr(g) for g in got}, {repr(want)},
                   'deep clone of an element with attributes {label: text node, items: [node, 7], table: {k: node}} gives %s; expected %s - a text node is '
                   'a string and a node at once, and must be treated as a node' % (sorted(got, key=repr), want), chk.where(fn))
    except D.Imprecise as ex:
        chk.undecided(R6, 'cloneNode(deep) clones text nodes and nodes inside containers of the attribute map', str(ex), chk.where(fn))
    # normalize
    fn = m.find_method(Node, 'normalize')
    chk.analysed(fn)

    def norm_case(children_spec, via_attribute=False):
        d = D.Dom(m)
        kids = [d.text(l, v) if v is not None else d.elem(l) for l, v in children_spec]
        if via_attribute:
            F = d.frag('F', kids)
            for k in kids:
                k.attrs['parentNode'] = F
            E = d.elem('E', None, attributes={'title': F}, childlist=False)
            E.attrs['nonNormalizedAttrs'] = []
            F.attrs['parentNode'] = E
            target = F
        else:
            E = d.elem('E', kids)
            for k in kids:
                k.attrs['parentNode'] = E
            target = E
        lst0 = D.children(target)
        outs = D.run(m, fn, {'self': E, 'charsubs': None, '__T': target, '__L': lst0}, max_iter=10)
        got = set()
        for k2, s2, v in outs:
            T = s2.env['__T']
            lst = D.children(T)
            if lst is None:
                got.add((k2, 'TOP'))
                continue
            desc = tuple(('text', str(c)) if isinstance(c, A.TextObj) else D.label_of(c) for c in lst)
            probs = tuple(p for p in D.link_problems(T, expect_parent=not via_attribute))
            got.add((k2, desc, probs, lst is s2.env['__L']))
        return got
    for label, spec, via, want in (
            ('adjacent text nodes are merged', [('t1', 'ab'), ('t2', 'cd'), ('e', None), ('t3', 'x')], False, (('text', 'abcd'), 'e', ('text', 'x'))),
            ('text at the end is flushed', [('e', None), ('t1', 'a'), ('t2', 'b')], False, ('e', ('text', 'ab'))),
            ('elements keep their order', [('e1', None), ('e2', None)], False, ('e1', 'e2')),
            ('a fragment held in an attribute of an element without children is normalized', [('t1', 'ab'), ('t2', 'cd')], True, (('text', 'abcd'),))):
        got = norm_case(spec, via)
        w = ('return', want, (), True)
        chk.decide(R, 'normalize: %s' % label, {repr(g) for g in got}, {repr(w)},
                   'normalize on %s gives (outcome, children, link problems, same list object) = %s; expected %s'
                   % ([v if v is not None else l for l, v in spec], sorted(got, key=repr), w), chk.where(fn))


def r65(chk, m):
    from . import domheap as D
    R = chk.rule('R6.5', 'attribute maps on the heap: storing a value with map[name] = value or map.update() re-parents it - a node gets '
                 'the element as parent and its document as owner, the items of a fragment get the fragment as parent, nodes inside '
                 'lists and dictionaries are reached as well', 4)
    NM = m.cls(DOM, 'NamedNodeMap')
    fn = m.find_method(NM, '__setitem__')
    up = m.find_method(NM, 'update')
    need(fn is not None and up is not None, 'NamedNodeMap.__setitem__/update not found')
    chk.analysed(fn)
    chk.analysed(up)

    class NH(D.DomHooks):
        def call(self, interp, node, fname, args, kwargs, state):
            if fname == 'dict.__setitem__' and len(args) == 3 and isinstance(args[0], A.Obj):
                args[0].attrs.setdefault('__store', {})[args[1]] = args[2]
                return A.NONE
            if fname == 'isinstance' and len(args) == 2 and text(node.args[1]) in ('list', 'dict'):
                return isinstance(args[0], list if text(node.args[1]) == 'list' else dict)
            return D.DomHooks.call(self, interp, node, fname, args, kwargs, state)

    def run(f, value_of, extra):
        d = D.Dom(m)
        owner = d.elem('E')
        themap = A.Obj('map', {'parentNode': owner, 'ownerDocument': d.doc, '__store': {}}, cls=NM)
        vals = value_of(d)
        env = {'self': themap, '__E': owner, '__vals': vals}
        env.update(extra(vals))
        h = NH(m, NM)
        it = A.Interp(model=m, scope=f, hooks=h, max_iter=8, exc_edges=False, inline=10, heap=True, precise_exc=True)
        outs = it.run_function(f, env=env)
        need(not it.imprecise, 'NamedNodeMap: %s' % it.imprecise[:2])
        need(not it.unknown_branches, 'NamedNodeMap: test not determined: %s' % it.unknown_branches[:2])
        res = set()
        for k2, s2, v in outs:
            E2, vs, mp = s2.env['__E'], s2.env['__vals'], s2.env['self']
            probs = []
            for label, node, want_parent in vs['expect'](vs, E2):
                if node.attrs.get('parentNode') is not want_parent:
                    probs.append('%s.parentNode is %s' % (label, D.label_of(node.attrs.get('parentNode'))))
                if node.attrs.get('ownerDocument') is not mp.attrs.get('ownerDocument'):
                    probs.append('%s.ownerDocument not set' % label)
            res.add((k2, tuple(sorted(mp.attrs.get('__store', {}))), tuple(probs)))
        return res

    def node_val(d):
        n = d.elem('n')
        n.attrs['ownerDocument'] = None
        return {'v': n, 'expect': lambda vs, E2: [('n', vs['v'], E2)]}

    def frag_val(d):
        f1 = d.elem('f1')
        f1.attrs['ownerDocument'] = None
        F = d.frag('F', [f1])
        return {'v': F, 'f1': f1, 'expect': lambda vs, E2: [('f1', vs['f1'], vs['v'])]}

    def list_val(d):
        a, b = d.elem('a'), d.elem('b')
        a.attrs['ownerDocument'] = b.attrs['ownerDocument'] = None
        return {'v': [a, {'k': b}], 'a': a, 'b': b, 'expect': lambda vs, E2: [('a', vs['a'], E2), ('b', vs['b'], E2)]}
    for label, mk in (('a node', node_val), ('a fragment', frag_val), ('a list holding a node and a dictionary', list_val)):
        got = run(fn, mk, lambda vs: {'name': 'title', 'value': vs['v']})
        chk.decide(R, 'NamedNodeMap.__setitem__: %s' % label, {repr(g) for g in got}, {repr(('return', ('title',), ()))},
                   'map["title"] = <%s> gives (outcome, stored keys, link problems) = %s; expected the value stored and re-parented'
                   % (label, sorted(got, key=repr)), chk.where(fn))
    got = run(up, node_val, lambda vs: {'other': {'title': vs['v']}})
    chk.decide(R, 'NamedNodeMap.update stores through __setitem__', {repr(g) for g in got}, {repr(('return', ('title',), ()))},
               'map.update({"title": node}) gives (outcome, stored keys, link problems) = %s; expected the node stored and re-parented'
               % sorted(got, key=repr), chk.where(up))
