"""C07 - Parsing loses, duplicates or reorders no text and yields a well-formed tree.

R7.1 token linearity in every digestion loop, R7.2 paragraph grouping
linearity and normalisation of every rebuilt paragraph, R7.3 absorb-or-return
by level (cell table over the level constants), R7.4 level table,
R7.5 no substitution in verbatim/math containers, R7.7 the outermost text
container always normalises."""
import ast
import re

from .. import absint as A
from .. import effects as E
from .. import flow
from .. import model as M
from ..report import AnalysisError, need
from ..util import SelfHooks, text, tex_name, macro_classes

# digestion loops whose zero-disposition paths are deliberate (one reason each)
# (keyed by the class: the loop may live in digest() or in a private helper of it)
DELIBERATE_DROP = {
    'plasTeX.Base.LaTeX.Bibliography.thebibliography':
        'everything before the first \\bibitem is discarded on purpose (no text belongs there)',
    'plasTeX.Base.LaTeX.Lists.List':
        'leading whitespace is dropped and a leading \\setcounter is digested in place',
}


def check(chk):
    m = chk.model
    r71(chk, m)
    r72(chk, m)
    r73(chk, m)
    r74(chk, m)
    r75(chk, m)
    r77(chk, m)
    r78(chk, m)
    from . import shared
    shared.grouping_rules(chk, m, 'R7.9')
    shared.verbatim_override_rules(chk, m, 'R7.10')
    r711(chk, m)
    r712(chk, m)
    from . import c11
    c11.r111(chk, m, rule_id='R7.13')      # a verbatim scan that misses its end swallows the rest of the document
    r714(chk, m)
    chk.decline('word order and multiplicity for concrete documents; parent chains of every generated tree (runtime)')


def r714(chk, m):
    R = chk.rule('R7.14', 'an expanded argument gets the typographic substitutions: readArgumentAndSource, interpreted with a scripted '
                 'reader that returns a document fragment, normalises that fragment exactly once with the substitution list in force - the '
                 'one handed in, or the document\'s own when none is given (section titles are never normalised again later)', 2)
    TeX = m.cls('plasTeX.TeX', 'TeX')
    fn = m.find_method(TeX, 'readArgumentAndSource')
    need(fn is not None, 'TeX.readArgumentAndSource not found')
    chk.analysed(fn)
    Macro = m.cls('plasTeX', 'Macro')
    FRAG = m.class_const(Macro, 'DOCUMENT_FRAGMENT_NODE')
    need(isinstance(FRAG, int), 'Macro.DOCUMENT_FRAGMENT_NODE not found')

    class H(SelfHooks):
        def lookup(self, interp, name, state):
            return None

        def keep(self, ev):
            return False

        def call(self, interp, node, fname, args, kwargs, state):
            if fname in ('self.readToken', 'self.readGrouping', 'self.readCharacter'):
                return (state.env['__frag'], 'src')
            if fname == 'the.fragment.normalize':
                a = args[0] if args else kwargs.get('charsubs', 'no argument')
                state.env['__norm'] = state.env.get('__norm', ()) + (repr(a) if A._plain(a) else 'TOP',)
                return A.NONE
            if re.search(r'ParameterCommand\.(enable|disable)$', fname) or re.match(r'\w*log\.\w+$', fname):
                return A.NONE
            return None
    DOCSUBS, OWN = [('--', 'EN')], [("''", 'RDQ')]
    for label, given, want in (('no list handed in: the document\'s substitutions', None, DOCSUBS), ('a list handed in', OWN, OWN)):
        h = H(m, TeX)
        h.should_inline = lambda fname, node, info: info is None or info.name not in ('readToken', 'readGrouping', 'readCharacter', 'expandTokens', 'normalize')
        it = A.Interp(model=m, scope=fn, hooks=h, max_iter=4, exc_edges=False, inline=5, heap=True, precise_exc=True)
        frag = A.Obj('fragment', {'nodeType': FRAG, 'normalize': A.Sym('extfunc:the.fragment.normalize', truthy=True), 'parentNode': None})
        ctx = A.Obj('context', {})
        me = A.Obj('tex', {'argtypes': {}, 'ownerDocument': A.Obj('document', {'context': ctx, 'charsubs': list(DOCSUBS)})}, cls=TeX)
        env = {a.arg: None for a in fn.node.args.args[1:] + fn.node.args.kwonlyargs}
        env.update({'self': me, 'spec': None, 'type': None, 'subtype': None, 'delim': ',', 'expanded': True, 'default': None,
                    'parentNode': A.Obj('parent', {'nodeName': 'section'}), 'name': 'title', 'stripLeadingWhitespace': False, 'charsubs': given, '__frag': frag})
        try:
            outs = it.run_function(fn, env=env)
        except AnalysisError as e:
            chk.undecided(R, label, str(e), chk.where(fn))
            continue
        if it.imprecise or it.unknown_branches:
            chk.undecided(R, label, '; '.join((list(it.imprecise) + list(it.unknown_branches))[:3]), chk.where(fn))
            continue
        got = {(kind if kind != 'raise' else 'raise %s' % v, s2.env.get('__norm', ())) for kind, s2, v in outs}
        chk.decide(R, label, got, {('return', (repr(want),))},
                   'an expanded fragment argument (%s) is normalised with %s; expected exactly one normalize(%r)' % (label, sorted(got, key=repr), want), chk.where(fn))


# ---------------------------------------------------------------------------
def stream_loops(fn):
    """for-loops that draw tokens from a digestion stream: the loop runs over a plain name and its body hands that same
    stream on to a digest() call or pushes a token back onto it (recognised by role, not by the name of the variable)."""
    out = []
    for n in M.walk_no_nested(fn.node):
        if isinstance(n, ast.For) and isinstance(n.iter, ast.Name):
            src = n.iter.id
            uses = False
            for c in ast.walk(n):
                if isinstance(c, ast.Call):
                    nm = M.call_name(c)
                    if nm == '%s.push' % src:
                        uses = True
                    if nm.endswith('.digest') and any(isinstance(a, ast.Name) and a.id == src for a in c.args):
                        uses = True
                    if re.search(r'\.(digestUntil|_digest\w*)$', nm) and any(isinstance(a, ast.Name) and a.id == src for a in c.args):
                        uses = True
            if uses or (src in [a.arg for a in fn.node.args.args] and src in ('tokens', 'tok', 'stream') and fn.name in ('digest', 'digestUntil')):
                out.append(n)
    return out


YIELDERS = set()


def disposition_paths(m, fn, loop):
    tgt = text(loop.target)
    item = A.Sym('ITEM', truthy=True, attrs={'distinct': True})
    hk = SelfHooks(m, fn.cls) if fn.cls is not None else A.Hooks()
    hk.lookup = lambda interp, name, state: None
    hk.should_inline = A.private_only
    it = A.Interp(model=m, scope=fn, hooks=hk, max_iter=1, exc_edges=False, inline=2)
    it.h.keep = lambda ev: ev[0] in ('call', 'assume', 'continue', 'return', 'yield')
    st = A.State({tgt: item})
    outs = it.block(loop.body, [st])
    res = []
    stream = text(loop.iter)
    for kind in ('fall', 'continue', 'break', 'return'):
        for s, v in outs.get(kind, []):
            app = push = side = 0
            for ev in s.trace:
                if ev[0] == 'yield' and ev[1] is item:
                    app += 1           # handed to the loop that consumes this generator (which must place it: checked there)
                    YIELDERS.add(fn.fullname)
                if ev[0] == 'call' and item in ev[2]:
                    if re.search(r'\.(appendChild|append)$', ev[1]) and not ev[1].startswith(stream + '.'):
                        if re.fullmatch(r'\w+\.append', ev[1]) and not ev[1].startswith('self.'):
                            side += 1      # a plain list of the function (the result list, or a note of what was seen)
                        else:
                            app += 1
                    elif ev[1] in ('%s.push' % stream,):
                        push += 1
            if push == 0:
                app += side                # collected into the result list; next to a push-back it is only a note of the token
            assumed = [(e[1], e[2]) for e in s.trace if e[0] == 'assume']
            res.append((kind, app, push, assumed))
    return res


def r71(chk, m):
    R = chk.rule('R7.1', 'token linearity: on every path through one iteration of a digestion loop the drawn token is '
                 'appended once, or pushed back (and the loop left), or recognised as the end delimiter, or skipped as '
                 'whitespace - never dropped, never placed twice', 7)
    seen = 0
    YIELDERS.clear()
    for fn in sorted(E.all_functions(m), key=lambda f: f.fullname):
        if 'simpletal' in fn.fullname or fn.fullname == 'plasTeX.TeX.TeX.parse':
            continue
        for loop in stream_loops(fn):
            seen += 1
            chk.analysed(fn)
            paths = disposition_paths(m, fn, loop)
            chk.paths += len(paths)
            bad = []
            tgt = text(loop.target)
            for kind, app, push, assumed in paths:
                tests = ' and '.join('%s%s' % ('' if v else 'not ', t) for t, v in assumed)
                recognised = any(v and re.search(r'isinstance\(\w+\b|\b\w+ == |type\(\w+\) is type\(self\)|\.macroMode == ', t)
                                 for t, v in assumed)
                ws = any(v and t.endswith('isElementContentWhitespace') for t, v in assumed)
                if app + push > 1:
                    bad.append('placed %d times [%s]' % (app + push, tests))
                elif kind in ('fall', 'continue'):
                    if app == 1 and push == 0:
                        continue
                    if ws and app == 0 and push == 0:
                        continue
                    if push == 1:
                        bad.append('pushed back but the loop goes on (read again: duplicated) [%s]' % tests)
                    else:
                        bad.append('dropped [%s]' % tests)
                else:  # break / return
                    if push == 1 and app == 0:
                        continue
                    if app == 0 and push == 0 and recognised:
                        continue      # END: the delimiter itself
                    if app == 1 and push == 0:
                        continue
                    bad.append('loop left with the token neither pushed back nor recognised as the end token [%s]' % tests)
            key = '%s :: for %s in %s' % (fn.fullname, tgt, text(loop.iter))
            owner = fn.cls.fullname if fn.cls is not None else ''
            if owner in DELIBERATE_DROP and bad and all(b.startswith('dropped') for b in bad):
                chk.ok(R, key, 'triaged exception: ' + DELIBERATE_DROP[owner])
                continue
            chk.verdict(R, key, not bad,
                        'a drawn token can be ' + '; '.join(sorted(set(bad))[:3]) + ' - text would be lost or duplicated',
                        chk.where(fn, loop), '%d path(s) linear' % len(paths))
    # generators that hand the drawn tokens on: every loop that consumes one places each item exactly once
    if YIELDERS:
        from .c04 import resolved_calls
        for fn in sorted(E.all_functions(m), key=lambda f: f.fullname):
            if 'simpletal' in fn.fullname:
                continue
            gens = {id(c): cal for c, cal in resolved_calls(m, fn) if cal.fullname in YIELDERS}
            for loop in [n for n in M.walk_no_nested(fn.node) if isinstance(n, ast.For) and id(n.iter) in gens]:
                chk.analysed(fn)
                paths = disposition_paths(m, fn, loop)
                chk.paths += len(paths)
                bad = ['%s with the item appended %d and pushed back %d time(s)' % (k, a, p) for k, a, p, _ in paths if not (k in ('fall', 'continue') and a == 1 and p == 0)]
                chk.verdict(R, '%s :: for %s in %s' % (fn.fullname, text(loop.target), text(loop.iter)), not bad and bool(paths),
                            'the loop over the token generator %s must append every item exactly once: %s' % (gens[id(loop.iter)].fullname, sorted(set(bad))[:3]),
                            chk.where(fn, loop))
    # the build loop of TeX.parse (possibly in a private helper of it)
    from .c05 import reachable_private
    fn = m.func('plasTeX.TeX', 'TeX.parse')
    cands = [(f, l) for f in [fn] + reachable_private(m, fn) for l in stream_loops(f)]
    need(len(cands) == 1, 'TeX.parse: build loop not found (%d candidates)' % len(cands))
    pf, loop = cands[0]
    chk.analysed(pf)
    paths = disposition_paths(m, pf, loop)
    chk.paths += len(paths)
    bad = [(k, a, p) for k, a, p, _ in paths if not (k in ('fall', 'continue') and a == 1 and p == 0)]
    chk.verdict(R, 'plasTeX.TeX.TeX.parse :: for item in tokens', not bad and bool(paths),
                'the top-level build loop must append every item exactly once: %s' % bad, chk.where(pf, loop))
    need(seen >= 6, 'only %d digestion loops found: anchors moved' % seen)


# ---------------------------------------------------------------------------
def describe(node):
    """Nested description of a heap subtree: label or ('text', str) with children."""
    from . import domheap as D
    if isinstance(node, A.TextObj):
        return ('text', str(node))
    kids = D.children(node)
    lab = node.attrs.get('nodeName') if str(node.label).startswith('new-') else node.label
    return (lab, tuple(describe(c) for c in kids)) if kids else (lab,)


def r72(chk, m):
    from . import domheap as D
    R = chk.rule('R7.2', 'Macro.paragraphs on the DOM heap: no node is lost, duplicated or reordered by the regrouping; text runs go '
                 'into paragraphs, block elements get a paragraph of their own, a unit that outranks paragraphs ends the grouping; '
                 'every paragraph and a container without paragraphs are normalised with the document substitutions; only empty '
                 'paragraphs or paragraphs holding a single blank are removed', 5)
    Macro = m.cls('plasTeX', 'Macro')
    fn = m.find_method(Macro, 'paragraphs')
    need(fn is not None, 'Macro.paragraphs not found')
    chk.analysed(fn)
    lv = levels(m)
    PAR, ENV, CMD, SEC = lv['PAR_LEVEL'], lv['ENVIRONMENT_LEVEL'], lv['COMMAND_LEVEL'], lv['SECTION_LEVEL']

    def build(spec):
        d = D.Dom(m)
        d.doc.attrs['charsubs'] = [('--', '\u2013')]
        kids = []
        for kind, label, arg in spec:
            if kind == 'T':
                n = d.text(label, arg)
                n.attrs['level'] = CMD
                n.attrs['blockType'] = False
            elif kind == 'P':
                sub = [d.text(l, v) for l, v in arg]
                for t in sub:
                    t.attrs['level'] = CMD
                n = d.elem(label, sub)
                n.attrs.update(level=PAR, nodeName='par', blockType=False)
                for t in sub:
                    t.attrs['parentNode'] = n
            else:
                sub = [d.text(l, v) for l, v in (arg or [])]
                for t in sub:
                    t.attrs['level'] = CMD
                n = d.elem(label, sub)
                for t in sub:
                    t.attrs['parentNode'] = n
                n.attrs.update(level={'B': ENV, 'S': SEC, 'I': CMD}[kind], blockType=(kind == 'B'))
            kids.append(n)
        E = d.elem('E', kids)
        E.cls = Macro
        E.attrs['level'] = ENV
        for k in kids:
            k.attrs['parentNode'] = E
        return d, E
    cases = [
        ('text, a paragraph break and a block element', [('T', 't1', 'a--'), ('T', 't2', 'b'), ('P', 'p', [('t3', 'x')]), ('B', 'blk', [('b1', 'u--'), ('b2', 'v')]), ('T', 't4', 'c')], True,
         (('par', (('text', 'a\u2013b'),)), ('p', (('text', 'x'),)), ('par', (('blk', (('text', 'u\u2013v'),)),)), ('par', (('text', 'c'),)))),
        ('no paragraph break and no forcing: the container is normalised', [('T', 't1', 'a'), ('T', 't2', 'b--')], False,
         (('text', 'ab\u2013'),)),
        ('no paragraph break, forced', [('T', 't1', 'a'), ('I', 'em', None), ('T', 't2', 'b')], True,
         (('par', (('text', 'a'), ('em',), ('text', 'b'))),)),
        ('empty and blank paragraphs are removed', [('P', 'p', []), ('T', 'w', ' '), ('B', 'blk', None)], True,
         (('par', (('blk',),)),)),
        ('a sectioning unit ends the grouping', [('T', 't1', 'a'), ('S', 'sec', None), ('T', 't2', 'b')], True,
         (('par', (('text', 'a'),)), ('sec',), ('text', 'b'))),
    ]
    for label, spec, force, want in cases:
        d, E = build(spec)
        try:
            outs = D.run(m, fn, {'self': E, 'force': force, '__E': E, '__levels': {'par': PAR, '*': CMD}}, cls=Macro, max_iter=16,
                         filt=lambda fname, node, info: info is None or info.cls is None or info.cls.name in ('Node', 'Macro', 'NamedNodeMap') or A.private_only(fname, node, info))
        except D.Imprecise as e:
            chk.undecided(R, 'paragraphs: %s' % label, str(e), chk.where(fn))
            continue
        chk.paths += len(outs)
        got = set()
        for k2, s2, v in outs:
            E2 = s2.env['__E']
            kids = D.children(E2)
            if kids is None:
                got.add((k2, 'TOP'))
                continue
            probs = list(D.link_problems(E2))
            for c in kids:
                if isinstance(c, A.Obj) and D.children(c):
                    probs += D.link_problems(c)
            got.add((k2, tuple(describe(c) for c in kids), tuple(probs)))
        w = ('return', want, ())
        chk.decide(R, 'paragraphs: %s' % label, {repr(g) for g in got}, {repr(w)},
                   'paragraphs(force=%s) on the children %s gives (outcome, tree, link problems) = %s; expected %s'
                   % (force, [(k, l) for k, l, a in spec], sorted(got, key=repr), w), chk.where(fn))


# ---------------------------------------------------------------------------
LEVEL_NAMES = ['DOCUMENT_LEVEL', 'VOLUME_LEVEL', 'PART_LEVEL', 'CHAPTER_LEVEL', 'SECTION_LEVEL', 'SUBSECTION_LEVEL',
               'SUBSUBSECTION_LEVEL', 'PARAGRAPH_LEVEL', 'SUBPARAGRAPH_LEVEL', 'SUBSUBPARAGRAPH_LEVEL',
               'ENDSECTIONS_LEVEL', 'PAR_LEVEL', 'ENVIRONMENT_LEVEL', 'COMMAND_LEVEL']


def levels(m):
    Node = m.cls('plasTeX.DOM', 'Node')
    out = {}
    for n in LEVEL_NAMES:
        v = m.class_const(Node, n)
        need(isinstance(v, int), 'Node.%s does not fold to an integer' % n)
        out[n] = v
    return out


def r74(chk, m):
    R = chk.rule('R7.4', 'level table: document < volume < part < chapter < section < ... < subsubparagraph < ENDSECTIONS < '
                 'PAR < ENVIRONMENT < COMMAND, and the sectioning classes carry these levels', 12)
    lv = levels(m)
    vals = [lv[n] for n in LEVEL_NAMES]
    chk.verdict(R, 'Node.*_LEVEL strictly increasing', all(a < b for a, b in zip(vals, vals[1:])),
                'level constants are not strictly increasing in document order: %s' % list(zip(LEVEL_NAMES, vals)), 'plasTeX/DOM/__init__.py')
    sec = 'plasTeX.Base.LaTeX.Sectioning'
    for cname, lname in (('part', 'PART_LEVEL'), ('chapter', 'CHAPTER_LEVEL'), ('section', 'SECTION_LEVEL'),
                         ('subsection', 'SUBSECTION_LEVEL'), ('subsubsection', 'SUBSUBSECTION_LEVEL'),
                         ('paragraph', 'PARAGRAPH_LEVEL'), ('subparagraph', 'SUBPARAGRAPH_LEVEL'),
                         ('subsubparagraph', 'SUBSUBPARAGRAPH_LEVEL')):
        c = m.cls(sec, cname)
        v = m.class_const(c, 'level')
        chk.verdict(R, '\\%s level' % cname, v == lv[lname], '\\%s has level %r, expected %s=%d' % (cname, v, lname, lv[lname]), chk.where(c), str(v))
    for mod, cname, lname in (('plasTeX.Base.TeX.Primitives', 'par', 'PAR_LEVEL'), ('plasTeX', 'Environment', 'ENVIRONMENT_LEVEL'),
                              ('plasTeX', 'Macro', 'COMMAND_LEVEL'), ('plasTeX.Base.LaTeX.Document', 'document', 'DOCUMENT_LEVEL')):
        c = m.cls(mod, cname)
        v = m.class_const(c, 'level')
        chk.verdict(R, '%s level' % cname, v == lv[lname], '%s has level %r, expected %s' % (cname, v, lname), chk.where(c), str(v))


def r73(chk, m):
    R = chk.rule('R7.3', 'absorb-or-return by level: a sectioning unit pushes back a unit of the same or a higher rank '
                 '(item.level <= self.level) and absorbs everything deeper; an environment pushes back only what outranks it '
                 'and always absorbs paragraphs (cell table over the level constants)', 60)
    lv = levels(m)
    secfn = m.func('plasTeX.Base.LaTeX.Sectioning', 'SectionUtils.digest')
    envfn = m.func('plasTeX', 'Environment.digest')
    sec_levels = [n for n in LEVEL_NAMES if lv['DOCUMENT_LEVEL'] < lv[n] < lv['ENDSECTIONS_LEVEL']]
    item_levels = [n for n in LEVEL_NAMES if n != 'ENDSECTIONS_LEVEL']

    def run(fn, self_level, item_level, extra_env=None, element=True):
        from .c05 import reachable_private
        cands = [(f, l) for f in [fn] + reachable_private(m, fn) for l in stream_loops(f)]
        need(len(cands) == 1, '%s: digestion loop not found (%d candidates)' % (fn.fullname, len(cands)))
        fn, loop = cands[0]             # (the loop may live in a private helper of digest)
        item = A.Sym('ITEM', truthy=True, attrs={'distinct': True, 'level': item_level, 'nodeType': 1 if element else 3,
                                                 'ELEMENT_NODE': 1})
        h = SelfHooks(m, fn.cls)
        h.keep = lambda ev: ev[0] in ('call', 'yield')
        h.should_inline = A.private_only
        it = A.Interp(model=m, scope=fn, hooks=h, max_iter=1, exc_edges=False, inline=2)
        env = {text(loop.target): item, 'self.level': self_level}
        env.update(extra_env or {})
        outs = it.block(loop.body, [A.State(env)])
        res = set()
        for kind in ('fall', 'continue', 'break', 'return'):
            for s, v in outs.get(kind, []):
                app = sum(1 for ev in s.trace if ev[0] == 'call' and item in ev[2] and re.search(r'self\.(appendChild|append)$', ev[1]))
                app += sum(1 for ev in s.trace if ev[0] == 'yield' and ev[1] is item)       # (a generator helper hands the item to the appending loop)
                push = sum(1 for ev in s.trace if ev[0] == 'call' and item in ev[2] and ev[1] == '%s.push' % text(loop.iter))
                res.add('absorb' if (app == 1 and push == 0 and kind in ('fall', 'continue')) else
                        ('return' if (push == 1 and app == 0 and kind in ('break', 'return')) else 'other(%s,%d,%d)' % (kind, app, push)))
        return res
    chk.analysed(secfn)
    chk.analysed(envfn)
    for sl in sec_levels:
        for il in item_levels:
            want = 'return' if lv[il] <= lv[sl] else 'absorb'
            got = run(secfn, lv[sl], lv[il])
            chk.paths += len(got)
            chk.verdict(R, 'section unit at %s meets item at %s' % (sl, il), got == {want},
                        'a sectioning unit of level %s=%d that meets a node of level %s=%d must %s it, the code can %s'
                        % (sl, lv[sl], il, lv[il], want, sorted(got)), chk.where(secfn), want)
    # environments: self.level = ENVIRONMENT_LEVEL; items that are not the end token and not shallower in context depth
    for il in item_levels:
        if il == 'PAR_LEVEL':
            want = {'absorb'}
        elif lv[il] < lv['ENVIRONMENT_LEVEL']:
            want = {'return'}
        else:
            want = None
        got = run(envfn, lv['ENVIRONMENT_LEVEL'], lv[il])
        chk.paths += len(got)
        if want is None:
            ok = 'absorb' in got and not any(g.startswith('other') and not g.startswith(('other(break,0,0)', 'other(return,0,0)')) for g in got)
            wtxt = 'absorb (or end/leave by context depth)'
        else:
            ok = got == want
            wtxt = sorted(want)[0]
        chk.verdict(R, 'environment meets item at %s' % il, ok,
                    'an environment that meets a node of level %s must %s it, the code can %s' % (il, wtxt, sorted(got)),
                    chk.where(envfn), wtxt)


# ---------------------------------------------------------------------------
def forwards_charsubs(m, f, cls):
    """Does this normalize() implementation apply the substitutions it is handed?  Interpreted on a DOM heap: a container of class
    `cls` holding the text "a--b" and an element with the text "x--y", normalised with the substitution -- => DASH.  True / False, or a
    string saying why the heap run does not decide it."""
    from . import domheap as D
    d = D.Dom(m)
    P = d.elem('P', [d.text('t', 'a--b'), d.elem('e1', [d.text('in', 'x--y')])])
    P.cls = cls
    for n in [P] + list(D.children(P)):
        if isinstance(n, A.Obj):
            n.attrs.setdefault('nonNormalizedAttrs', [])
    for c in D.children(P):
        c.attrs['parentNode'] = P
    try:
        outs = D.run(m, f, {'self': P, 'charsubs': [('--', 'DASH')], '__P': P}, cls=cls)
    except D.Imprecise as e:
        return str(e)

    def texts(n):
        if isinstance(n, A.TextObj):
            return str(n)
        kids = D.children(n)
        return 'TOP' if kids is None else ''.join(texts(k) for k in kids)
    got = {(k, texts(s2.env['__P'])) for k, s2, v in outs}
    if got == {('return', 'a--bx--y')}:
        return False
    if got and all(k == 'return' and 'TOP' not in t and 'DASH' in t for k, t in got):
        return True
    return 'normalize on [text "a--b", element[text "x--y"]] gives %s' % sorted(got)


def r75(chk, m):
    R = chk.rule('R7.5', 'no character substitution inside verbatim material or mathematics: for every math-mode container and every '
                 'verbatim environment the resolved normalize(), interpreted on a DOM heap with the substitution -- => DASH, leaves '
                 'the text of the container and of its element children as it was', 30)
    Env = m.cls('plasTeX', 'Environment')
    Verb = m.cls('plasTeX', 'VerbatimEnvironment')
    n = 0
    decided = {}
    for c in sorted(macro_classes(m), key=lambda c: c.fullname):
        is_math = m.class_const(c, 'mathMode') is True
        is_verb = m.is_subclass(c, Verb) or c.fullname == 'plasTeX.Base.LaTeX.Verbatim.verb'
        if not (is_math or is_verb):
            continue
        # containers only: environments, or commands whose children are their argument
        args = m.class_const(c, 'args')
        container = m.is_subclass(c, Env) or (isinstance(args, str) and re.search(r'\bself\b', args) is not None) \
            or c.fullname == 'plasTeX.Base.LaTeX.Verbatim.verb'          # (\verb appends the scanned characters as its children)
        if not container:
            continue
        f = m.find_method(c, 'normalize')
        need(f is not None, 'normalize not resolvable for %s' % c.fullname)
        n += 1
        if f.fullname not in decided:
            chk.analysed(f)
            decided[f.fullname] = forwards_charsubs(m, f, c)
        fw = decided[f.fullname]
        if isinstance(fw, str):
            chk.undecided(R, '%s.normalize' % c.fullname, fw, chk.where(c))
            continue
        key = 'charsub:%s' % tex_name(m, c) if fw else '%s.normalize' % c.fullname
        chk.verdict(R, key, not fw,
                    '%s (%s) resolves normalize() to %s, which applies the document substitutions: quotes and dashes inside '
                    'it are rewritten (f\'\' becomes a closing quote)' % (c.fullname, 'math mode' if is_math else 'verbatim', f.fullname),
                    chk.where(c), 'normalize -> %s' % f.fullname)
    chk.note('math/verbatim containers checked: %d; distinct normalize() implementations interpreted: %d' % (n, len(decided)))


def r77(chk, m):
    R = chk.rule('R7.7', 'the outermost text container always normalises: a DOCUMENT_LEVEL class reaches paragraphs() on every '
                 'normal path of its resolved digest()', 1)
    lv = levels(m)
    for c in macro_classes(m):
        if m.class_const(c, 'level') != lv['DOCUMENT_LEVEL']:
            continue
        fn = m.find_method(c, 'digest')
        need(fn is not None, 'digest not resolvable for %s' % c.fullname)
        chk.analysed(fn)
        h = SelfHooks(m, c)
        h.keep = lambda ev: ev[0] == 'call' and ev[1] == 'self.paragraphs'
        h.should_inline = A.private_only
        it = A.Interp(model=m, scope=fn, hooks=h, max_iter=1, exc_edges=False, inline=3)
        Macro = m.cls('plasTeX', 'Macro')
        outs = it.run_function(fn, env={'self.macroMode': m.class_const(Macro, 'MODE_BEGIN'), 'self.level': lv['DOCUMENT_LEVEL']})
        chk.paths += len(outs)
        miss = [s for kind, s, v in outs if kind == 'return' and not any(ev[1] == 'self.paragraphs' for ev in s.trace)]
        chk.verdict(R, '%s.digest reaches paragraphs()' % c.fullname, not miss and bool(outs),
                    '%s resolves digest() to %s with forcePars=%r: a body without a paragraph break is never grouped, so its '
                    'text is neither merged nor substituted (\\begin{document}a --- b\\end{document})'
                    % (c.fullname, fn.fullname, m.class_const(c, 'forcePars')), chk.where(c))


# ---------------------------------------------------------------------------
def r78(chk, m):
    from . import domheap as D
    R = chk.rule('R7.8', 'nodes are deleted from the finished tree only when they carry no text (decided on the DOM heap): a table '
                 'cell is border-only iff it holds nothing but rule commands and blanks, a row iff every cell is, and '
                 'Array.applyBorders removes exactly the border-only rows', 8)
    arr = 'plasTeX.Base.LaTeX.Arrays'
    Array = m.cls(arr, 'Array')
    Cell, Row = Array.nested['ArrayCell'], Array.nested['ArrayRow']

    def mkcell(d, label, pars):
        ps = []
        for i, items in enumerate(pars):
            kids = []
            for kind, val in items:
                if kind == 'rule':
                    n = d.elem('%s-rule%d' % (label, len(kids)))
                    n.attrs['__isa'] = {'BorderCommand', 'hline'}
                    n.attrs['isElementContentWhitespace'] = False
                elif kind == 'ws':
                    n = d.text('%s-ws%d' % (label, len(kids)), ' ')
                elif kind == 'text':
                    n = d.text('%s-t%d' % (label, len(kids)), val)
                else:
                    n = d.elem('%s-e%d' % (label, len(kids)))
                    n.attrs['__isa'] = {'Command'}
                    n.attrs['isElementContentWhitespace'] = False
                kids.append(n)
            p = d.elem('%s-par%d' % (label, i), kids)
            ps.append(p)
        c = d.elem(label, ps)
        c.cls = Cell
        # the rule commands found at the edges of the cell are cached when the cell is digested (before paragraphs are formed)
        flat = [k for p in ps for k in (D.children(p) or [])]
        lead = []
        for k in flat:
            if isinstance(k, A.TextObj) and not str(k).strip():
                continue
            if isinstance(k, A.Obj) and 'hline' in (k.attrs.get('__isa') or ()):
                lead.append(k)
                continue
            break
        trail = []
        for k in reversed(flat):
            if isinstance(k, A.TextObj) and not str(k).strip():
                continue
            if isinstance(k, A.Obj) and 'hline' in (k.attrs.get('__isa') or ()):
                trail.append(k)
                continue
            break
        c.attrs['@borders'] = (trail + [k for k in lead if k not in trail], [])
        return c
    cfn = Cell.properties['isBorderOnly']['get']
    rfn = Row.properties['isBorderOnly']['get']
    chk.analysed(cfn)
    chk.analysed(rfn)
    cell_cases = [('rules and blanks only', [[('rule', None), ('ws', None)]], True), ('a rule and text', [[('rule', None), ('text', 'x')]], False),
                  ('text in a later paragraph', [[('ws', None)], [('text', 'x')]], False), ('empty cell', [], True),
                  ('an ordinary command', [[('cmd', None)]], False), ('text before a rule', [[('text', 'x'), ('rule', None)]], False)]
    for label, pars, want in cell_cases:
        d = D.Dom(m)
        c = mkcell(d, 'cell', pars)
        outs = D.run(m, cfn, {'self': c}, cls=Cell)
        got = {(k2, v if isinstance(v, bool) else 'TOP') for k2, s2, v in outs}
        chk.decide(R, 'ArrayCell.isBorderOnly: %s' % label, got, {('return', want)},
                   'a cell holding %s is border-only: %s; expected %s (its row is deleted when every cell is border-only)' % (pars, sorted(got, key=repr), want), chk.where(cfn))
    B, CN = [[('rule', None)]], [[('text', 'x')]]
    RT = [[('rule', None), ('text', 'x')]]
    for label, cells, want in (('all cells border-only', [B, B], True), ('content in the last cell', [B, CN], False), ('content in the first cell', [CN, B], False),
                               ('content in the middle', [B, CN, B], False), ('a rule and text in the first cell', [RT, CN], False),
                               ('a rule alone in the first cell, text in the others', [B, CN, CN], False)):
        d = D.Dom(m)
        row = d.elem('row', [mkcell(d, 'c%d' % i, p) for i, p in enumerate(cells)])
        row.cls = Row
        outs = D.run(m, rfn, {'self': row}, cls=Row)
        got = {(k2, v if isinstance(v, bool) else 'TOP') for k2, s2, v in outs}
        chk.decide(R, 'ArrayRow.isBorderOnly: %s' % label, got, {('return', want)},
                   'a row whose cells are %s is border-only: %s; expected %s' % (['rules' if c is B else ('rule+text' if c is RT else 'content') for c in cells], sorted(got, key=repr), want), chk.where(rfn))
    fn = m.find_method(Array, 'applyBorders')
    chk.analysed(fn)
    d = D.Dom(m)
    rows = []
    for i, bo in enumerate((True, False, True, False, True)):
        r = d.elem('R%d' % i)
        r.cls = Row
        r.attrs.update(isBorderOnly=bo, __isa={'ArrayRow'})
        rows.append(r)
    T = d.elem('table', rows)
    T.cls = Array
    T.attrs['colspec'] = None
    outs = D.run(m, fn, {'self': T, '__T': T}, cls=Array, max_iter=10,
                 filt=lambda fname, node, info: info is None or (getattr(node, 'name', '') != 'applyBorders' and (info.cls is None or info.cls.name in ('Node', 'Array'))))
    got = {(k2, tuple(D.label_of(c) for c in D.children(s2.env['__T'])), tuple(D.link_problems(s2.env['__T']))) for k2, s2, v in outs}
    chk.decide(R, 'Array.applyBorders deletes only border-only rows', {repr(g) for g in got}, {repr(('return', ('R1', 'R3'), ()))},
               'applyBorders on rows [rules, content, rules, content, rules] leaves %s; expected exactly the content rows R1, R3' % sorted(got, key=repr), chk.where(fn))


def parent_stmt(root, node):
    """The statement (direct member of some body) that contains `node`."""
    best = None
    for st in ast.walk(root):
        if isinstance(st, ast.stmt) and not isinstance(st, (ast.If, ast.For, ast.While, ast.Try, ast.With, ast.FunctionDef)):
            if any(x is node for x in ast.walk(st)):
                best = st
    return best


# ---------------------------------------------------------------------------
def r711(chk, m):
    """Substitutions reach every text run."""
    from . import domheap as D
    R = chk.rule('R7.11', 'character substitutions on the DOM heap: normalize(substitutions) merges each run of adjacent text nodes into one '
                 'node and applies the substitutions to it - to a run of a single character as well as to longer ones - and hands them '
                 'on to the element children; the other children keep their order', 3)
    Node = m.cls(D.DOM, 'Node')
    fn = m.find_method(Node, 'normalize')
    need(fn is not None, 'Node.normalize not found')
    chk.analysed(fn)
    subs = [("''", 'RDQ'), ("'", 'RSQ'), ('--', 'DASH')]
    cases = [('a lone quote between two elements', lambda d: [d.elem('e1', childlist=False), d.text('q', "'"), d.elem('e2', childlist=False)], 'e1 "RSQ" e2'),
             ('adjacent text nodes form one run', lambda d: [d.text('a', 'a-'), d.text('b', '-b'), d.elem('e1', childlist=False), d.text('c', "c''")], '"aDASHb" e1 "cRDQ"'),
             ('a single character at the end', lambda d: [d.elem('e1', childlist=False), d.text('q', "'")], 'e1 "RSQ"'),
             ('text inside an element child', lambda d: [d.elem('e1', [d.text('in', "x--y")])], 'e1["xDASHy"]'),
             ('no text at all', lambda d: [d.elem('e1', childlist=False), d.elem('e2', childlist=False)], 'e1 e2')]
    for label, build, want in cases:
        d = D.Dom(m)
        P = d.elem('P', build(d))
        for c in D.children(P):
            c.attrs['parentNode'] = P
            if isinstance(c, A.Obj):
                c.attrs.setdefault('nonNormalizedAttrs', [])
        P.attrs['nonNormalizedAttrs'] = []
        try:
            outs = D.run(m, fn, {'self': P, 'charsubs': list(subs), '__P': P})
        except D.Imprecise as e:
            chk.undecided(R, label, str(e), chk.where(fn))
            continue

        def show(n):
            if isinstance(n, A.TextObj):
                return '"%s"' % str(n)
            kids = D.children(n)
            return n.label + ('[%s]' % ' '.join(show(k) for k in kids) if kids else '')
        got = {('%s: %s' % (k2, ' '.join(show(c) for c in D.children(s2.env['__P']) or []))) for k2, s2, v in outs}
        chk.decide(R, label, got, {'return: ' + want}, 'normalize with the substitutions %s gives %s; expected %s' % (subs, sorted(got), want), chk.where(fn))


def r712(chk, m):
    """A caption that is attached to an object stays where it is in the tree."""
    from . import domheap as D
    R = chk.rule('R7.12', 'captions of floats on the DOM heap: attaching a caption to the float or to the object it describes does not move '
                 'it - afterwards every caption still has the parent it had, is still listed there once, and no attribute map holds it '
                 '(a node stored in an attribute map is re-parented to the owner of the map)', 2)
    FL = 'plasTeX.Base.LaTeX.Floats'
    Float = m.cls(FL, 'Float')
    fn = m.find_method(Float, 'digest')
    need(fn is not None, 'Float.digest not found')
    chk.analysed(fn)
    table = m.cls(FL, 'table')
    Macro = m.cls('plasTeX', 'Macro')
    NM = m.cls(D.DOM, 'NamedNodeMap')

    class H(D.DomHooks):
        def call(self, interp, node, fname, args, kwargs, state):
            if fname in ('Environment.digest', 'Macro.digest', 'Command.digest') and len(args) == 2:
                return A.NONE
            if fname == 'dict.__setitem__' and len(args) == 3 and isinstance(args[0], A.Obj) and isinstance(args[0].attrs.get('__dict'), dict):
                args[0].attrs['__dict'][args[1]] = args[2]
                return A.NONE
            if fname == 'getattr' and len(args) == 3 and isinstance(args[0], A.Obj) and isinstance(args[1], str) and args[1] not in args[0].attrs \
               and isinstance(args[0].cls, M.ClassInfo):
                v = self.model.class_const(args[0].cls, args[1])
                if not M.is_unknown(v):
                    return A.NONE if v is None else v
            return D.DomHooks.call(self, interp, node, fname, args, kwargs, state)
    for label, nobj in (('one object and one caption', 1), ('two objects and two captions', 2)):
        d = D.Dom(m)
        kids = []
        for i in range(nobj):
            tab = d.elem('tabular%d' % i)
            tab.cls = table.nested['tabular']
            amap = A.Obj('attributes-of-tabular%d' % i, {'__dict': {}, '_dom_parentNode': tab}, cls=NM)
            tab.attrs['attributes'] = amap
            cap = d.elem('caption%d' % i)
            cap.cls = table.nested['caption']
            cap.attrs['attached'] = False
            kids += [tab, cap]
        F = d.elem('float', kids)
        F.cls = table
        F.attrs.update(macroMode=m.class_const(Macro, 'MODE_BEGIN'), MODE_BEGIN=m.class_const(Macro, 'MODE_BEGIN'))
        it = A.Interp(model=m, scope=fn, hooks=H(m, Float), max_iter=12, exc_edges=False, inline=12, heap=True, precise_exc=True, max_states=20000)
        outs = it.run_function(fn, env={'self': F, 'tokens': A.Stream([]), '__F': F})
        if it.imprecise or it.unknown_branches:
            chk.undecided(R, label, '; '.join((it.imprecise + it.unknown_branches)[:2]), chk.where(fn))
            continue
        got = set()
        for k2, s2, v in outs:
            F2 = s2.env['__F']
            probs = D.link_problems(F2)
            for c in D.children(F2):
                am = c.attrs.get('attributes')
                if isinstance(am, A.Obj) and am.attrs.get('__dict'):
                    probs.append('%s holds %s' % (am.label, sorted(D.label_of(x) if isinstance(x, (A.Obj, A.TextObj)) else repr(x) for x in am.attrs['__dict'].values())))
                if c.label.startswith('caption') and c.attrs.get('attached') is not True:
                    probs.append('%s is not marked as attached' % c.label)
            got.add('%s: %s | %s' % (k2, ' '.join(D.label_of(c) for c in D.children(F2)), '; '.join(probs) or 'links intact'))
        want = 'return: %s | links intact' % ' '.join(D.label_of(c) for c in kids)
        chk.decide(R, label, got, {want}, 'a float with %s: after digest %s; expected %s - the caption would be reachable from two places and '
                   'its parent chain would no longer lead through its container' % (label, sorted(got), want), chk.where(fn))
