"""C07 - Parsing loses, duplicates or reorders no text and yields a well-formed tree.

R7.1 token linearity in every digestion loop, R7.2 paragraph grouping
linearity and normalisation of every rebuilt paragraph, R7.3 absorb-or-return
by level (cell table over the level constants), R7.4 level table,
R7.5 no substitution in verbatim/math containers, R7.7 the outermost text
container always normalises."""
import ast
import re

from .. import absint as A
from .. import effects as E
from .. import flow
from .. import model as M
from ..report import AnalysisError, need
from ..util import SelfHooks, text, tex_name, macro_classes

# digestion loops whose zero-disposition paths are deliberate (one reason each)
DELIBERATE_DROP = {
    'plasTeX.Base.LaTeX.Bibliography.thebibliography.digest':
        'everything before the first \\bibitem is discarded on purpose (no text belongs there)',
    'plasTeX.Base.LaTeX.Lists.List.digest':
        'leading whitespace is dropped and a leading \\setcounter is digested in place',
}


def check(chk):
    m = chk.model
    r71(chk, m)
    r72(chk, m)
    r73(chk, m)
    r74(chk, m)
    r75(chk, m)
    r77(chk, m)
    r78(chk, m)
    from . import shared
    shared.grouping_rules(chk, m, 'R7.9')
    chk.decline('word order and multiplicity for concrete documents; parent chains of every generated tree (runtime)')


# ---------------------------------------------------------------------------
def stream_loops(fn):
    """for-loops of a digest implementation that draw from the digestion stream."""
    params = [a.arg for a in fn.node.args.args]
    out = []
    for n in M.walk_no_nested(fn.node):
        if isinstance(n, ast.For) and isinstance(n.iter, ast.Name) and n.iter.id in params and n.iter.id in ('tokens', 'tok', 'stream'):
            out.append(n)
    return out


def disposition_paths(m, fn, loop):
    tgt = text(loop.target)
    item = A.Sym('ITEM', truthy=True, attrs={'distinct': True})
    it = A.Interp(model=m, scope=fn, max_iter=1, exc_edges=False)
    it.h.keep = lambda ev: ev[0] in ('call', 'assume', 'continue', 'return')
    st = A.State({tgt: item})
    outs = it.block(loop.body, [st])
    res = []
    stream = text(loop.iter)
    for kind in ('fall', 'continue', 'break', 'return'):
        for s, v in outs.get(kind, []):
            app = push = 0
            for ev in s.trace:
                if ev[0] == 'call' and item in ev[2]:
                    if re.search(r'\.(appendChild|append)$', ev[1]) and not ev[1].startswith(stream + '.'):
                        app += 1
                    elif ev[1] in ('%s.push' % stream,):
                        push += 1
            assumed = [(e[1], e[2]) for e in s.trace if e[0] == 'assume']
            res.append((kind, app, push, assumed))
    return res


def r71(chk, m):
    R = chk.rule('R7.1', 'token linearity: on every path through one iteration of a digestion loop the drawn token is '
                 'appended once, or pushed back (and the loop left), or recognised as the end delimiter, or skipped as '
                 'whitespace - never dropped, never placed twice', 9)
    seen = 0
    for fn in sorted(E.all_functions(m), key=lambda f: f.fullname):
        if fn.name not in ('digest', 'digestUntil') or 'simpletal' in fn.fullname:
            continue
        for loop in stream_loops(fn):
            seen += 1
            chk.analysed(fn)
            paths = disposition_paths(m, fn, loop)
            chk.paths += len(paths)
            bad = []
            tgt = text(loop.target)
            for kind, app, push, assumed in paths:
                tests = ' and '.join('%s%s' % ('' if v else 'not ', t) for t, v in assumed)
                recognised = any(v and re.search(r'isinstance\(%s\b|%s == |type\(%s\) is type\(self\)|%s\.macroMode == ' % (tgt, tgt, tgt, tgt), t)
                                 for t, v in assumed)
                ws = any(v and t.endswith('isElementContentWhitespace') for t, v in assumed)
                if app + push > 1:
                    bad.append('placed %d times [%s]' % (app + push, tests))
                elif kind in ('fall', 'continue'):
                    if app == 1 and push == 0:
                        continue
                    if ws and app == 0 and push == 0:
                        continue
                    if push == 1:
                        bad.append('pushed back but the loop goes on (read again: duplicated) [%s]' % tests)
                    else:
                        bad.append('dropped [%s]' % tests)
                else:  # break / return
                    if push == 1 and app == 0:
                        continue
                    if app == 0 and push == 0 and recognised:
                        continue      # END: the delimiter itself
                    if app == 1 and push == 0:
                        continue
                    bad.append('loop left with the token neither pushed back nor recognised as the end token [%s]' % tests)
            key = '%s :: for %s in %s' % (fn.fullname, tgt, text(loop.iter))
            if fn.fullname in DELIBERATE_DROP and bad and all(b.startswith('dropped') for b in bad):
                chk.ok(R, key, 'triaged exception: ' + DELIBERATE_DROP[fn.fullname])
                continue
            chk.verdict(R, key, not bad,
                        'a drawn token can be ' + '; '.join(sorted(set(bad))[:3]) + ' - text would be lost or duplicated',
                        chk.where(fn, loop), '%d path(s) linear' % len(paths))
    # the build loop of TeX.parse
    fn = m.func('plasTeX.TeX', 'TeX.parse')
    chk.analysed(fn)
    loops = [n for n in M.walk_no_nested(fn.node) if isinstance(n, ast.For) and text(n.iter) == 'tokens']
    need(len(loops) == 1, 'TeX.parse: build loop not found')
    paths = disposition_paths(m, fn, loops[0])
    chk.paths += len(paths)
    bad = [(k, a, p) for k, a, p, _ in paths if not (k in ('fall', 'continue') and a == 1 and p == 0)]
    chk.verdict(R, 'plasTeX.TeX.TeX.parse :: for item in tokens', not bad and bool(paths),
                'the top-level build loop must append every item exactly once: %s' % bad, chk.where(fn, loops[0]))
    need(seen >= 8, 'only %d digestion loops found: anchors moved' % seen)


# ---------------------------------------------------------------------------
def r72(chk, m):
    R = chk.rule('R7.2', 'Macro.paragraphs: every node popped from the container is placed exactly once into the rebuilt list; '
                 'every rebuilt node is re-inserted once, in order; every paragraph among them is normalised with the document '
                 'substitutions', 4)
    fn = m.func('plasTeX', 'Macro.paragraphs')
    chk.analysed(fn)
    wl = [n for n in M.walk_no_nested(fn.node) if isinstance(n, ast.While) and text(n.test) == 'self']
    need(len(wl) == 1, 'Macro.paragraphs: regrouping loop not found')
    loop = wl[0]
    item = A.Sym('ITEM', truthy=True, attrs={'distinct': True})

    class H(A.Hooks):
        def call(self, interp, node, fname, args, kwargs, state):
            if fname == 'self.pop':
                return item
            return None

        def keep(self, ev):
            return ev[0] in ('call', 'assume')
    it = A.Interp(model=m, scope=fn, hooks=H(), max_iter=1, exc_edges=False)
    outs = it.block(loop.body, [A.State({'newnodes': A.Sym('newnodes'), 'par': A.Sym('par')})])
    bad = []
    n = 0
    for kind in ('fall', 'continue', 'break'):
        for s, v in outs.get(kind, []):
            n += 1
            placed = [ev for ev in s.trace if ev[0] == 'call' and item in ev[2] and re.search(r'\.(append|appendChild|insert)$', ev[1])]
            if len(placed) != 1:
                bad.append('%d placements on a %s path' % (len(placed), kind))
    chk.paths += n
    chk.verdict(R, 'paragraphs: each popped node placed once', not bad and n >= 4,
                'a node popped from the container is placed %s' % sorted(set(bad)), chk.where(fn, loop), '%d paths' % n)
    # re-insertion loop
    fl = [x for x in M.walk_no_nested(fn.node) if isinstance(x, ast.For) and 'enumerate(newnodes)' in text(x.iter)]
    need(len(fl) == 1, 'Macro.paragraphs: re-insertion loop not found')
    rl = fl[0]
    ins = [c for c in ast.walk(rl) if isinstance(c, ast.Call) and M.call_name(c) == 'self.insert']
    ok_ins = len(ins) == 1 and text(ins[0].args[0]) == 'i' and text(ins[0].args[1]) == 'item' and ins[0] in [x.value for x in rl.body if isinstance(x, ast.Expr)]
    chk.verdict(R, 'paragraphs: rebuilt nodes re-inserted in order', ok_ins,
                'every rebuilt node must be re-inserted unconditionally at its own index: %s' % [text(c) for c in ins], chk.where(fn, rl))
    norm = [x for x in rl.body if isinstance(x, ast.If) and any(isinstance(c, ast.Call) and M.call_name(c) == 'item.normalize' for c in ast.walk(x))]
    ok_norm = len(norm) == 1 and text(norm[0].test).replace(' ', '') in ('item.level==Node.PAR_LEVEL', 'item.level==self.PAR_LEVEL') and \
        any('charsubs' in text(c) for c in ast.walk(norm[0]) if isinstance(c, ast.Call) and M.call_name(c) == 'item.normalize')
    chk.verdict(R, 'paragraphs: every rebuilt paragraph is normalised', ok_norm,
                'paragraph nodes must be normalised with the document substitutions under exactly `item.level == PAR_LEVEL` '
                '(found guard %s): paragraphs wrapped around block elements would keep unmerged, unsubstituted text'
                % [text(x.test) for x in norm], chk.where(fn, rl))
    # the no-paragraph arm normalises too
    early = [x for x in M.walk_no_nested(fn.node) if isinstance(x, ast.If) and 'parname is None and not force' in text(x.test).replace('(', '').replace(')', '')]
    ok = len(early) == 1 and any(isinstance(c, ast.Call) and M.call_name(c) == 'self.normalize' and 'charsubs' in text(c) for c in ast.walk(early[0]))
    chk.verdict(R, 'paragraphs: container without paragraphs is normalised', ok,
                'when there is nothing to group, the container itself must be normalised with the document substitutions', chk.where(fn))


# ---------------------------------------------------------------------------
LEVEL_NAMES = ['DOCUMENT_LEVEL', 'VOLUME_LEVEL', 'PART_LEVEL', 'CHAPTER_LEVEL', 'SECTION_LEVEL', 'SUBSECTION_LEVEL',
               'SUBSUBSECTION_LEVEL', 'PARAGRAPH_LEVEL', 'SUBPARAGRAPH_LEVEL', 'SUBSUBPARAGRAPH_LEVEL',
               'ENDSECTIONS_LEVEL', 'PAR_LEVEL', 'ENVIRONMENT_LEVEL', 'COMMAND_LEVEL']


def levels(m):
    Node = m.cls('plasTeX.DOM', 'Node')
    out = {}
    for n in LEVEL_NAMES:
        v = m.class_const(Node, n)
        need(isinstance(v, int), 'Node.%s does not fold to an integer' % n)
        out[n] = v
    return out


def r74(chk, m):
    R = chk.rule('R7.4', 'level table: document < volume < part < chapter < section < ... < subsubparagraph < ENDSECTIONS < '
                 'PAR < ENVIRONMENT < COMMAND, and the sectioning classes carry these levels', 12)
    lv = levels(m)
    vals = [lv[n] for n in LEVEL_NAMES]
    chk.verdict(R, 'Node.*_LEVEL strictly increasing', all(a < b for a, b in zip(vals, vals[1:])),
                'level constants are not strictly increasing in document order: %s' % list(zip(LEVEL_NAMES, vals)), 'plasTeX/DOM/__init__.py')
    sec = 'plasTeX.Base.LaTeX.Sectioning'
    for cname, lname in (('part', 'PART_LEVEL'), ('chapter', 'CHAPTER_LEVEL'), ('section', 'SECTION_LEVEL'),
                         ('subsection', 'SUBSECTION_LEVEL'), ('subsubsection', 'SUBSUBSECTION_LEVEL'),
                         ('paragraph', 'PARAGRAPH_LEVEL'), ('subparagraph', 'SUBPARAGRAPH_LEVEL'),
                         ('subsubparagraph', 'SUBSUBPARAGRAPH_LEVEL')):
        c = m.cls(sec, cname)
        v = m.class_const(c, 'level')
        chk.verdict(R, '\\%s level' % cname, v == lv[lname], '\\%s has level %r, expected %s=%d' % (cname, v, lname, lv[lname]), chk.where(c), str(v))
    for mod, cname, lname in (('plasTeX.Base.TeX.Primitives', 'par', 'PAR_LEVEL'), ('plasTeX', 'Environment', 'ENVIRONMENT_LEVEL'),
                              ('plasTeX', 'Macro', 'COMMAND_LEVEL'), ('plasTeX.Base.LaTeX.Document', 'document', 'DOCUMENT_LEVEL')):
        c = m.cls(mod, cname)
        v = m.class_const(c, 'level')
        chk.verdict(R, '%s level' % cname, v == lv[lname], '%s has level %r, expected %s' % (cname, v, lname), chk.where(c), str(v))


def r73(chk, m):
    R = chk.rule('R7.3', 'absorb-or-return by level: a sectioning unit pushes back a unit of the same or a higher rank '
                 '(item.level <= self.level) and absorbs everything deeper; an environment pushes back only what outranks it '
                 'and always absorbs paragraphs (cell table over the level constants)', 60)
    lv = levels(m)
    secfn = m.func('plasTeX.Base.LaTeX.Sectioning', 'SectionUtils.digest')
    envfn = m.func('plasTeX', 'Environment.digest')
    sec_levels = [n for n in LEVEL_NAMES if lv['DOCUMENT_LEVEL'] < lv[n] < lv['ENDSECTIONS_LEVEL']]
    item_levels = [n for n in LEVEL_NAMES if n != 'ENDSECTIONS_LEVEL']

    def run(fn, self_level, item_level, extra_env=None, element=True):
        loop = stream_loops(fn)
        need(len(loop) == 1, '%s: digestion loop not found' % fn.fullname)
        loop = loop[0]
        item = A.Sym('ITEM', truthy=True, attrs={'distinct': True, 'level': item_level, 'nodeType': 1 if element else 3,
                                                 'ELEMENT_NODE': 1})
        h = SelfHooks(m, fn.cls)
        h.keep = lambda ev: ev[0] == 'call'
        it = A.Interp(model=m, scope=fn, hooks=h, max_iter=1, exc_edges=False)
        env = {text(loop.target): item, 'self.level': self_level}
        env.update(extra_env or {})
        outs = it.block(loop.body, [A.State(env)])
        res = set()
        for kind in ('fall', 'continue', 'break', 'return'):
            for s, v in outs.get(kind, []):
                app = sum(1 for ev in s.trace if item in ev[2] and re.search(r'self\.(appendChild|append)$', ev[1]))
                push = sum(1 for ev in s.trace if item in ev[2] and ev[1] == 'tokens.push')
                res.add('absorb' if (app == 1 and push == 0 and kind in ('fall', 'continue')) else
                        ('return' if (push == 1 and app == 0 and kind == 'break') else 'other(%s,%d,%d)' % (kind, app, push)))
        return res
    chk.analysed(secfn)
    chk.analysed(envfn)
    for sl in sec_levels:
        for il in item_levels:
            want = 'return' if lv[il] <= lv[sl] else 'absorb'
            got = run(secfn, lv[sl], lv[il])
            chk.paths += len(got)
            chk.verdict(R, 'section unit at %s meets item at %s' % (sl, il), got == {want},
                        'a sectioning unit of level %s=%d that meets a node of level %s=%d must %s it, the code can %s'
                        % (sl, lv[sl], il, lv[il], want, sorted(got)), chk.where(secfn), want)
    # environments: self.level = ENVIRONMENT_LEVEL; items that are not the end token and not shallower in context depth
    for il in item_levels:
        if il == 'PAR_LEVEL':
            want = {'absorb'}
        elif lv[il] < lv['ENVIRONMENT_LEVEL']:
            want = {'return'}
        else:
            want = None
        got = run(envfn, lv['ENVIRONMENT_LEVEL'], lv[il])
        chk.paths += len(got)
        if want is None:
            ok = 'absorb' in got and not any(g.startswith('other') and not g.startswith('other(break,0,0)') for g in got)
            wtxt = 'absorb (or end/leave by context depth)'
        else:
            ok = got == want
            wtxt = sorted(want)[0]
        chk.verdict(R, 'environment meets item at %s' % il, ok,
                    'an environment that meets a node of level %s must %s it, the code can %s' % (il, wtxt, sorted(got)),
                    chk.where(envfn), wtxt)


# ---------------------------------------------------------------------------
def forwards_charsubs(fn):
    """Does this normalize() implementation hand its charsubs on?"""
    for c in M.calls_in(fn.node):
        if M.call_name(c).endswith('normalize') or M.call_name(c).endswith('appendText'):
            for a in list(c.args) + [k.value for k in c.keywords]:
                if isinstance(a, ast.Name) and a.id == 'charsubs':
                    return True
    return False


def r75(chk, m):
    R = chk.rule('R7.5', 'no character substitution inside verbatim material or mathematics: every math-mode container and '
                 'every verbatim environment resolves normalize() to an implementation that does not forward the substitutions', 30)
    Env = m.cls('plasTeX', 'Environment')
    Verb = m.cls('plasTeX', 'VerbatimEnvironment')
    n = 0
    for c in sorted(macro_classes(m), key=lambda c: c.fullname):
        is_math = m.class_const(c, 'mathMode') is True
        is_verb = m.is_subclass(c, Verb) or c.fullname == 'plasTeX.Base.LaTeX.Verbatim.verb'
        if not (is_math or is_verb):
            continue
        # containers only: environments, or commands whose children are their argument
        args = m.class_const(c, 'args')
        container = m.is_subclass(c, Env) or (isinstance(args, str) and re.search(r'\bself\b', args) is not None)
        if not container:
            continue
        f = m.find_method(c, 'normalize')
        need(f is not None, 'normalize not resolvable for %s' % c.fullname)
        n += 1
        fw = forwards_charsubs(f)
        key = 'charsub:%s' % tex_name(m, c) if fw else '%s.normalize' % c.fullname
        chk.verdict(R, key, not fw,
                    '%s (%s) resolves normalize() to %s, which forwards the document substitutions: quotes and dashes inside '
                    'it are rewritten (f\'\' becomes a closing quote)' % (c.fullname, 'math mode' if is_math else 'verbatim', f.fullname),
                    chk.where(c), 'normalize -> %s' % f.fullname)
    chk.note('math/verbatim containers checked: %d' % n)


def r77(chk, m):
    R = chk.rule('R7.7', 'the outermost text container always normalises: a DOCUMENT_LEVEL class reaches paragraphs() on every '
                 'normal path of its resolved digest()', 1)
    lv = levels(m)
    for c in macro_classes(m):
        if m.class_const(c, 'level') != lv['DOCUMENT_LEVEL']:
            continue
        fn = m.find_method(c, 'digest')
        need(fn is not None, 'digest not resolvable for %s' % c.fullname)
        chk.analysed(fn)
        h = SelfHooks(m, c)
        h.keep = lambda ev: ev[0] == 'call' and ev[1] == 'self.paragraphs'
        it = A.Interp(model=m, scope=fn, hooks=h, max_iter=1, exc_edges=False)
        Macro = m.cls('plasTeX', 'Macro')
        outs = it.run_function(fn, env={'self.macroMode': m.class_const(Macro, 'MODE_BEGIN'), 'self.level': lv['DOCUMENT_LEVEL']})
        chk.paths += len(outs)
        miss = [s for kind, s, v in outs if kind == 'return' and not any(ev[1] == 'self.paragraphs' for ev in s.trace)]
        chk.verdict(R, '%s.digest reaches paragraphs()' % c.fullname, not miss and bool(outs),
                    '%s resolves digest() to %s with forcePars=%r: a body without a paragraph break is never grouped, so its '
                    'text is neither merged nor substituted (\\begin{document}a --- b\\end{document})'
                    % (c.fullname, fn.fullname, m.class_const(c, 'forcePars')), chk.where(c))


# ---------------------------------------------------------------------------
def r78(chk, m):
    R = chk.rule('R7.8', 'nodes are deleted from the finished tree only when they carry no text: table rows only when every '
                 'cell holds nothing but rule commands and whitespace; paragraphs only when empty or a single whitespace node', 4)
    arr = 'plasTeX.Base.LaTeX.Arrays'
    # (a) ArrayCell.isBorderOnly
    fn = m.func(arr, 'Array.ArrayCell.isBorderOnly')
    chk.analysed(fn)
    inner = [n for n in M.walk_no_nested(fn.node) if isinstance(n, ast.For) and not any(isinstance(x, ast.For) for x in ast.walk(n) if x is not n)]
    need(len(inner) == 1, 'ArrayCell.isBorderOnly: item loop not found')
    loop = inner[0]
    item = A.Sym('ITEM', truthy=True, attrs={'distinct': True})
    it = A.Interp(model=m, scope=fn, max_iter=1, exc_edges=False)
    it.h.keep = lambda ev: ev[0] in ('assume', 'return')
    outs = it.block(loop.body, [A.State({text(loop.target): item})])
    bad = []
    n = 0
    for kind in ('fall', 'continue', 'break', 'return'):
        for s, v in outs.get(kind, []):
            n += 1
            ass = {e[1]: e[2] for e in s.trace if e[0] == 'assume'}
            harmless = any(v2 and (k.endswith('.isElementContentWhitespace') or re.search(r'isinstance\(\w+, (Array\.)?BorderCommand\)', k))
                           for k, v2 in ass.items())
            if kind in ('fall', 'continue') and not harmless:
                bad.append('an item is counted as border-only under %s' % (ass or 'no test'))
            if kind == 'return' and v is not False:
                bad.append('returns %r inside the loop' % (v,))
    tail = [st for st in fn.node.body if isinstance(st, ast.Return)]
    ok_tail = len(tail) == 1 and text(tail[0].value) == 'True'
    chk.verdict(R, 'ArrayCell.isBorderOnly', not bad and n >= 3 and ok_tail,
                'a cell may be treated as border-only (and its row deleted) although it holds content: %s' % sorted(set(bad)), chk.where(fn), '%d paths' % n)
    # (b) ArrayRow.isBorderOnly
    fn = m.func(arr, 'Array.ArrayRow.isBorderOnly')
    chk.analysed(fn)
    src = [text(st) for st in fn.node.body if not (isinstance(st, ast.Expr) and isinstance(st.value, ast.Constant))]
    loops = [st for st in fn.node.body if isinstance(st, ast.For)]
    ok = len(loops) == 1 and len(loops[0].body) == 1 and isinstance(loops[0].body[0], ast.If) and \
        text(loops[0].body[0].test) == 'not %s.isBorderOnly' % text(loops[0].target) and text(loops[0].body[0].body[0]) == 'return False' \
        and text(fn.node.body[-1]) == 'return True'
    chk.verdict(R, 'ArrayRow.isBorderOnly', ok, 'a row is border-only iff every cell is: %s' % src, chk.where(fn))
    # (c) Array.applyBorders deletes only collected border-only rows
    fn = m.func(arr, 'Array.applyBorders')
    chk.analysed(fn)
    pops = [c for c in M.calls_in(fn.node) if M.call_name(c) == 'self.pop']
    collected = [n for n in M.walk_no_nested(fn.node) if isinstance(n, ast.Call) and re.fullmatch(r'(\w+)\.(insert|append)', M.call_name(n))
                 and M.call_name(n).split('.')[0] == 'emptyrows']
    from .c06 import guard_chain
    guards = [guard_chain(fn.node, parent_stmt(fn.node, c)) for c in collected]
    ok = len(pops) == 1 and bool(collected) and all(any(g == 'row.isBorderOnly' for g in gs) for gs in guards)
    lp = [n for n in M.walk_no_nested(fn.node) if isinstance(n, ast.For) and any(c in list(ast.walk(n)) for c in pops)]
    ok = ok and len(lp) == 1 and text(lp[0].iter) == 'emptyrows'
    chk.verdict(R, 'Array.applyBorders deletes only border-only rows', ok,
                'rows are deleted by %s; indices collected under %s' % ([text(p) for p in pops], guards), chk.where(fn))
    # (d) Macro.paragraphs filter
    fn = m.func('plasTeX', 'Macro.paragraphs')
    fl = [n for n in M.walk_no_nested(fn.node) if isinstance(n, ast.For) and 'range(len(self) - 1, -1, -1)' in text(n.iter)]
    need(len(fl) == 1, 'Macro.paragraphs: empty-paragraph filter not found')
    pops = [c for c in ast.walk(fl[0]) if isinstance(c, ast.Call) and M.call_name(c) == 'self.pop']
    guards = [guard_chain(fn.node, parent_stmt(fn.node, c)) for c in pops]
    ok = len(pops) == 2 and all(g and g[0].replace(' ', '') == 'item.level==Node.PAR_LEVEL' for g in guards)
    flat = sorted(' & '.join(x for x in g[1:] if x not in ('not not item', 'not (not item)')) for g in guards)
    ok = ok and flat == ['len(item) == 1 and item[0].isElementContentWhitespace', 'not item']
    chk.verdict(R, 'paragraphs drops only empty paragraphs', ok,
                'paragraph nodes are removed under %s; only empty paragraphs or a single whitespace child may go' % flat, chk.where(fn, fl[0]))


def parent_stmt(root, node):
    """The statement (direct member of some body) that contains `node`."""
    best = None
    for st in ast.walk(root):
        if isinstance(st, ast.stmt) and not isinstance(st, (ast.If, ast.For, ast.While, ast.Try, ast.With, ast.FunctionDef)):
            if any(x is node for x in ast.walk(st)):
                best = st
    return best
