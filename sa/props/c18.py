"""C18 - The index lists every entry exactly once, under its key, in collation order.

R18.1 sorted before merged / comparison keys, R18.2 exactly-once placement in
the prefix merge, the letter groups and the column split, R18.3 entry parsing
table (! @ | " syntax) by constant propagation over token kinds."""
import ast
import itertools
import re

from .. import absint as A
from .. import model as M
from ..report import AnalysisError, need
from ..util import SelfHooks, text

MOD = 'plasTeX.Base.LaTeX.Index'


def check(chk):
    m = chk.model
    r181(chk, m)
    r182_merge(chk, m)
    r182_groups(chk, m)
    r182_columns(chk, m)
    r184(chk, m)
    r185(chk, m)
    r183(chk, m)
    chk.decline('order for arbitrary key multisets and balance of the column split (runtime); collation itself is delegated to '
                'pyuca / str.lower')


def index_scene():
    """A printindex object: two groups; entries with and without pages of their own, with and without sub-entries, three levels."""
    from ..tplinterp import Data
    n = [0]
    expected = []

    def page(owner):
        n[0] += 1
        return Data('page%d(%s)' % (n[0], owner), kind='page', url='url%d' % n[0], currentSection=Data('section%d' % n[0], title='Section %d' % n[0]))

    def item(label, npages, subs=()):
        it = Data(label, children=list(subs), kind='key')
        it.attrs['key'] = Data('key:' + label, kind='key')
        it.attrs['pages'] = [page(label) for _ in range(npages)]
        it.attrs['sortkey'] = label
        return it
    # the pages are created in pre-order so that the expected sequence is simply the pre-order walk
    def build(spec, prefix=''):
        label, npages, subs = spec
        me = item(prefix + label, npages)
        expected.append(me.attrs['key'])
        expected.extend(me.attrs['pages'])
        me.children = [build(x, prefix + label + '!') for x in subs]
        return me
    g1 = [[build(('alpha', 2, [('one', 1, [('deep', 2, [])]), ('two', 0, [('deeper', 1, [])])])), build(('beta', 1, []))],
          [build(('gamma', 0, [('sub', 3, [])]))]]
    g2 = [[build(('delta', 1, [('x', 1, []), ('y', 2, [])]))]]
    groups = []
    for k, g in enumerate((g1, g2)):
        cols = [Data('column%d.%d' % (k, j), children=c) for j, c in enumerate(g)]
        groups.append(Data('group%d' % k, children=cols, id='g%d' % k, title=Data('title%d' % k, kind='title')))
    obj = Data('printindex', children=[e for g in (g1, g2) for c in g for e in c], id='idx', title='Index', groups=groups)
    return obj, expected


def r184(chk, m):
    """The templates that lay out the index (only those that list the entries themselves) on a scripted index node."""
    import os
    from .. import templates as T
    from .. import tplinterp as TI
    R = chk.rule('R18.4', 'the index templates interpreted on a scripted printindex node (entries with and without page references '
                 'of their own, with and without sub-entries, three levels, two groups, several columns): the keys and page '
                 'references written to the output are exactly the pre-order walk of the tree - every key once, under its '
                 'parent, each followed by its own page references in order', 2)
    obj, expected = index_scene()
    want = [x.label for x in expected]
    n = 0
    for sub in sorted(os.listdir(os.path.join(chk.model.root, 'plasTeX', 'Renderers'))):
        if not os.path.isdir(os.path.join(chk.model.root, 'plasTeX', 'Renderers', sub)):
            continue
        for path in T.template_files(chk.model.root, sub):
            if not re.search(r'\.(jinja2s?|zpts?)$', path):
                continue
            for tpl in T.split_templates(path):
                if not ({'theindex', 'printindex'} & set(tpl.names)) or not tpl.body.strip():
                    continue
                key = '%s/%s' % (sub, tpl.key)
                where = '%s:%d' % (os.path.relpath(path, chk.model.root), tpl.line)
                try:
                    if '.jinja2' in path:
                        ev = TI.run_jinja(tpl.body, {'obj': obj, 'here': obj})
                    else:
                        ev = TI.run_tal(tpl.body, {'self': obj, 'here': obj, 'obj': obj},
                                        prefixes={'stripped': lambda it, v: v})
                except TI.Undecided as e:
                    chk.undecided(R, key, 'template construct outside the interpreter: %s' % e, where)
                    continue
                got = [e[1].label for e in ev if e[0] == 'value' and isinstance(e[1], TI.Data) and e[1].kind in ('key', 'page')]
                if not got:
                    continue            # a template that leaves the listing to the output format's own tool chain
                n += 1
                chk.analysed(path)
                chk.files.add(os.path.relpath(path, chk.model.root))
                chk.verdict(R, key, got == want,
                            'the index written by the template differs from the tree: first difference at position %d (%s instead of %s); written %d of %d'
                            % (next((i for i, (a, b) in enumerate(zip(got + [None], want + [None])) if a != b), min(len(got), len(want))),
                               (got + ['nothing'] * len(want))[next((i for i, (a, b) in enumerate(zip(got + [None], want + [None])) if a != b), 0)],
                               (want + ['nothing'] * len(got))[next((i for i, (a, b) in enumerate(zip(got + [None], want + [None])) if a != b), 0)],
                               len(got), len(want)), where)


def r185(chk, m):
    """The text a key is sorted by: text content of a key that contains macros with a `str` of their own."""
    from . import domheap as D
    R = chk.rule('R18.5', 'the text a key is sorted and merged by, on a DOM heap: the text content of a key containing a macro that has a '
                 '`str` of its own (accent macros, symbol commands; directly in the key or inside a group) is the surrounding text '
                 'with the macro\'s `str` in place - for every node class that computes its text content itself', 4)
    Node = m.cls(D.DOM, 'Node')
    getter = m.find_method(Node, 'textContent')
    need(getter is not None, 'Node.textContent not found')
    special = [c for c in m.all_classes if c is not Node and Node in m.mro(c) and 'textContent' in c.properties
               and m.find_attr_class(c, 'str') is not None]
    need(len(special) >= 2, 'the node classes with their own text content and `str` (accents, symbols) were not found')
    chk.analysed(getter)
    for c in sorted(special, key=lambda c: c.fullname) + [Node]:
        for shape in ('direct', 'in a group'):
            dom = D.Dom(m)
            mac = dom.elem('macro', [dom.text('base', 'o')])
            mac.cls = c
            mac.attrs['str'] = '\u00f6'
            inner = mac if shape == 'direct' else dom.elem('group', [dom.text('g', 'b'), mac])
            frag = dom.elem('key', [dom.text('t1', 'a'), inner, dom.text('t2', 'z')])
            key = 'key text with a %s macro %s' % (c.fullname, shape)
            try:
                outs = D.run(m, getter, {'self': frag}, cls=Node)
            except D.Imprecise as e:
                chk.undecided(R, key, str(e), chk.where(getter))
                continue
            got = {str(v) if isinstance(v, str) else repr(v) for kind, st, v in outs if kind == 'return'} | \
                  {'raises' for kind, st, v in outs if kind == 'raise'}
            want = {'a\u00f6z' if shape == 'direct' else 'ab\u00f6z'}
            chk.decide(R, key, got, want, 'the text of the key is %s instead of %s: the macro contributes its base letter, the entry is '
                       'sorted and merged under another key' % (sorted(got), sorted(want)), chk.where(getter))


def r181(chk, m):
    R = chk.rule('R18.1', 'the prefix merge iterates over the sorted entries; entries compare by the collation keys of their sort keys, '
                 'then of their display text, and a prefix sorts before its extensions', 3)
    fn = m.func(MOD, 'IndexUtils.digest')
    chk.analysed(fn)
    asg = [n for n in M.walk_no_nested(fn.node) if isinstance(n, ast.Assign) and text(n.targets[0]) == 'entries']
    ok = len(asg) == 1 and text(asg[0].value).startswith('sorted(') and "userdata.get('index'" in text(asg[0].value)
    loops = [n for n in M.walk_no_nested(fn.node) if isinstance(n, ast.For) and text(n.iter) == 'entries']
    chk.verdict(R, 'merge loop runs over sorted(entries)', ok and len(loops) == 1,
                'the merge must iterate over sorted(userdata[index]): %s' % [text(a.value) for a in asg], chk.where(fn))
    lt = m.func(MOD, 'IndexEntry.__lt__')
    chk.analysed(lt)
    IE = m.cls(MOD, 'IndexEntry')

    class LH(A.Hooks):
        cls = IE

        def keep(self, ev):
            return False

        def call(self, interp, node, fname, args, kwargs, state):
            if fname == 'collator' and len(args) == 1 and isinstance(args[0], str):
                return args[0].lower()
            return None
    keyobj = {}

    def ent(path, texts=None):
        keys = []
        for i, k in enumerate(path):
            t = (texts or path)[i]
            keys.append(keyobj.setdefault((k, t), A.Obj('key:%s/%s' % (k, t), {'textContent': t})))
        return A.Obj('entry:%s' % '!'.join(path), {'key': keys, 'sortkey': list(path)}, cls=IE)
    cases = [('a < b', ent(['a']), ent(['b']), True), ('b < a', ent(['b']), ent(['a']), False),
             ('collation ignores case: B < a', ent(['B']), ent(['a']), False), ('collation ignores case: a < B', ent(['a']), ent(['B']), True),
             ('equal sort keys: display text decides', ent(['s'], ['x']), ent(['s'], ['y']), True),
             ('a prefix sorts before its extension', ent(['a']), ent(['a', 'b']), True), ('an extension sorts after its prefix', ent(['a', 'b']), ent(['a']), False),
             ('second level decides', ent(['a', 'b']), ent(['a', 'c']), True)]
    bad, und = [], []
    for label, e1, e2, want in cases:
        hk = LH()
        hk.should_inline = A.private_only
        it = A.Interp(model=m, scope=lt, hooks=hk, max_iter=6, exc_edges=False, inline=3, heap=True, precise_exc=True)
        outs = it.run_function(lt, env={'self': e1, 'other': e2})
        got = {(kind, v if isinstance(v, bool) else 'TOP') for kind, s2, v in outs}
        if got != {('return', want)}:
            (und if any('TOP' in map(str, g) for g in got) else bad).append('%s -> %s (expected %s)' % (label, sorted(got, key=repr), want))
    msg = 'IndexEntry.__lt__ (collation = lower case): %s' % '; '.join(bad + und)
    if und and not bad:
        chk.undecided(R, 'IndexEntry.__lt__ compares collation keys, then length', msg, chk.where(lt))
    else:
        chk.verdict(R, 'IndexEntry.__lt__ compares collation keys, then length', not bad, msg, chk.where(lt), '%d orderings' % len(cases))
    mod = m.module(MOD)
    r_ = m.resolve_in_module(mod, 'collator')            # (defined here or imported from a helper module)
    col = [text(e) for e in (r_[2] if isinstance(r_, tuple) and r_[0] == 'assign' else [])]
    chk.verdict(R, 'collation function', any('sort_key' in c for c in col) and any('lower()' in c for c in col),
                'collator must be a collation sort key with a lower-casing fallback: %s' % col, chk.where(mod))


def index_hooks(m, cls):
    from . import domheap as D

    class H(D.DomHooks):
        def call(self, interp, node, fname, args, kwargs, state):
            if fname in ('self.Index', 'IndexUtils.Index') and not args:
                k = state.env.get('__new', 0)
                state.env['__new'] = k + 1
                me = state.env.get('self')
                nested = m.cls(MOD, 'IndexUtils').nested['Index']
                return A.Obj('idx%d' % k, {'nodeType': D.ELEMENT, 'nodeName': 'Index', 'parentNode': None, 'ownerDocument': getattr(me, 'attrs', {}).get('ownerDocument'),
                                        'attributes': None, '_dom_childNodes': [], '__eqkey': ('idx', k), 'pages': [], 'key': [], 'sortkey': '',
                                        'isElementContentWhitespace': False}, cls=nested)
            if fname.endswith('.getElementsByTagName') and len(args) == 1:
                return []
            if fname == 'sorted' and len(args) == 1 and isinstance(args[0], list):
                return list(args[0])          # the entries are handed over in collation order (R18.1 decides the order relation)
            if fname == 'unidecode' and len(args) == 1 and isinstance(args[0], str):
                return args[0]
            if fname.endswith('stringletters') and not args:
                return 'abcdefghijklmnopqrstuvwxyzABCDEFGHIJKLMNOPQRSTUVWXYZ'
            if fname in ('Environment.digest', 'Command.digest', 'Command.__init__', 'Environment.__init__'):
                return A.NONE
            if fname == 'isinstance' and len(args) == 2 and isinstance(args[0], A.Obj) and text(node.args[1]) == 'Environment':
                return False
            return D.DomHooks.call(self, interp, node, fname, args, kwargs, state)
    return H(m, cls)


def r182_merge(chk, m):
    from . import domheap as D
    R = chk.rule('R18.2', 'exactly-once placement, decided on a heap: the merge of sorted entries builds one node per distinct key path '
                 '(a shared prefix is shared, a repeated path is one node), with one page reference per occurrence in order; the '
                 'letter groups hold every item exactly once under the heading of its initial; the column split keeps every item '
                 'exactly once, in order, in the requested number of columns', 8)
    IU = m.cls(MOD, 'IndexUtils')
    fn = m.find_method(IU, 'digest')
    need(fn is not None, 'IndexUtils.digest not found')
    chk.analysed(fn)

    def entry(d, path, typ=0):
        keys = [d.elem('key:%s' % k, eq='key:%s' % k) for k in path]
        node = d.elem('occ%d' % d.n)
        d.n += 1
        fmt = None
        if typ != 0:
            fmt = d.elem('format%d-of-type-%d' % (d.n, typ))      # |see{..} / |seealso{..}: a fragment of its own per occurrence
            fmt.attrs['source'] = '\\\\see{target%d}' % typ
        return A.Obj('entry:%s' % '!'.join(path), {'key': keys, 'sortkey': list(path), 'type': typ, 'node': node, 'format': fmt})

    def referrer(p):
        # the occurrence a page reference stands for: the node of the scenario that the reference object holds (under whatever name)
        if isinstance(p, A.Obj):
            held = [v.label for v in p.attrs.values() if isinstance(v, A.Obj) and v.label.startswith('occ')]
            if len(held) == 1:
                return held[0]
        return 'TOP'

    def shape(node):
        out = []
        for c in D.children(node) or []:
            pages = c.attrs.get('pages')
            keyl = c.attrs.get('sortkey')
            out.append((keyl if isinstance(keyl, str) else 'TOP', len(pages) if isinstance(pages, list) else 'TOP',
                        tuple(referrer(p) for p in pages) if isinstance(pages, list) else (),
                        shape(c)))
        return tuple(out)
    scen = [('shared prefixes and a repeated path', [['a'], ['a', 'b'], ['a', 'b'], ['a', 'c'], ['d']],
             (('a', 1, ('occ0',), (('b', 2, ('occ1', 'occ2'), ()), ('c', 1, ('occ3',), ()))), ('d', 1, ('occ4',), ()))),
            ('return to the top level after a deep entry', [['a', 'b', 'c'], ['d', 'b']],
             (('a', 0, (), (('b', 0, (), (('c', 1, ('occ0',), ()),)),)), ('d', 0, (), (('b', 1, ('occ1',), ()),)))),
            ('the same key with several kinds of reference', [['k'], ['k'], ['k'], ['k']], (('k', 4, ('occ0', 'occ1', 'occ2', 'occ3'), ()),))]
    for label, paths, want in scen:
        d = D.Dom(m)
        d.n = 0
        types = [0, 1, 1, 2] if 'several kinds' in label else [0] * len(paths)
        ents = [entry(d, p, t) for p, t in zip(paths, types)]
        d.doc.attrs['userdata'] = {'index': ents}
        me = d.elem('printindex')
        me.cls = m.cls(MOD, 'printindex')
        h = index_hooks(m, me.cls)
        h.should_inline = lambda fname, node, info: info is None or getattr(node, 'name', '') != 'digest'
        it = A.Interp(model=m, scope=fn, hooks=h, max_iter=12, exc_edges=False, inline=10, heap=True, precise_exc=True, max_states=30000)
        it.run_init = True
        try:
            outs = it.run_function(fn, env={'self': me, 'tokens': A.Sym('tokens'), '__me': me})
            need(not it.imprecise, 'IndexUtils.digest: %s' % it.imprecise[:2])
            need(not it.unknown_branches, 'IndexUtils.digest: test not determined: %s' % it.unknown_branches[:2])
        except AnalysisError as e:
            chk.undecided(R, 'merge: %s' % label, str(e), chk.where(fn))
            continue
        chk.paths += len(outs)
        got = {(kind, shape(s2.env['__me'])) for kind, s2, v in outs}
        chk.decide(R, 'merge: %s' % label, {repr(g) for g in got}, {repr(('return', want))},
                   'merging the sorted entries %s gives the tree (key, page references, referring nodes, children) %s; expected %s'
                   % (['!'.join(p) for p in paths], sorted(got, key=repr), want), chk.where(fn))


def r182_groups(chk, m):
    from . import domheap as D
    R = 'R18.2'
    if R not in chk.rules:
        chk.rule(R, 'index letter groups on a heap: every item goes into exactly one group under the heading of its initial, a new heading '
                 '(with its own id) starts exactly when the heading changes', 2)
    IU = m.cls(MOD, 'IndexUtils')
    fn = IU.properties.get('groups', {}).get('get') or m.find_method(IU, 'groups')
    need(fn is not None, 'IndexUtils.groups not found')
    chk.analysed(fn)
    for label, keys, want in (('letters, underscore and symbols', ['apple', 'avocado', 'Banana', 'berry', '_x', '_y', '1abc', '?'],
                               (('A', 'A', ('apple', 'avocado')), ('B', 'B', ('Banana', 'berry')), ('_ (Underscore)', '_', ('_x', '_y')), ('Symbols', 'Symbols', ('1abc', '?')))),
                              ('a single initial', ['x1', 'x2', 'x3'], (('X', 'X', ('x1', 'x2', 'x3')),)),
                              ('an empty sort key', ['', 'a'], (('Symbols', 'Symbols', ('',)), ('A', 'A', ('a',))))):
        d = D.Dom(m)
        items = []
        for k in keys:
            it_ = d.elem('item:%s' % k)
            it_.attrs.update(sortkey=k, totallen=1)
            items.append(it_)
        d.doc.attrs['config'] = {'document': {'index-columns': 2}}
        me = d.elem('printindex', items)
        me.cls = m.cls(MOD, 'printindex')
        h = index_hooks(m, me.cls)
        h.should_inline = lambda fname, node, info: info is None or getattr(node, 'name', '') in ('__iter__', 'hasChildNodes', 'childNodes', 'splitColumns') or A.helpers_anywhere(fname, node, info)
        it = A.Interp(model=m, scope=fn, hooks=h, max_iter=12, exc_edges=False, inline=8, heap=True, precise_exc=True, max_states=30000)
        it.run_init = True
        try:
            outs = it.run_function(fn, env={'self': me})
            need(not it.imprecise, 'IndexUtils.groups: %s' % it.imprecise[:2])
            need(not it.unknown_branches, 'IndexUtils.groups: test not determined: %s' % it.unknown_branches[:2])
        except AnalysisError as e:
            chk.undecided(R, 'groups: %s' % label, str(e), chk.where(fn))
            continue
        got = set()
        for kind, s2, v in outs:
            if isinstance(v, list):
                desc = []
                for g in v:
                    flat = [x for col in g for x in (col if isinstance(col, list) else [col])] if isinstance(g, list) else []
                    desc.append((getattr(g, 'attrs', {}).get('title', 'TOP'), getattr(g, 'attrs', {}).get('id', 'TOP'),
                                 tuple(x.attrs.get('sortkey') if isinstance(x, A.Obj) else 'TOP' for x in flat)))
                got.add((kind, tuple(desc)))
            else:
                got.add((kind, 'TOP'))
        chk.decide(R, 'groups: %s' % label, {repr(g) for g in got}, {repr(('return', want))},
                   'grouping the items with sort keys %s gives (heading, id, members) %s; expected %s' % (keys, sorted(got, key=repr), want), chk.where(fn))


def r182_columns(chk, m):
    from . import domheap as D
    R = 'R18.2'
    IU = m.cls(MOD, 'IndexUtils')
    fn = m.find_method(IU, 'splitColumns')
    need(fn is not None, 'IndexUtils.splitColumns not found')
    chk.analysed(fn)
    for label, lens, cols in (('seven entries, three columns', [1, 3, 1, 2, 1, 1, 4], 3), ('fewer entries than columns', [2], 3), ('one column', [1, 1, 1], 1),
                              ('equal sizes, two columns', [2, 2, 2, 2], 2), ('no entries', [], 2)):
        d = D.Dom(m)
        items = []
        for i, n in enumerate(lens):
            it_ = d.elem('e%d' % i)
            it_.attrs['totallen'] = n
            items.append(it_)
        me = d.elem('theindex')
        me.cls = IU
        h = index_hooks(m, IU)
        h.should_inline = A.helpers_anywhere
        it = A.Interp(model=m, scope=fn, hooks=h, max_iter=14, exc_edges=False, inline=4, heap=True, precise_exc=True, max_states=30000)
        try:
            outs = it.run_function(fn, env={'self': me, 'items': items, 'cols': cols})
        except AnalysisError as e:
            chk.undecided(R, 'splitColumns: %s' % label, str(e), chk.where(fn))
            continue
        got = set()
        for kind, s2, v in outs:
            if isinstance(v, list) and all(isinstance(c, list) for c in v):
                if any(c is s2.env['items'] for c in v):
                    # the caller stores the columns back into that very list (item[:] = columns): it would then contain itself
                    got.add((kind, 'a column is the list of entries that was handed in'))
                    continue
                got.add((kind, len(v), tuple(x.label if isinstance(x, A.Obj) else 'TOP' for c in v for x in c)))
            else:
                got.add((kind, 'TOP'))
        want = ('return', cols, tuple('e%d' % i for i in range(len(lens))))
        chk.decide(R, 'splitColumns: %s' % label, {repr(g) for g in got}, {repr(want)},
                   'splitting entries of sizes %s into %d columns gives (outcome, columns, entries in reading order) %s; expected every entry once, '
                   'in order, in exactly %d columns' % (lens, cols, sorted(got, key=repr), cols), chk.where(fn))


# ---------------------------------------------------------------------------
def ref_parse(seq):
    """Reference reading of an \\index argument over token kinds.
    seq: list of kinds 'c' (ordinary char, numbered), '!', '@', '|', 'q' (the quote character).
    Returns (key levels, sort levels, format) as lists of labels, or None if outside the grammar."""
    levels, cur, sort = [], [], None
    keys, sorts = [], []
    fmt = None
    i = 0
    while i < len(seq):
        k, lab = seq[i]
        if fmt is not None:
            fmt.append(lab)
        elif k == 'q':
            if i + 1 >= len(seq):
                return None
            cur.append(seq[i + 1][1])
            i += 1
        elif k == '@':
            if sort is not None or not cur:
                return None
            sort, cur = cur, []
        elif k in '!|':
            if not cur:
                return None
            keys.append(cur)
            sorts.append(sort if sort is not None else cur)
            cur, sort = [], None
            if k == '|':
                fmt = []
        else:
            cur.append(lab)
        i += 1
    if fmt is None:
        if not cur:
            return None
        keys.append(cur)
        sorts.append(sort if sort is not None else cur)
    elif not fmt:
        return None
    return keys, sorts, fmt


class IdxHooks(SelfHooks):
    def __init__(self, model, cls, toks):
        SelfHooks.__init__(self, model, cls)
        self.toks = toks

    def call(self, interp, node, fname, args, kwargs, state):
        if fname == 'iter':
            return A.Sym('entryiter')
        if fname in ('Command.invoke', 'super().invoke'):
            return A.Sym('RESULT')
        if fname == 'next' and args and isinstance(args[0], A.Sym) and args[0].label == 'entryiter':
            pos = state.env.get('__pos', 0)
            if pos >= len(self.toks):
                if len(args) > 1:
                    return A.NONE if args[1] is None else args[1]
                state.env['__exc'] = 'StopIteration'
                return A.TOP
            state.env['__pos'] = pos + 1
            return self.toks[pos]
        if fname in ('itertools.islice', 'islice') and len(args) == 2 and isinstance(args[0], A.Sym) and args[0].label == 'entryiter' and isinstance(args[1], int):
            out = []
            for _ in range(args[1]):
                pos = state.env.get('__pos', 0)
                if pos >= len(self.toks):
                    break
                state.env['__pos'] = pos + 1
                out.append(self.toks[pos])
            return out
        if fname == 'tex.expandTokens' and len(args) == 1 and isinstance(args[0], list):
            labs = tuple(x.label if isinstance(x, A.Sym) else (x.cls.name if isinstance(x, A.Inst) else repr(x)) for x in args[0])
            return A.Obj('frag', {'tokens': labs, 'textContent': labs})
        if fname == 'IndexEntry' and len(args) >= 3:
            def toks(x):
                if isinstance(x, A.Obj):
                    return list(x.attrs.get('tokens', ('TOP',)))
                if isinstance(x, (tuple, list)):
                    return [y.label if isinstance(y, A.Sym) else (y if isinstance(y, str) else repr(y)) for y in x]
                return None if x is None else ['TOP']
            key = [toks(k) for k in args[0]] if isinstance(args[0], list) else 'TOP'
            sk = [toks(k) for k in args[2]] if isinstance(args[2], list) else 'TOP'
            fmt = toks(args[3]) if len(args) > 3 else None
            state.env['__entry'] = state.env.get('__entry', ()) + (repr((key, sk, [t for t in (fmt or []) if t != 'EscapeSequence'])),)
            return A.Sym('ENTRYOBJ', truthy=True)
        return None

    def lookup(self, interp, name, state):
        if name == "self.attributes['entry']":
            return A.Sym('ENTRY')
        return SelfHooks.lookup(self, interp, name, state)

    def iter_item(self, interp, loop, k, state):
        it = interp.ev(loop.iter, state)
        if isinstance(it, A.Sym) and it.label == 'entryiter':
            pos = state.env.get('__pos', 0)
            if pos >= len(self.toks):
                return A.STOP
            state.env['__pos'] = pos + 1
            return self.toks[pos]
        return None

    def decide(self, interp, test, state):
        if isinstance(test, ast.Compare) and len(test.ops) == 1 and isinstance(test.ops[0], ast.Eq):
            l = interp.ev(test.left, state)
            r = interp.ev(test.comparators[0], state)
            if isinstance(l, A.Sym) and 'char' in l.attrs and isinstance(r, str):
                return l.attrs['char'] == r
        return None

    def keep(self, ev):
        return False


def r183(chk, m):
    R = chk.rule('R18.3', 'entry parsing: ! closes a level, @ moves the collected text to the sort key of that level, | switches to '
                 'the page format, " quotes the next token - the key path and sort path computed by index.invoke equal the reference '
                 'reading for every well-formed argument of up to 4 tokens (quick) or 6 tokens (thorough), over token kinds', 100)
    cls = m.cls(MOD, 'index')
    fn = m.find_method(cls, 'invoke')
    chk.analysed(fn)
    kinds = ['c', '!', '@', '|', 'q']
    chars = {'!': '!', '@': '@', '|': '|', 'q': '"'}
    n = bad = 0
    first = []
    undet = []
    maxlen = 6 if chk.tier == 'thorough' else 5
    for L in range(1, maxlen + 1):
        for ks in itertools.product(kinds, repeat=L):
            seq = [(k, '%s%d' % (k, i)) for i, k in enumerate(ks)]
            ref = ref_parse(seq)
            if ref is None:
                continue
            if chk.tier != 'thorough' and L == 5 and ks.count('@') == 0:
                continue      # quick tier: five-token arguments only when they carry a sort key
            n += 1
            for special_cc in ((12, 11) if (L <= 3 and '|' not in ks) else (12,)):
                # the special characters are "other" and, for short arguments without a format part, also tried as letters
                # (an index entry written in a macro body while @ is a letter)
                toks = [A.Sym(lab, truthy=True, attrs={'catcode': 12 if k == 'c' else special_cc, 'char': chars.get(k, 'x'), 'distinct': True}) for k, lab in seq]
                hk = IdxHooks(m, cls, toks)
                hk.should_inline = A.private_only
                it = A.Interp(model=m, scope=fn, hooks=hk, max_iter=12, exc_edges=False, inline=2, precise_exc=True)
                outs = it.run_function(fn, env={'tex': A.Sym('tex', truthy=True), 'self.ownerDocument.userdata': {}})
                shown = ''.join(chars.get(k, 'x') for k in ks) + (' (specials as letters)' if special_cc == 11 else '')
                if it.imprecise or it.unknown_branches:
                    undet.append('%s: %s' % (shown, (it.imprecise + it.unknown_branches)[0]))
                    continue
                got = set()
                for kind, s, v in outs:
                    ent = s.env.get('__entry', ())
                    got.add(ent[0] if len(ent) == 1 and kind == 'return' else '%s with %d entries' % (kind, len(ent)))
                want = repr((ref[0], ref[1], ref[2] if ref[2] is not None else []))
                if got != {want}:
                    bad += 1
                    if len(first) < 4:
                        first.append('%s -> %s, expected %s' % (shown, sorted(got), want))
    chk.paths += n
    chk.rules[R]['n'] += n - 1
    if undet and not bad:
        chk.undecided(R, 'index.invoke agrees with the reference reading on %d arguments (<= %d tokens)' % (n, maxlen),
                      '%d argument(s) could not be interpreted: %s' % (len(undet), undet[:3]), chk.where(fn))
        return
    chk.verdict(R, 'index.invoke agrees with the reference reading on %d arguments (<= %d tokens)' % (n, maxlen), bad == 0,
                '%d of %d arguments are read differently, e.g. %s' % (bad, n, '; '.join(first)), chk.where(fn), '%d arguments' % n)
