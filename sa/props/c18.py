"""C18 - The index lists every entry exactly once, under its key, in collation order.

R18.1 sorted before merged / comparison keys, R18.2 exactly-once placement in
the prefix merge, the letter groups and the column split, R18.3 entry parsing
table (! @ | " syntax) by constant propagation over token kinds."""
import ast
import itertools
import re

from .. import absint as A
from .. import model as M
from ..report import AnalysisError, need
from ..util import SelfHooks, text

MOD = 'plasTeX.Base.LaTeX.Index'


def check(chk):
    m = chk.model
    r181(chk, m)
    r182_merge(chk, m)
    r182_groups(chk, m)
    r182_columns(chk, m)
    r183(chk, m)
    chk.decline('order for arbitrary key multisets and balance of the column split (runtime); collation itself is delegated to '
                'pyuca / str.lower')


def r181(chk, m):
    R = chk.rule('R18.1', 'the prefix merge iterates over the sorted entries; entries compare by the collation keys of their sort keys, '
                 'then of their display text, and a prefix sorts before its extensions', 3)
    fn = m.func(MOD, 'IndexUtils.digest')
    chk.analysed(fn)
    asg = [n for n in M.walk_no_nested(fn.node) if isinstance(n, ast.Assign) and text(n.targets[0]) == 'entries']
    ok = len(asg) == 1 and text(asg[0].value).startswith('sorted(') and "userdata.get('index'" in text(asg[0].value)
    loops = [n for n in M.walk_no_nested(fn.node) if isinstance(n, ast.For) and text(n.iter) == 'entries']
    chk.verdict(R, 'merge loop runs over sorted(entries)', ok and len(loops) == 1,
                'the merge must iterate over sorted(userdata[index]): %s' % [text(a.value) for a in asg], chk.where(fn))
    lt = m.func(MOD, 'IndexEntry.__lt__')
    chk.analysed(lt)
    src = text(lt.node)
    ok = src.count('collator(x) for x in') == 2 and 'self.sortkey' in src and 'other.sortkey' in src and \
        'collator(x.textContent) for x in self.key' in src and 'collator(x.textContent) for x in other.key' in src
    rets = [(text(n.test), [text(s) for s in n.body]) for n in M.walk_no_nested(lt.node) if isinstance(n, ast.If)]
    ok2 = ('key_self < key_other', ['return True']) in rets and ('key_self > key_other', ['return False']) in rets and \
        'return len(self.key) < len(other.key)' in src
    chk.verdict(R, 'IndexEntry.__lt__ compares collation keys, then length', ok and ok2,
                '__lt__ must compare (collation of sort keys, collation of display text) and fall back to the number of levels: %s' % rets, chk.where(lt))
    mod = m.module(MOD)
    col = [text(e) for e in mod.assigns.get('collator', [])]
    chk.verdict(R, 'collation function', any('sort_key' in c for c in col) and any('lower()' in c for c in col),
                'collator must be a collation sort key with a lower-casing fallback: %s' % col, chk.where(mod))


def r182_merge(chk, m):
    R = chk.rule('R18.2', 'exactly-once placement: the common-prefix count stops at the first differing level; per entry one page '
                 'destination is appended, one index node is created per missing level and the walk returns to the common level; '
                 'every item goes into exactly one letter group and exactly one column', 8)
    fn = m.func(MOD, 'IndexUtils.digest')
    loops = [n for n in M.walk_no_nested(fn.node) if isinstance(n, ast.For) and text(n.iter) == 'entries']
    need(len(loops) == 1, 'IndexUtils.digest: merge loop not found')
    merge = loops[0]
    pre = [n for n in merge.body if isinstance(n, ast.For) and 'zip(' in text(n.iter)]
    need(len(pre) == 1, 'IndexUtils.digest: common-prefix loop not found')
    pl = pre[0]
    res = {}
    for eq in (True, False):
        class H(A.Hooks):
            def decide(self, interp, test, state):
                if isinstance(test, ast.Compare) and isinstance(test.ops[0], (ast.Eq, ast.NotEq)) and 'prevkey' in text(test):
                    return eq if isinstance(test.ops[0], ast.Eq) else not eq
                return None

            def keep(self, ev):
                return ev[0] == 'aug'
        it = A.Interp(model=m, scope=fn, hooks=H(), max_iter=1, exc_edges=False)
        outs = it.block(pl.body, [A.State({'common': 0})])
        acts = set()
        for kind in ('fall', 'continue', 'break', 'return'):
            for s, v in outs.get(kind, []):
                acts.add((kind if kind != 'fall' else 'continue', s.env.get('common')))
        res[eq] = acts
    chk.verdict(R, 'common prefix stops at the first difference', res == {True: {('continue', 1)}, False: {('break', 0)}},
                'per level, equal -> %s (want count+1, go on), different -> %s (want stop): counting matches after a difference puts a '
                'sub-entry under the wrong parent' % (sorted(res[True]), sorted(res[False])), chk.where(fn, pl))
    init = [text(n.value) for n in merge.body if isinstance(n, ast.Assign) and text(n.targets[0]) == 'common']
    chk.verdict(R, 'common prefix counted per entry from 0', init == ['0'], 'common is initialised per entry by %s' % init, chk.where(fn, merge))
    # pages appended exactly once per entry
    app = [s for s in merge.body if isinstance(s, ast.Expr) and isinstance(s.value, ast.Call) and M.call_name(s.value) == 'current.pages.append']
    chk.verdict(R, 'one page destination per entry', len(app) == 1 and 'IndexDestination(item.type, item.node)' in text(app[0]) and
                sum(1 for c in ast.walk(merge) if isinstance(c, ast.Call) and M.call_name(c).endswith('pages.append')) == 1,
                'each entry must append exactly one IndexDestination to its node unconditionally', chk.where(fn, merge))
    whiles = [s for s in merge.body if isinstance(s, ast.While)]
    ok = len(whiles) == 2 and text(whiles[0].test) == 'i < len(prev.key)' and text(whiles[1].test) == 'i < len(item.key)'
    def body_of(w):
        return [text(s) for s in w.body]
    ok = ok and body_of(whiles[0]) == ['current = current.parentNode', 'i += 1']
    b1 = body_of(whiles[1]) if len(whiles) == 2 else []
    ok = ok and b1[:1] == ['newidx = self.Index()'] and 'newidx.key = item.key[i]' in b1 and 'newidx.sortkey = item.sortkey[i]' in b1 \
        and 'current.append(newidx)' in b1 and 'current = newidx' in b1 and b1[-1] == 'i += 1'
    starts = [text(s.value) for s in merge.body if isinstance(s, ast.Assign) and text(s.targets[0]) == 'i']
    chk.verdict(R, 'walk out to the common level, then add one node per missing level', ok and starts == ['common', 'common'],
                'the merge must pop to the common level (i from common while i < len(prev.key)) and then create one Index node per '
                'level (i from common while i < len(item.key)); found %s / %s / starts %s' % (body_of(whiles[0]) if whiles else None, b1, starts),
                chk.where(fn, merge))
    chk.verdict(R, 'previous entry advances', text(merge.body[-1]) == 'prev = item', 'the loop must end with prev = item', chk.where(fn, merge))


def r182_groups(chk, m):
    R = 'R18.2'
    if R not in chk.rules:
        chk.rule(R, 'index letter groups: every item goes into exactly one group and a new heading (with its own id) starts exactly when the heading changes', 2)
    fn = m.func(MOD, 'IndexUtils.groups')
    chk.analysed(fn)
    loops = [n for n in fn.node.body if isinstance(n, ast.For)]
    need(loops, 'IndexUtils.groups: loop not found')
    loop = loops[0]
    app = [s for s in loop.body if isinstance(s, ast.Expr) and text(s.value) == 'batches[-1].append(item)']
    total = sum(1 for c in ast.walk(loop) if isinstance(c, ast.Call) and isinstance(c.func, ast.Attribute) and c.func.attr == 'append' and c.args and text(c.args[0]) == 'item')
    chk.verdict(R, 'groups: every item goes into exactly one batch', len(app) == 1 and total == 1 and loop.body[-1] is app[0],
                'each index item must be appended exactly once, unconditionally, to the current batch', chk.where(fn, loop))
    ifs = [s for s in loop.body if isinstance(s, ast.If) and 'current' in text(s.test)]
    ok = False
    detail = ''
    if len(ifs) == 1:
        t = ifs[0].test
        if isinstance(t, ast.Compare) and isinstance(t.ops[0], ast.NotEq) and text(t.left) == 'current':
            rhs = text(t.comparators[0])
            assigned = [text(s.value) for s in ifs[0].body if isinstance(s, ast.Assign) and text(s.targets[0]) == 'current']
            newg = any('batches.append(' in text(s) for s in ifs[0].body)
            ok = assigned == [rhs] and newg
            detail = 'tests current != %s, then sets current = %s' % (rhs, assigned)
    chk.verdict(R, 'groups: a new heading starts exactly when the heading changes', ok,
                'the group marker must be compared with and set to the same value (%s): otherwise entries with the same initial get '
                'repeated headings' % detail, chk.where(fn, loop))


def r182_columns(chk, m):
    R = 'R18.2'
    fn = m.func(MOD, 'IndexUtils.splitColumns')
    chk.analysed(fn)
    loops = [n for n in fn.node.body if isinstance(n, ast.For) and text(n.iter) == 'entries']
    need(len(loops) == 1, 'splitColumns: placement loop not found')
    loop = loops[0]
    item = A.Sym('ITEM', truthy=True, attrs={'distinct': True})
    h = A.Hooks()
    h.keep = lambda ev: ev[0] == 'call'
    it = A.Interp(model=m, scope=fn, hooks=h, max_iter=1, exc_edges=False)
    outs = it.block(loop.body, [A.State({'item': item, 'num': A.Sym('N'), 'output': A.Sym('OUT'), 'current': A.Sym('CUR')})])
    counts = []
    for kind in ('fall', 'continue', 'break'):
        for s, v in outs.get(kind, []):
            n = 0
            for ev in s.trace:
                if ev[1] in ('output[-1].append', 'output.append'):
                    arg = ev[2][0] if ev[2] else None
                    if arg == item or (isinstance(arg, str) and re.fullmatch(r'\[item\]', arg)):
                        n += 1
            counts.append((kind, n))
    chk.paths += len(counts)
    chk.verdict(R, 'splitColumns: every entry placed in exactly one column', len(counts) >= 4 and all(k == 'fall' and n == 1 for k, n in counts),
                'on some branch an entry is placed %s times' % sorted(set(counts)), chk.where(fn, loop), '%d branches' % len(counts))
    src = [text(s) for s in fn.node.body]
    i_rev = next((i for i, s in enumerate(src) if s == 'entries.reverse()'), None)
    i_orev = next((i for i, s in enumerate(src) if s == 'output.reverse()'), None)
    inner = any(isinstance(s, ast.For) and text(s.iter) == 'output' and [text(x) for x in s.body] == ['item.reverse()'] for s in fn.node.body)
    pad = [s for s in fn.node.body if isinstance(s, ast.For) and 'cols - len(output)' in text(s.iter)]
    okpad = len(pad) == 1 and [text(x) for x in pad[0].body] == ['output.append([])']
    chk.verdict(R, 'splitColumns: order restored, padding only adds empty columns', None not in (i_rev, i_orev) and i_rev < i_orev and inner and okpad,
                'the reversal used for filling must be undone on output (columns and entries) and padding may only append empty columns', chk.where(fn))


# ---------------------------------------------------------------------------
def ref_parse(seq):
    """Reference reading of an \\index argument over token kinds.
    seq: list of kinds 'c' (ordinary char, numbered), '!', '@', '|', 'q' (the quote character).
    Returns (key levels, sort levels, format) as lists of labels, or None if outside the grammar."""
    levels, cur, sort = [], [], None
    keys, sorts = [], []
    fmt = None
    i = 0
    while i < len(seq):
        k, lab = seq[i]
        if fmt is not None:
            fmt.append(lab)
        elif k == 'q':
            if i + 1 >= len(seq):
                return None
            cur.append(seq[i + 1][1])
            i += 1
        elif k == '@':
            if sort is not None or not cur:
                return None
            sort, cur = cur, []
        elif k in '!|':
            if not cur:
                return None
            keys.append(cur)
            sorts.append(sort if sort is not None else cur)
            cur, sort = [], None
            if k == '|':
                fmt = []
        else:
            cur.append(lab)
        i += 1
    if fmt is None:
        if not cur:
            return None
        keys.append(cur)
        sorts.append(sort if sort is not None else cur)
    elif not fmt:
        return None
    return keys, sorts, fmt


class IdxHooks(SelfHooks):
    def __init__(self, model, cls, toks):
        SelfHooks.__init__(self, model, cls)
        self.toks = toks

    def call(self, interp, node, fname, args, kwargs, state):
        if fname == 'iter':
            return A.Sym('entryiter')
        if fname == 'Command.invoke':
            return None
        return None

    def lookup(self, interp, name, state):
        if name == "self.attributes['entry']":
            return A.Sym('ENTRY')
        return SelfHooks.lookup(self, interp, name, state)

    def iter_item(self, interp, loop, k, state):
        it = interp.ev(loop.iter, state)
        if isinstance(it, A.Sym) and it.label == 'entryiter':
            pos = state.env.get('__pos', 0)
            if pos >= len(self.toks):
                return A.STOP
            state.env['__pos'] = pos + 1
            return self.toks[pos]
        return None

    def decide(self, interp, test, state):
        if isinstance(test, ast.Compare) and len(test.ops) == 1 and isinstance(test.ops[0], ast.Eq):
            l = interp.ev(test.left, state)
            r = interp.ev(test.comparators[0], state)
            if isinstance(l, A.Sym) and 'char' in l.attrs and isinstance(r, str):
                return l.attrs['char'] == r
        return None

    def keep(self, ev):
        return False


def r183(chk, m):
    R = chk.rule('R18.3', 'entry parsing: ! closes a level, @ moves the collected text to the sort key of that level, | switches to '
                 'the page format, " quotes the next token - the key path and sort path computed by index.invoke equal the reference '
                 'reading for every well-formed argument of up to 6 tokens (over token kinds)', 200)
    cls = m.cls(MOD, 'index')
    fn = m.find_method(cls, 'invoke')
    chk.analysed(fn)
    # analyse the parsing part only: statements before the sort keys are expanded
    stop = next((i for i, s in enumerate(fn.node.body) if isinstance(s, ast.For) and 'enumerate(sortkey)' in text(s.iter)), None)
    need(stop is not None, 'index.invoke: end of the parsing part not found')
    stmts = fn.node.body[:stop]
    kinds = ['c', '!', '@', '|', 'q']
    chars = {'!': '!', '@': '@', '|': '|', 'q': '"'}
    n = bad = 0
    first = []
    maxlen = 7 if chk.tier == 'thorough' else 5
    for L in range(1, maxlen + 1):
        for ks in itertools.product(kinds, repeat=L):
            seq = [(k, '%s%d' % (k, i)) for i, k in enumerate(ks)]
            ref = ref_parse(seq)
            if ref is None:
                continue
            n += 1
            toks = [A.Sym(lab, truthy=True, attrs={'catcode': 12, 'char': chars.get(k, 'x'), 'distinct': True}) for k, lab in seq]
            it = A.Interp(model=m, scope=fn, hooks=IdxHooks(m, cls, toks), max_iter=12, exc_edges=False)
            outs = it.block(stmts, [A.State({})])
            got = set()
            for kind in ('fall',):
                for s, v in outs.get(kind, []):
                    key, sk, fmt = s.env.get('key'), s.env.get('sortkey'), s.env.get('format')
                    lab = lambda lst: [[x.label for x in lv] for lv in lst] if isinstance(lst, list) and all(isinstance(lv, list) for lv in lst) else repr(lst)
                    got.add(repr((lab(key), lab(sk), [x.label for x in fmt] if isinstance(fmt, list) else repr(fmt))))
            want = repr((ref[0], ref[1], ref[2] if ref[2] is not None else []))
            if got != {want}:
                bad += 1
                if len(first) < 4:
                    first.append('%s -> %s, expected %s' % (''.join(chars.get(k, 'x') for k in ks), sorted(got), want))
    chk.paths += n
    chk.rules[R]['n'] += n - 1
    chk.verdict(R, 'index.invoke agrees with the reference reading on %d arguments (<= %d tokens)' % (n, maxlen), bad == 0,
                '%d of %d arguments are read differently, e.g. %s' % (bad, n, '; '.join(first)), chk.where(fn), '%d arguments' % n)
