"""C13 - Rendering splits the document into files without losing or repeating content.

R13.1 exactly-once routing of every child rendering, R13.2 filename
memoisation, R13.3 names issued in document order before rendering,
R13.4 determinism, R13.5 single-file template detection, R13.6 footnotes are
gathered by the nearest file-producing section (same predicate as routing)."""
import ast
import re

from .. import absint as A
from .. import flow
from .. import model as M
from ..report import AnalysisError, need
from ..util import text

REN = 'plasTeX.Renderers'


def check(chk):
    m = chk.model
    r131(chk, m)
    r132(chk, m)
    r133(chk, m)
    r134(chk, m)
    r135(chk, m)
    r136(chk, m)
    from . import c15
    # the name generator is part of this property's mechanism: its freshness guard (uniqueness of output file names)
    c15.generator_rules(chk, m, rule_id='R13.7')
    chk.decline('the partition of body text over files for every split level and template (runtime)')


def r131(chk, m):
    from . import renderheap
    renderheap.render_rules(chk, m, 'R13.1', 'routing')


def fscene(m, level=1, split=2, override=None, config=True, label='sec-id'):
    """A renderer with an empty memo and a scripted name generator, and one sectioning node."""
    from . import domheap as D
    from . import renderheap as RH
    Ren = m.cls(REN, 'Renderable')
    doc = A.Obj('document', {'userdata': {'jobname': 'job'}, 'config': {'files': {'bad-chars': ': ', 'bad-chars-sub': '-'}}})
    gen = A.Obj('generator', {'variables': {}})
    renderer = A.Obj('renderer', {'files': {}, 'level': split, 'fileExtension': '.html', 'newFilename': gen})
    attrs = {'level': level, 'nodeName': 'section', 'ownerDocument': doc, 'title': 'A title', '__closed': True, 'parentNode': None}
    if label:
        attrs['@id'] = label          # (a \\label; without one the id property generates an id on first use)
    if config:
        attrs['config'] = doc.attrs['config']
    if override is not None:
        attrs['filenameoverride'] = override
    # (an object that is not a document node has no `config`: the mixed-in property then yields no name)
    node = A.Obj('sec', attrs, cls=m.cls('plasTeX', 'Macro') if config else Ren)
    return renderer, node


class NameHooks(object):
    pass


def frun(m, fn, env, max_iter=12):
    from . import domheap as D
    from . import renderheap as RH
    Ren = m.cls(REN, 'Renderable')

    class H(RH.RenderHooks):
        def lookup(self, interp, name, state):
            if name == 'idgen':
                return state.env.setdefault('__idgen', A.Iter(['generated-id-%d' % i for i in range(1, 9)]))
            return None

        def call(self, interp, node, fname, args, kwargs, state):
            if fname == 'Filenames' and args and isinstance(args[0], str):
                return A.Sym('func:override-generator', truthy=True, attrs={'spec': args[0]})
            callee = state.env.get(node.func.id) if isinstance(node.func, ast.Name) else None
            if isinstance(callee, A.Sym) and callee.label == 'func:override-generator' and not args:
                state.env.setdefault('__renderlog', []).append(('override', callee.attrs['spec']))
                return '%s.html' % callee.attrs['spec']
            return RH.RenderHooks.call(self, interp, node, fname, args, kwargs, state)
    it = A.Interp(model=m, scope=fn, hooks=H(m, Ren), max_iter=max_iter, exc_edges=False, inline=14, heap=True, precise_exc=True, max_states=20000)
    it._property_ok = True
    outs = it.run_function(fn, env=env)
    if it.imprecise:
        raise D.Imprecise('; '.join(sorted(set(it.imprecise))[:3]))
    if it.unknown_branches:
        raise D.Imprecise('the outcome of a test is not determined on this heap: ' + '; '.join(sorted(set(it.unknown_branches))[:3]))
    return outs


def r132(chk, m):
    from . import domheap as D
    R = chk.rule('R13.2', 'the file name of a node interpreted on a heap with a scripted name generator: the first access issues one name '
                 'and remembers it for the node, a second access returns the same name without asking the generator again; a node '
                 'below the split level or without configuration gets no name and the generator is not touched; an override is used '
                 'as given and remembered; a generated id (one that depends on what was processed before) never becomes part of a name', 6)
    Ren = m.cls(REN, 'Renderable')
    fn = Ren.properties.get('filename', {}).get('get')
    need(fn is not None, 'Renderable.filename not found')
    chk.analysed(fn)

    def twice(renderer, node):
        out = set()
        for kind, s, v in frun(m, fn, {'self': node, 'Node.renderer': renderer}):
            if kind != 'return':
                out.add('first access raises %s' % (v,))
                continue
            r2, n2 = s.env['Node.renderer'], s.env['self']
            issued1 = s.env.get('__nfiles', 0)
            memo1 = r2.attrs['files'].get(n2) if isinstance(r2.attrs.get('files'), dict) else 'TOP'
            for kind2, s2, v2 in frun(m, fn, {'self': n2, 'Node.renderer': r2, '__nfiles': issued1}):
                if kind2 != 'return':
                    out.add('second access raises %s' % (v2,))
                    continue
                gen = r2.attrs.get('newFilename')
                vs = gen.attrs.get('variables') if isinstance(gen, A.Obj) else None
                out.add('first %r (names issued %d, remembered %r), second %r (names issued %d)%s'
                        % (v, issued1, memo1, v2, s2.env.get('__nfiles', 0),
                           (' variables %s' % ' '.join('%s=%s' % kv for kv in sorted(vs.items()))) if isinstance(vs, dict) and vs else ''))
        return out
    ok1 = "first 'file0.html' (names issued 1, remembered 'file0.html'), second 'file0.html' (names issued 1)"
    cases = [('a labelled node that makes a file', dict(level=1, split=2), ok1 + ' variables id=sec-id name=section title=A title'),
             ('a node at the split level', dict(level=2, split=2), ok1 + ' variables id=sec-id name=section title=A title'),
             ('a node without a label (its id is generated)', dict(level=1, split=2, label=None), ok1 + ' variables name=section title=A title'),
             ('a node below the split level', dict(level=3, split=2), 'first None (names issued 0, remembered None), second None (names issued 0)'),
             ('a node without configuration', dict(level=1, split=2, config=False), 'first None (names issued 0, remembered None), second None (names issued 0)'),
             ('a node with a file name override', dict(level=3, split=2, override='custom'),
              "first 'custom.html' (names issued 0, remembered 'custom.html'), second 'custom.html' (names issued 0)")]
    for label, kw, want in cases:
        try:
            got = twice(*fscene(m, **kw))
        except D.Imprecise as e:
            chk.undecided(R, label, str(e), chk.where(fn))
            continue
        chk.decide(R, label, got, {want}, '%s: %s; expected %s - a second access that issues a second name makes links and files diverge'
                   % (label, sorted(got), want), chk.where(fn), want)


def r133(chk, m):
    from . import domheap as D
    R = chk.rule('R13.3', 'names are issued in document order before rendering: cacheFilenames, interpreted on a small tree, asks for the '
                 'name of every node before those of its children, children in order; render calls it before rendering', 2)
    Rend = m.cls(REN, 'Renderer')
    Ren = m.cls(REN, 'Renderable')
    fn = m.find_method(Rend, 'cacheFilenames')
    need(fn is not None, 'Renderer.cacheFilenames not found')
    chk.analysed(fn)
    renderer, _ = fscene(m)
    renderer.cls = Rend
    doc = A.Obj('document', {'userdata': {}, 'config': {'files': {}}})

    def node(label, level, kids=()):
        o = A.Obj(label, {'level': level, 'nodeName': label, 'ownerDocument': doc, 'config': doc.attrs['config'], '__closed': True, 'childNodes': list(kids),
                          'id': label, '@hasgenid': None}, cls=Ren)
        return o
    tree = node('doc', -10, [node('ch1', 0, [node('s11', 1, [node('par', 10)]), node('s12', 1)]), node('ch2', 0, [node('s21', 1)])])
    try:
        outs = frun(m, fn, {'self': renderer, 'node': tree, 'Node.renderer': renderer}, max_iter=8)
        got = set()
        for kind, s, v in outs:
            got.add('%s: names issued for %s' % (kind, ' '.join(str(e[1]) for e in s.env.get('__renderlog', []) if e[0] == 'name')))
        chk.decide(R, 'cacheFilenames is a pre-order walk', got, {'return: names issued for doc ch1 s11 s12 ch2 s21'},
                   'on the tree doc[ch1[s11 s12] ch2[s21]]: %s; expected the order of the document' % sorted(got), chk.where(fn))
    except D.Imprecise as e:
        chk.undecided(R, 'cacheFilenames is a pre-order walk', str(e), chk.where(fn))
    from . import renderheap as RH
    rr, paths = RH.protocol_paths(m)
    chk.analysed(rr)
    if isinstance(paths, str):
        chk.undecided(R, 'render caches filenames before rendering', paths, chk.where(rr))
    else:
        chk.paths += len(paths)
        got = set()
        for kind, events, _left in paths:
            names = [i for i, e in enumerate(events) if e.startswith('names')]
            rend = [i for i, e in enumerate(events) if e.startswith('render')]
            order = 'names are never issued' if not names else ('nothing is rendered' if not rend else
                                                                 ('names before rendering' if max(names) < min(rend) else 'rendering before names'))
            got.add((kind, RH.event_states(events, 'names'), order))
        chk.decide(R, 'render caches filenames before rendering', got, {('return', ('[mixed,renderer]',), 'names before rendering')},
                   'Renderer.render interpreted on a document without imagers: (outcome, state when the names are issued, order) = %s; the '
                   'names of all nodes must be issued once, with the renderable mix-in and Node.renderer in place, before the document is rendered'
                   % sorted(got), chk.where(rr))


NONDET = re.compile(r'^(id|hash|random\.\w+|time\.\w+|os\.listdir|glob\.glob|uuid\.\w+|datetime\.\w+|set|os\.getpid|os\.urandom)$')


def r134(chk, m):
    R = chk.rule('R13.4', 'determinism: the name generator, Renderable.filename and cacheFilenames contain no source of run-to-run '
                 'variation (id(), hash(), set iteration, random, time, unsorted directory listings)', 3)
    fns = [m.func('plasTeX.Filenames', 'Filenames._newFilename'), m.func('plasTeX.Filenames', 'Filenames.parseFilenames'),
           m.func('plasTeX.Filenames', 'Filenames.addExtension'), m.func(REN, 'Renderable.filename'), m.func(REN, 'Renderer.cacheFilenames')]
    for fn in fns:
        chk.analysed(fn)
        hits = [text(c)[:40] for c in M.calls_in(fn.node) if NONDET.match(M.call_name(c))]
        hits += [text(n)[:40] for n in M.walk_no_nested(fn.node) if isinstance(n, (ast.Set, ast.SetComp))]
        chk.verdict(R, '%s is deterministic' % fn.qualname, not hits, '%s uses %s: file names would differ from run to run' % (fn.qualname, hits), chk.where(fn))
    # positive control
    fx = ast.parse('def f(x):\n    return "n%d" % id(x)\n')
    need(any(NONDET.match(M.call_name(c)) for c in ast.walk(fx) if isinstance(c, ast.Call)), 'determinism fixture did not match')


def r135(chk, m):
    from . import domheap as D
    R = chk.rule('R13.5', 'a filename template means "everything in one file" only when it names a single file (no blank: several names, '
                 'the last an implicit wildcard; no bracket: explicit wildcard) - Renderer.render interpreted up to the point where the '
                 'split level is fixed', 5)
    Rend = m.cls(REN, 'Renderer')
    fn = m.find_method(Rend, 'render')
    chk.analysed(fn)

    class H(D.DomHooks):
        def call(self, interp, node, fname, args, kwargs, state):
            if fname in ('mixin', 'Filenames') or fname.endswith('cacheFilenames'):
                me = state.env.get('self')
                state.env['__level'] = me.attrs.get('level', 'unset') if isinstance(me, A.Obj) else 'TOP'
                state.env['__exc'] = 'StopHere'
                return A.TOP
            if re.match(r'log\.\w+$', fname):
                return A.NONE
            if fname.endswith('.keys') and not args:
                return ['x']
            return D.DomHooks.call(self, interp, node, fname, args, kwargs, state)
    cases = [('index', 'one file'), ('  index  ', 'one file'), ('$id', 'one file'), ('index [$id, sect$num(4)]', 'split'), ('index sect$num(4)', 'split'),
             ('[$id, sect$num]', 'split'), ('a b', 'split')]
    for tpl, want in cases:
        doc = A.Obj('document', {'config': {'files': {'split-level': 2, 'filename': tpl, 'bad-chars': '', 'bad-chars-sub': ''}, 'images': {'imager': 'none', 'vector-imager': 'none'}},
                                 'userdata': {}})
        me = A.Obj('renderer', {'level': 'unset'}, cls=Rend)
        it = A.Interp(model=m, scope=fn, hooks=H(m, Rend), max_iter=4, exc_edges=False, inline=2, heap=True, precise_exc=True)
        it.h.should_inline = A.helpers_anywhere
        outs = it.run_function(fn, env={'self': me, 'document': doc, 'postProcess': None})
        key = 'filename template %r' % tpl
        if it.unknown_branches:
            chk.undecided(R, key, 'test not determined: %s' % it.unknown_branches[:2], chk.where(fn))
            continue
        got = set()
        for kind, s, v in outs:
            lvl = s.env.get('__level', 'not reached')
            got.add('one file' if lvl == -10 else ('split' if lvl == 2 else 'level %r' % (lvl,)))
        chk.decide(R, key, got, {want}, 'with the filename template %r the document is %s; expected %s - a template with several names still '
                   'has an implicit wildcard and must keep splitting' % (tpl, sorted(got), want), chk.where(fn))


def r136(chk, m):
    from . import domheap as D
    R = chk.rule('R13.6', 'footnotes are gathered by the nearest enclosing section that makes a file (interpreted on a heap of nested '
                 'sections): each footnote is listed exactly once, by that section, however deep it sits below it, and numbered in order', 3)
    fn = m.func('plasTeX.Base.LaTeX.Sectioning', 'SectionUtils.footnotes')
    chk.analysed(fn)
    SU = m.cls('plasTeX.Base.LaTeX.Sectioning', 'SectionUtils')

    def build():
        doc = A.Obj('document', {'userdata': {}})

        cfg = {'files': {'split-level': 2}}      # the configured level; which sections make a file is decided by the renderer

        def sec(label, parent, filename, level):
            return A.Obj(label, {'currentSection': parent, 'filename': filename, 'ownerDocument': doc, 'level': level, 'config': cfg}, cls=SU)
        C = sec('chapter', None, 'c.html', 0)
        S1 = sec('section1', C, None, 1)
        SS = sec('subsection', S1, None, 2)
        S2 = sec('section2', C, 's2.html', 1)

        def foot(label, where):
            return A.Obj(label, {'currentSection': where, 'mark': A.Obj('mark-' + label, {'attributes': {}})})
        fs = [foot('f1', C), foot('f2', S1), foot('f3', SS), foot('f4', S2), foot('f5', SS)]
        doc.attrs['userdata']['footnotes'] = fs
        return {'chapter': C, 'section1': S1, 'subsection': SS, 'section2': S2}
    for who, want in (('chapter', 'f1=1 f2=2 f3=3 f5=4'), ('section2', 'f4=1'), ('section1', ''), ('subsection', '')):
        secs = build()
        key = 'footnotes listed by %s' % who
        it = A.Interp(model=m, scope=fn, hooks=D.DomHooks(m, SU), max_iter=10, exc_edges=False, inline=4, heap=True, precise_exc=True)
        outs = it.run_function(fn, env={'self': secs[who]})
        if it.imprecise or it.unknown_branches:
            chk.undecided(R, key, '; '.join((it.imprecise + it.unknown_branches)[:3]), chk.where(fn))
            continue
        got = set()
        for kind, s, v in outs:
            if kind != 'return' or not isinstance(v, list):
                got.add('%s %r' % (kind, v))
            else:
                got.add(' '.join('%s=%s' % (f.label, f.attrs['mark'].attrs['attributes'].get('num')) if isinstance(f, A.Obj) else repr(f) for f in v))
        chk.decide(R, key, got, {want}, 'the %s (chapter c.html > section1 > subsection, section2 s2.html; footnotes f1 in the chapter, f2 in '
                   'section1, f3 f5 in the subsection, f4 in section2) lists %s; expected {%s} - a footnote nested deeper than one level '
                   'below its file would be listed nowhere' % (who, sorted(got), want), chk.where(fn))
