"""C13 - Rendering splits the document into files without losing or repeating content.

R13.1 exactly-once routing of every child rendering, R13.2 filename
memoisation, R13.3 names issued in document order before rendering,
R13.4 determinism, R13.5 single-file template detection, R13.6 footnotes are
gathered by the nearest file-producing section (same predicate as routing)."""
import ast
import re

from .. import absint as A
from .. import flow
from .. import model as M
from ..report import AnalysisError, need
from ..util import text

REN = 'plasTeX.Renderers'


def check(chk):
    m = chk.model
    r131(chk, m)
    r132(chk, m)
    r133(chk, m)
    r134(chk, m)
    r135(chk, m)
    r136(chk, m)
    from . import c15
    # the name generator is part of this property's mechanism: its freshness guard (uniqueness of output file names)
    c15.generator_rules(chk, m, rule_id='R13.7')
    chk.decline('the partition of body text over files for every split level and template (runtime)')


def r131(chk, m):
    R = chk.rule('R13.1', 'exactly-once routing: per child, its rendering is either written to the child\'s own file (and the loop goes '
                 'on) or appended to the parent\'s output - exactly one, the file branch taken iff child.filename; text and .str '
                 'children are appended once', 1)
    fn = m.func(REN, 'Renderable.__str__')
    chk.analysed(fn)
    loops = [n for n in M.walk_no_nested(fn.node) if isinstance(n, ast.For) and text(n.target) == 'child']
    need(len(loops) == 1, 'Renderable.__str__: child loop not found')
    loop = loops[0]
    child = A.Sym('CHILD', truthy=True, attrs={'distinct': True})

    class H(A.Hooks):
        def call(self, interp, node, fname, args, kwargs, state):
            if fname in ('func',) and args and args[0] is child:
                return A.Sym('VAL', truthy=True)
            if fname == 'type':
                return A.Sym('T')
            return None

        def decide(self, interp, test, state):
            t = text(test)
            if t == 'type(val) is not str':
                return False
            if t in ('directory and (not os.path.isdir(directory))', 'directory and not os.path.isdir(directory)'):
                return False
            return None

        def keep(self, ev):
            return ev[0] in ('call', 'assume', 'continue')
    it = A.Interp(model=m, scope=fn, hooks=H(), max_iter=1, exc_edges=False)
    outs = it.block(loop.body, [A.State({'child': child, 's': A.Sym('S'), 'r': A.Sym('R', truthy=True)})])
    bad = []
    n = 0
    for kind in ('fall', 'continue', 'break', 'return'):
        for s, v in outs.get(kind, []):
            n += 1
            ass = {e[1]: e[2] for e in s.trace if e[0] == 'assume'}
            writes = [e for e in s.trace if e[0] == 'call' and e[1] == 'f.write']
            apps = [e for e in s.trace if e[0] == 'call' and e[1] == 's.append']
            fn_true = ass.get('child.filename')
            is_text = ass.get('child.nodeType == Node.TEXT_NODE')
            if kind in ('break', 'return'):
                bad.append('the loop is left early')
                continue
            if is_text or ass.get('uni is not None'):
                if len(apps) != 1 or writes:
                    bad.append('a text/.str child is appended %d times, written %d times' % (len(apps), len(writes)))
                continue
            if len(writes) + len(apps) != 1:
                bad.append('rendering disposed of %d times (written %d, appended %d) with child.filename=%s'
                           % (len(writes) + len(apps), len(writes), len(apps), fn_true))
            elif bool(writes) != bool(fn_true):
                bad.append('child.filename=%s but the rendering is %s' % (fn_true, 'written to a file' if writes else 'appended to the parent'))
            elif writes and kind != 'continue':
                bad.append('after writing the file the rendering also flows on')
    chk.paths += n
    chk.verdict(R, 'Renderable.__str__ routes every child rendering exactly once', not bad and n >= 4,
                '; '.join(sorted(set(bad))), chk.where(fn, loop), '%d paths' % n)


def r132(chk, m):
    R = chk.rule('R13.2', 'filename memoisation: every name obtained from a generator is stored under r.files[self] on the same path '
                 'and the memo is consulted first', 2)
    fn = m.func(REN, 'Renderable.filename')
    chk.analysed(fn)
    gens = [c for c in M.calls_in(fn.node) if M.call_name(c) in ('newFilename', 'r.newFilename')]
    need(len(gens) >= 2, 'Renderable.filename: generator calls not found')
    ok = True
    for c in gens:
        st = [n for n in M.walk_no_nested(fn.node) if isinstance(n, ast.Assign) and any(x is c for x in ast.walk(n))]
        ok = ok and len(st) == 1 and any(text(t) == 'r.files[self]' for t in st[0].targets)
    chk.verdict(R, 'every issued name is memoised', ok,
                'a call of the filename generator whose result is not stored in r.files[self]: a second access would issue a second '
                'name, so links and files diverge', chk.where(fn))
    first = [s for s in fn.node.body if isinstance(s, ast.Try)]
    ok = bool(first) and text(first[0].body[0]) == 'return r.files[self]'
    chk.verdict(R, 'memo consulted first', ok, 'Renderable.filename must start by returning r.files[self] when present', chk.where(fn))


def r133(chk, m):
    R = chk.rule('R13.3', 'document order: cacheFilenames touches node.filename before recursing over childNodes in order, and render '
                 'calls it before rendering', 2)
    fn = m.func(REN, 'Renderer.cacheFilenames')
    chk.analysed(fn)
    body = [s for s in fn.node.body if not (isinstance(s, ast.Expr) and isinstance(s.value, ast.Constant))]
    ok = len(body) == 2 and isinstance(body[0], ast.Assign) and text(body[0].value) == 'node.filename' and isinstance(body[1], ast.For) \
        and text(body[1].iter) == 'node.childNodes' and [text(s) for s in body[1].body] == ['self.cacheFilenames(child)']
    chk.verdict(R, 'cacheFilenames is a pre-order walk', ok, 'cacheFilenames must name the node first and then its children in order: %s' % [text(s)[:50] for s in body], chk.where(fn))
    rr = m.func(REN, 'Renderer.render')

    def transfer(n, v):
        if isinstance(n, ast.Call) and M.call_name(n) == 'self.cacheFilenames':
            return 'cached'
        if isinstance(n, ast.Call) and M.call_name(n) == 'str' and n.args and text(n.args[0]) == 'document':
            return v + '|rendered'
        return v
    normal, raised = flow.function_exits(rr.node, 'none', transfer)
    chk.verdict(R, 'render caches filenames before rendering', normal == {'cached|rendered'}, 'render exits with %s' % sorted(normal), chk.where(rr))


NONDET = re.compile(r'^(id|hash|random\.\w+|time\.\w+|os\.listdir|glob\.glob|uuid\.\w+|datetime\.\w+|set|os\.getpid|os\.urandom)$')


def r134(chk, m):
    R = chk.rule('R13.4', 'determinism: the name generator, Renderable.filename and cacheFilenames contain no source of run-to-run '
                 'variation (id(), hash(), set iteration, random, time, unsorted directory listings)', 3)
    fns = [m.func('plasTeX.Filenames', 'Filenames._newFilename'), m.func('plasTeX.Filenames', 'Filenames.parseFilenames'),
           m.func('plasTeX.Filenames', 'Filenames.addExtension'), m.func(REN, 'Renderable.filename'), m.func(REN, 'Renderer.cacheFilenames')]
    for fn in fns:
        chk.analysed(fn)
        hits = [text(c)[:40] for c in M.calls_in(fn.node) if NONDET.match(M.call_name(c))]
        hits += [text(n)[:40] for n in M.walk_no_nested(fn.node) if isinstance(n, (ast.Set, ast.SetComp))]
        chk.verdict(R, '%s is deterministic' % fn.qualname, not hits, '%s uses %s: file names would differ from run to run' % (fn.qualname, hits), chk.where(fn))
    # positive control
    fx = ast.parse('def f(x):\n    return "n%d" % id(x)\n')
    need(any(NONDET.match(M.call_name(c)) for c in ast.walk(fx) if isinstance(c, ast.Call)), 'determinism fixture did not match')


def r135(chk, m):
    R = chk.rule('R13.5', 'a filename template means "everything in one file" only when it names a single file: no blank (several '
                 'names, the last being the implicit wildcard) and no bracket (explicit wildcard)', 1)
    fn = m.func(REN, 'Renderer.render')
    chk.analysed(fn)
    sets = [n for n in M.walk_no_nested(fn.node) if isinstance(n, ast.If) and any(isinstance(s, ast.Assign) and text(s.targets[0]) == 'self.level' for s in n.body)]
    need(len(sets) == 1, 'Renderer.render: single-file detection not found')
    t = sets[0].test
    conj = [text(v) for v in t.values] if isinstance(t, ast.BoolOp) and isinstance(t.op, ast.And) else [text(t)]
    ok = sorted(conj) == sorted(["' ' not in filenameTemplate", "'[' not in filenameTemplate"])
    val = [text(s.value) for s in sets[0].body if isinstance(s, ast.Assign)]
    chk.verdict(R, 'single-file detection', ok and val == ['-10'],
                'the split level is forced to %s under %s; a multi-name template without brackets still has an implicit wildcard and '
                'must keep splitting' % (val, conj), chk.where(fn, sets[0]))


def r136(chk, m):
    R = chk.rule('R13.6', 'footnotes are gathered by the nearest enclosing section that produces a file - found by climbing while the '
                 'section has no filename (the same predicate that routes renderings to files)', 1)
    fn = m.func('plasTeX.Base.LaTeX.Sectioning', 'SectionUtils.footnotes')
    chk.analysed(fn)
    loops = [n for n in M.walk_no_nested(fn.node) if isinstance(n, ast.While)]
    ok = len(loops) == 1 and text(loops[0].test).replace('(', '').replace(')', '') == 's is not None and not s.filename' and \
        [text(s) for s in loops[0].body] == ['s = s.currentSection']
    start = [text(n.value) for n in M.walk_no_nested(fn.node) if isinstance(n, ast.Assign) and text(n.targets[0]) == 's']
    own = [n for n in M.walk_no_nested(fn.node) if isinstance(n, ast.If) and text(n.test) == 's is self']
    ok = ok and sorted(start) == ['f.currentSection', 's.currentSection'] and len(own) == 1 and [text(s) for s in own[0].body] == ['output.append(f)']
    ifs_instead = [text(n.test) for n in M.walk_no_nested(fn.node) if isinstance(n, ast.If) and 'filename' in text(n.test)]
    chk.verdict(R, 'SectionUtils.footnotes climbs to the file-producing section', ok,
                'the owner of a footnote must be found by `while s is not None and not s.filename: s = s.currentSection` (found loops %s, '
                'single-step tests %s): a footnote nested deeper than one level below its file would be listed nowhere'
                % ([text(l.test) for l in loops], ifs_instead), chk.where(fn))
