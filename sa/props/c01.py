"""C01 - Tokenization follows TeX's lexical rules (DESIGN.md section 4, C01).

Decided statically: the category/class tables (R1.1), totality of
Context.whichCode / Context.catcode (R1.2), the N/M/S transition relation of
Tokenizer.__iter__ by conditional constant propagation over
(state x category code x next-character category) (R1.3), the ^^ reader
(R1.4) and "no ord()/chr() on a possibly empty read" (R1.5)."""
import ast
import re

from .. import absint as A
from .. import model as M
from ..report import AnalysisError, need
from ..util import SelfHooks, class_body_env, text

CC = ['ESCAPE', 'BGROUP', 'EGROUP', 'MATHSHIFT', 'ALIGNMENT', 'EOL',
      'PARAMETER', 'SUPER', 'SUB', 'IGNORED', 'SPACE', 'LETTER', 'OTHER',
      'ACTIVE', 'COMMENT', 'INVALID']
ESC, BG, EG, MS, AL, EOL, PAR, SUP, SUB, IGN, SP, LET, OTH, ACT, COM, INV = range(16)


def module_env(model, mod, names):
    """Abstractly execute the module-level statements that define `names`."""
    it = A.Interp(model=model, scope=mod, exc_edges=False)
    it.h.keep = lambda ev: False
    stmts = []
    for st in mod.tree.body:
        if isinstance(st, (ast.Assign, ast.AugAssign, ast.AnnAssign)):
            tgts = st.targets if isinstance(st, ast.Assign) else [st.target]
            roots = {text(t).split('[')[0].split('.')[0] for t in tgts}
            if roots & set(names):
                stmts.append(st)
    outs = it.block(stmts, [A.State()])
    return outs['fall'][0][0].env


def check(chk):
    m = chk.model
    tokmod = m.module('plasTeX.Tokenizer')
    Token = m.cls('plasTeX.Tokenizer', 'Token')
    Tokenizer = m.cls('plasTeX.Tokenizer', 'Tokenizer')
    Context = m.cls('plasTeX.Context', 'Context')
    r11(chk, m, Token, Tokenizer)
    r12(chk, m, tokmod, Context)
    r19(chk, m)
    from . import shared
    shared.category_sequence_rules(chk, m, 'R1.8')
    chk.decline('the concrete token stream of a concrete string (it is the '
                'transition relation applied character by character)')
    chk.decline(r'substitution of tokens through \let aliases (get_let)')


# ---------------------------------------------------------------------------
def r11(chk, m, Token, Tokenizer):
    R = chk.rule('R1.1', 'category constants are 0..15, every entry of '
                 'tokenClasses[k] is a class whose catcode folds to k', 16 + 9 + 2)
    chk.analysed(Token)
    chk.analysed(Tokenizer)
    env = class_body_env(m, Token)
    codes = {}
    for i, name in enumerate(CC):
        v = env.get('CC_' + name, None)
        chk.verdict(R, 'Token.CC_%s' % name, v == i,
                    'Token.CC_%s folds to %r, TeX category %d expected' % (name, v, i),
                    chk.where(Token), 'value %r' % (v,))
        codes[name] = v
    tenv = class_body_env(m, Tokenizer)
    table = tenv.get('tokenClasses')
    need(isinstance(table, list), 'Tokenizer.tokenClasses is not a foldable list')
    chk.verdict(R, 'Tokenizer.tokenClasses:length', len(table) == 16,
                'tokenClasses has %d entries, 16 expected' % len(table), chk.where(Tokenizer))
    n = 0
    for k, cls in enumerate(table):
        if cls is None:
            continue
        need(isinstance(cls, M.ClassInfo), 'tokenClasses[%d] is not a repository class' % k)
        cc = m.class_const(cls, 'catcode')
        n += 1
        chk.verdict(R, 'tokenClasses[%s] -> %s' % (CC[k], cls.name), cc == k,
                    'class %s registered for category %d (%s) carries catcode %r'
                    % (cls.name, k, CC[k], cc), chk.where(cls), 'catcode %r' % (cc,))
    for cname, want in (('Space', SP), ('EscapeSequence', ESC)):
        cc = m.class_const(m.cls('plasTeX.Tokenizer', cname), 'catcode')
        chk.verdict(R, '%s.catcode' % cname, cc == want,
                    '%s.catcode folds to %r, %d expected' % (cname, cc, want),
                    chk.where(m.cls('plasTeX.Tokenizer', cname)))
    # state constants distinct
    sts = [tenv.get('STATE_' + x) for x in 'NMS']
    chk.verdict(R, 'Tokenizer.STATE_N/M/S distinct', len(set(map(repr, sts))) == 3 and None not in sts,
                'tokenizer states are not three distinct constants: %r' % (sts,), chk.where(Tokenizer))


def r17(chk, m, Tokenizer):
    R = chk.rule('R1.7', 'the stream built for a string source does no newline translation: every character, including a '
                 'carriage return, reaches the category table as written', 1)
    fn = m.find_method(Tokenizer, '__init__')
    need(fn is not None, 'Tokenizer.__init__ not found')
    chk.analysed(fn)
    n = 0
    for c in M.calls_in(fn.node):
        if M.call_name(c).split('.')[-1] != 'StringIO':
            continue
        n += 1
        nl = [k.value for k in c.keywords if k.arg == 'newline'] + list(c.args[1:2])
        bad = [text(x) for x in nl if not (isinstance(x, ast.Constant) and x.value in ('', '\n'))]
        chk.verdict(R, 'Tokenizer.__init__ :: %s' % text(c), not bad,
                    'the string source is wrapped with newline=%s: universal-newline translation turns \\r and \\r\\n into \\n before '
                    'the tokenizer sees them, so a carriage return is never categorised by the live table' % bad, chk.where(fn, c))
    need(n >= 1, 'Tokenizer.__init__ no longer wraps string sources in StringIO')


# ---------------------------------------------------------------------------
class WhichHooks(SelfHooks):
    def __init__(self, model, cls, member):
        SelfHooks.__init__(self, model, cls)
        self.member = member   # category index the character belongs to, or None

    def lookup(self, interp, name, state):
        if name == 'self.categories':
            return [A.Sym('cat%d' % i) for i in range(16)]
        return SelfHooks.lookup(self, interp, name, state)

    def decide(self, interp, test, state):
        if isinstance(test, ast.Compare) and len(test.ops) == 1 and isinstance(test.ops[0], (ast.In, ast.NotIn)):
            v = interp.ev(test.comparators[0], state)
            if isinstance(v, A.Sym) and v.label.startswith('cat'):
                r = int(v.label[3:]) == self.member
                return r if isinstance(test.ops[0], ast.In) else not r
        return None


def r12(chk, m, tokmod, Context):
    R = chk.rule('R1.2', 'Context.whichCode is the total inverse of the category '
                 'table; DEFAULT/VERBATIM tables well-formed; Context.catcode '
                 'removes from all 16 classes and inserts unless code is OTHER', 17 + 4 + 16)
    fn = m.func('plasTeX.Context', 'Context.whichCode')
    chk.analysed(fn)
    for k in list(range(16)) + [None]:
        # a table in which the character is a member of class k only (every class holds another character of its own)
        table = ['%s%s' % ('pqrstuvwABCDEFGH'[i], 'x' if i == k else '') for i in range(16)]
        it = A.Interp(model=m, scope=fn, hooks=A.Hooks(), exc_edges=False, heap=True, precise_exc=True, inline=4, max_iter=20)
        it.h.keep = lambda ev: False
        outs = it.run_function(fn, env={'self': A.Obj('context', {'categories': table}, cls=Context), 'char': 'x'})
        chk.paths += len(outs)
        want = k if k is not None else OTH
        key = 'whichCode(char in class %s)' % (CC[k] if k is not None else '<none>')
        if it.imprecise or it.unknown_branches:
            chk.undecided(R, key, '; '.join(sorted(set(list(it.imprecise) + list(it.unknown_branches)))[:3]), chk.where(fn))
            continue
        rets = {(kind, repr(v)) for kind, s, v in outs}
        chk.decide(R, key, rets, {('return', repr(want))},
                   'a character that is only in category class %s is reported as %s (expected %d)'
                   % (CC[k] if k is not None else 'none', sorted(rets), want), chk.where(fn), 'returns %s' % sorted(rets))
    # the tables as the Tokenizer module sees them (defined there or imported from wherever they live)
    it0 = A.Interp(model=m, scope=tokmod, exc_edges=False, heap=True)
    d, v = (it0.ev(ast.Name(id=nm, ctx=ast.Load()), A.State({})) for nm in ('DEFAULT_CATEGORIES', 'VERBATIM_CATEGORIES'))
    need(isinstance(d, list) and isinstance(v, list), 'category tables do not fold')
    ok = len(d) == 16 and d[OTH] == '' and all(isinstance(x, str) for x in d)
    chars = [c for i, x in enumerate(d) if not isinstance(x, M._StringLetters) for c in x]
    chk.verdict(R, 'DEFAULT_CATEGORIES shape', ok and len(chars) == len(set(chars))
                and not any(c.isalpha() for c in chars) and isinstance(d[LET], M._StringLetters),
                'DEFAULT_CATEGORIES is not a partition (16 entries, pairwise disjoint, OTHER empty, LETTER = letters): %r' % (d,),
                chk.where(tokmod))
    want = {ESC: '\\', BG: '{', EG: '}', MS: '$', AL: '&', EOL: '\n', PAR: '#', SUP: '^', SUB: '_',
            IGN: '\x00', SP: ' \t\r\x0c', OTH: '', ACT: '~', COM: '%', INV: ''}
    bad = [CC[i] for i, w in want.items() if len(d) == 16 and (set(d[i]) != set(w) if i != SP else not set(' \t') <= set(d[i]) or set(d[i]) - set(' \t\r\x0c'))]
    chk.verdict(R, 'DEFAULT_CATEGORIES = plain TeX/LaTeX defaults', not bad,
                'default category table differs from TeX for %s' % bad, chk.where(tokmod))
    chk.verdict(R, 'VERBATIM_CATEGORIES shape',
                len(v) == 16 and all(x == '' for i, x in enumerate(v) if i != LET) and isinstance(v[LET], M._StringLetters),
                'VERBATIM_CATEGORIES must be empty everywhere except LETTER: %r' % (v,), chk.where(tokmod))
    # setVerbatimCatcodes / Context.catcode: decided on a small heap (shared with C04)
    from . import c04
    sv = m.func('plasTeX.Context', 'Context.setVerbatimCatcodes')
    chk.analysed(sv)
    res = c04.verbatim_tables(m)
    need(res, 'setVerbatimCatcodes has no normal exit')
    got = {('the verbatim table' if (cur is not None and orig is not None and tuple(cur) == tuple(orig)) else
            ('not determined (TOP)' if cur is None else 'another table')) for cur, orig in res}
    chk.decide(R, 'setVerbatimCatcodes uses VERBATIM_CATEGORIES', got, {'the verbatim table'},
               'after setVerbatimCatcodes the table in force is %s; expected the contents of VERBATIM_CATEGORIES' % sorted(got), chk.where(sv))
    cc = m.func('plasTeX.Context', 'Context.catcode')
    chk.analysed(cc)
    base = [t + ('x' if i in (0, 3, 11, 15) else '') for i, t in enumerate(c04.TABLE)]
    for code in range(16):
        tables = c04.catcode_tables(m, code)
        chk.paths += len(tables)
        want = tuple(t.replace('x', '') + ('x' if (i == code and code != OTH) else '') for i, t in enumerate(base))
        got = {('TOP' if t is None else ('as TeX' if t == want else 'x in classes %s' % [i for i, e in enumerate(t) if 'x' in e])) for t in tables}
        chk.decide(R, 'catcode(char, %s)' % CC[code], got, {'as TeX'},
                   'Context.catcode(x, %d) on a table that has x in classes 0, 3, 11 and 15 leaves %s; expected x only in class %d%s and every other '
                   'character untouched' % (code, sorted(got), code, ' (nowhere: OTHER is the absence of a class)' if code == OTH else ''),
                   chk.where(cc))
    c04.r42(chk, m, rule_id='R1.6')


# ---------------------------------------------------------------------------
LETTER, EOLC, OTHERC, SPACEC = 'letter', 'eol', 'other', 'space'


class TokHooks(SelfHooks):
    """Binds the selectors of one cell of the transition table."""

    def __init__(self, model, cls, body_env, code, nexts):
        SelfHooks.__init__(self, model, cls, body_env)
        self.code = code
        self.nexts = nexts          # categories of the following characters
        self.outer_while = None

    def _scripted(self, state):
        pos = state.env.get('__pos', 0)
        if pos >= len(self.nexts):
            return None
        state.env['__pos'] = pos + 1
        cat = self.nexts[pos]
        code = {LETTER: LET, EOLC: EOL, OTHERC: OTH, SPACEC: SP}[cat]
        return (code, A.Sym('next%d' % pos, attrs={'distinct': True, 'letter': None}))

    def call(self, interp, node, fname, args, kwargs, state):
        if fname == 'next' and len(args) in (1, 2):
            site = node.lineno
            if '__site' not in state.env:
                # the draw of the main loop: the character of this cell
                state.env['__site'] = site
                if self.code is None:           # end of input
                    if len(args) == 2:
                        return A.NONE if args[1] is None else args[1]
                    state.env['__exc'] = 'StopIteration'
                    return A.TOP
                return (self.code, A.Sym('char', attrs={'distinct': True}))
            if site == state.env['__site']:
                # the main loop draws again: the cell ends here
                state.flags = state.flags + (('second-draw',),)
                return (A.TOP, A.TOP)
            item = self._scripted(state)        # look-ahead of a control sequence
            if item is not None:
                return item
            if len(args) == 2:
                return A.NONE if args[1] is None else args[1]
            state.env['__exc'] = 'StopIteration'
            return A.TOP
        if fname.endswith('context.get_let') and len(args) == 1:
            return args[0]          # identity summary: no \let alias in force
        return None

    def decide(self, interp, test, state):
        # the token push-back buffer is empty in every cell
        v = interp.ev(test, state) if isinstance(test, ast.Name) else None
        if isinstance(v, A.Sym) and v.label == 'tokbuffer':
            return False
        return None

    def lookup(self, interp, name, state):
        if name == 'self._tokBuffer':
            return A.Sym('tokbuffer')
        if name == 'self.iterchars':
            return A.Sym('iterchars')
        return SelfHooks.lookup(self, interp, name, state)

    def iter_item(self, interp, loop, k, state):
        itv = interp.ev(loop.iter, state)
        if not (isinstance(itv, A.Sym) or itv is A.TOP):
            return None
        if '__site' not in state.env:
            # a main loop written as `for code, char in <reader>`
            state.env['__site'] = loop.lineno
            if self.code is None:
                return A.STOP
            return (self.code, A.Sym('char', attrs={'distinct': True}))
        if loop.lineno == state.env['__site']:
            state.flags = state.flags + (('second-draw',),)
            return A.STOP
        item = self._scripted(state)
        return item if item is not None else A.STOP

    def keep(self, ev):
        return ev[0] in ('yield', 'continue', 'return', 'call', 'assume')


PRIMITIVES = {'readline', 'pushChar', 'pushToken', 'pushTokens', 'iterchars', 'read', 'seek', 'tell', '__iter__'}


def run_cell(m, fn, cls, body_env, consts, state_name, code, nexts):
    hooks = TokHooks(m, cls, body_env, code, nexts)
    # private helpers of the tokenizer are interpreted in place; the reader primitives are the interface of the cell model
    hooks.should_inline = lambda fname, node, info: getattr(node, 'name', '') not in PRIMITIVES
    it = A.Interp(model=m, scope=fn, hooks=hooks, max_iter=1, exc_edges=False, precise_exc=True, inline=2)
    env = {'self.state': consts['STATE_' + state_name]}
    outs = it.run_function(fn, env=env)
    res = set()
    detail = []
    for kind, s, v in outs:
        tr = s.trace
        ys = [e for e in tr if e[0] == 'yield']
        pushed = [e for e in tr if e[0] == 'call' and e[1] in ('pushChar', 'self.pushChar')]
        readline = any(e[0] == 'call' and e[1].endswith('readline') for e in tr)
        readline = any(e[0] == 'call' and e[1].endswith('readline') for e in tr)
        st = s.env.get('self.state', A.TOP)
        stn = {repr(consts['STATE_' + x]): x for x in 'NMS'}.get(repr(st), '?')
        toks = []
        for y in ys:
            val = y[1]
            if isinstance(val, A.Inst):
                arg = val.args[0] if val.args else ''
                if isinstance(arg, A.Sym):
                    arg = '<%s>' % arg.label
                elif arg is A.TOP or not isinstance(arg, str):
                    arg = '<word>'
                toks.append((val.cls.name, arg))
            else:
                toks.append(('?', repr(val)))
        assumed = tuple(e[1:] for e in tr if e[0] == 'assume')
        consumed = s.env.get('__pos', 0) - len(pushed)
        res.add((tuple(toks), stn, readline, consumed))
        detail.append((tuple(toks), stn, readline, consumed, assumed))
    return res, detail


def r13(chk, m, Token, Tokenizer):
    fn = m.func('plasTeX.Tokenizer', 'Tokenizer.__iter__')
    chk.analysed(fn)
    body_env = class_body_env(m, Tokenizer)
    consts = {k: body_env.get(k) for k in ('STATE_N', 'STATE_M', 'STATE_S')}
    table = body_env['tokenClasses']
    R = chk.rule('R1.3', 'N/M/S transition relation of Tokenizer.__iter__ equals '
                 'the TeXbook ch.8 table, cell by cell (state x category x next-character category)',
                 3 * 14 + 3 * 6)
    simple = {BG: 'BeginGroup', EG: 'EndGroup', MS: 'MathShift', AL: 'Alignment', PAR: 'Parameter',
              SUP: 'Superscript', SUB: 'Subscript', LET: 'Letter', OTH: 'Other'}
    for stn in 'NMS':
        for code in range(16):
            if code in (IGN, INV, ESC):
                continue       # filtered by the character reader (R1.4) / below
            if code in simple:
                want = {(((simple[code], '<char>'),), 'M', False, 0)}
            elif code == ACT:
                want = {((('EscapeSequence', '<word>'),), 'M', False, 0)}
            elif code == SP:
                want = {((('Space', ' '),), 'S', False, 0)} if stn == 'M' else {((), stn, False, 0)}
            elif code == EOL:
                want = {'N': {((('EscapeSequence', 'par'),), 'N', False, 0), ((), 'N', False, 0)},
                        'M': {((('Space', ' '),), 'N', False, 0)},
                        'S': {((), 'N', False, 0)}}[stn]
            elif code == COM:
                want = {((), 'N', True, 0)}
            got, detail = run_cell(m, fn, Tokenizer, body_env, consts, stn, code, [])
            chk.paths += len(detail)
            if code == EOL and stn == 'N':
                # a non-newline end-of-line character additionally discards the
                # rest of the line (readline); tolerated, not part of the property
                got = {(t, s, False, c) for (t, s, rl, c) in got}
                # the paragraph may be suppressed only as a repeat of the previous one
                ok = got <= want and ((('EscapeSequence', 'par'),), 'N', False, 0) in got
            else:
                ok = got == want
            cell_verdict(chk, R, 'cell(state=%s, code=%s)' % (stn, CC[code]), ok, got,
                         'state %s, category %s: abstract outcomes %s, TeX prescribes %s'
                         % (stn, CC[code], _fmt(got), _fmt(want)), chk.where(fn))
    # escape cells: next characters
    scen = [
        ('letter,other', [LETTER, OTHERC], {((('EscapeSequence', '<word>'),), 'S', False, 1)}),
        ('letter,letter,other', [LETTER, LETTER, OTHERC], {((('EscapeSequence', '<word>'),), 'S', False, 2)}),
        ('letter,<end of input>', [LETTER], {((('EscapeSequence', '<word>'),), 'S', False, 1)}),
        ('other', [OTHERC], {((('EscapeSequence', '<next0>'),), 'M', False, 1)}),
        ('space', [SPACEC], {((('EscapeSequence', '<next0>'),), 'M', False, 1), ((('EscapeSequence', '<next0>'),), 'S', False, 1)}),
        ('<end of input>', [], {((('EscapeSequence', ''),), 'M', False, 0)}),
    ]
    for stn in 'NMS':
        for name, nexts, want in scen:
            got, detail = run_cell(m, fn, Tokenizer, body_env, consts, stn, ESC, nexts)
            chk.paths += len(detail)
            if name == 'space':
                ok = bool(got) and got <= want
            else:
                ok = got == want
            extra = ''
            if not ok:
                conds = sorted({a for d in detail for a in d[4]})
                extra = '; outcome depends on: %s' % ', '.join('%s=%s' % c for c in conds[:4])
            cell_verdict(chk, R, 'cell(state=%s, code=ESCAPE, next=%s)' % (stn, name), ok, got,
                         'state %s, escape followed by %s: abstract outcomes %s, TeX prescribes %s '
                         '(control word: skip blanks, state S, decided by the CATEGORY of the characters read; '
                         'control symbol: state M)%s' % (stn, name, _fmt(got), _fmt(want), extra),
                         chk.where(fn))
    # escape followed by end-of-line: exactly one token (control space or space -
    # the property does not fix which); the line ends there, so the next line
    # starts in state N (blanks skipped, an empty line is a paragraph)
    for stn in 'NMS':
        got, detail = run_cell(m, fn, Tokenizer, body_env, consts, stn, ESC, [EOLC])
        ok = len(got) == 1 and all(len(t) == 1 and c == 1 and s == 'N' for (t, s, rl, c) in got)
        cell_verdict(chk, R, 'cell(state=%s, code=ESCAPE, next=eol)' % stn, ok, got,
                     'escape followed by end-of-line must give exactly one token and leave state N (new line: '
                     'blanks at the line start skipped, blank line = paragraph): %s' % _fmt(got),
                     chk.where(fn))
    # end of input terminates the generator
    got, detail = run_cell(m, fn, Tokenizer, body_env, consts, 'N', None, [])
    cell_verdict(chk, R, 'end of input ends the token stream', got == {((), 'N', False, 0)}, got,
                 'when the character reader is exhausted Tokenizer.__iter__ must end without a token: %s' % _fmt(got), chk.where(fn))


def cell_verdict(chk, R, key, ok, got, msg, where):
    """holds / FAILS when every abstract outcome is definite; undecided when an outcome has an unknown token or state."""
    if ok:
        chk.ok(R, key, _fmt(got))
    elif not got or any(st == '?' or any(t[0] == '?' for t in toks) for toks, st, rl, c in got):
        chk.undecided(R, key, 'outcome not determined by the abstract interpretation; ' + msg, where)
    else:
        chk.fail(R, key, msg, where)


def _fmt(cells):
    out = []
    for toks, st, rl, consumed in sorted(cells, key=repr):
        out.append('[%s]->%s%s%s' % (','.join('%s(%s)' % t for t in toks), st,
                                   '+skipline' if rl else '', ' consumed=%d' % consumed if consumed else ''))
    return '{' + ' | '.join(out) + '}'


# ---------------------------------------------------------------------------
class ReadInterp(A.Interp):
    """ord(<raw read>) is tracked symbolically so that the ^^X arithmetic can be read off."""

    def ev_BinOp(self, n, s):
        a, b = self.ev(n.left, s), self.ev(n.right, s)
        if isinstance(a, A.Sym) and a.label == 'ORD' and isinstance(b, int) and isinstance(n.op, (ast.Add, ast.Sub, ast.BitXor)):
            return A.Sym('ORD%s%d' % ({ast.Add: '+', ast.Sub: '-', ast.BitXor: '^'}[type(n.op)], b))
        return A.Interp.ev_BinOp(self, n, s)

    def ev_IfExp(self, n, s):
        forced = self.h.decide(self, n.test, s)
        if forced is not None:
            return self.ev(n.body if forced else n.orelse, s)
        return A.Interp.ev_IfExp(self, n, s)


class ReadHooks(SelfHooks):
    """Character reader.  Roles are recognised by what a name aliases (canonical callee names), not by
    how locals are spelled: raw reads are self.read(1) and self._charBuffer.pop(0); the category
    lookup is self.context.whichCode."""

    def __init__(self, model, cls, reads=None, codes=None, high=None):
        SelfHooks.__init__(self, model, cls)
        self.bad = []
        self.reads = reads          # labels for successive raw reads (same label = same character)
        self.codes = codes          # category codes answered by successive whichCode calls
        self.high = high            # selector for "ord(c) >= 64"
        self.raw_reads = True

    def lookup(self, interp, name, state):
        if name == 'self._charBuffer':
            return A.Sym('charbuffer', attrs={'path': 'self._charBuffer'})   # truthiness unknown: both the buffer and the source are read
        if name in ('self.read', 'self.context.whichCode'):
            return A.Sym(name)
        return SelfHooks.lookup(self, interp, name, state)

    def call(self, interp, node, fname, args, kwargs, state):
        if self.raw_reads and fname in ('self.read', 'self._charBuffer.pop', 'self.source.read'):
            k = state.env.get('__reads', 0)
            state.env['__reads'] = k + 1
            lab = self.reads[k] if self.reads and k < len(self.reads) else 'read%d@%d' % (k, node.lineno)
            # without a script nothing is known about the character (it may be the empty string at end of input)
            return A.Sym(lab, truthy=True if self.reads else None, attrs={'raw': True, 'distinct': bool(self.reads)})
        if fname in ('ord', 'chr') and len(args) == 1:
            a = args[0]
            if isinstance(a, A.Sym) and a.attrs.get('raw') and a.truthy is not True:
                self.bad.append((fname, text(node), node.lineno))
            if fname == 'ord' and isinstance(a, A.Sym):
                return A.Sym('ORD')
            if fname == 'chr' and isinstance(a, A.Sym):
                state.env['__chr'] = state.env.get('__chr', ()) + (a.label,)
                return A.Sym('CHR(%s)' % a.label, truthy=True, attrs={'distinct': True})
            return None
        if fname == 'self.context.whichCode' and len(args) == 1:
            k = state.env.get('__codes', 0)
            state.env['__codes'] = k + 1
            if self.codes is not None and k < len(self.codes):
                return self.codes[k]
            return A.TOP
        return None

    def decide(self, interp, test, state):
        if self.high is not None and isinstance(test, ast.Compare) and len(test.ops) == 1:
            l = interp.ev(test.left, state)
            r = interp.ev(test.comparators[0], state)
            if isinstance(l, A.Sym) and l.label == 'ORD' and isinstance(r, int):
                op = type(test.ops[0])
                if (op, r) in ((ast.GtE, 64), (ast.Gt, 63)):
                    return self.high
                if (op, r) in ((ast.Lt, 64), (ast.LtE, 63)):
                    return not self.high
                raise AnalysisError('^^ decoding compares the character code with %s %d: unexpected threshold' % (op.__name__, r))
        return None


def r14_r15(chk, m, Tokenizer):
    R5 = chk.rule('R1.5', 'no ord()/chr() on the result of a raw read that may be empty '
                  '(end of input) - tokenizing terminates without raising', 3)
    n_calls = 0
    for fn in sorted(Tokenizer.methods.values(), key=lambda f: f.name):
        uses = [c for c in ast.walk(fn.node) if isinstance(c, ast.Call) and M.call_name(c) in ('ord', 'chr')]
        if not uses:
            continue
        chk.analysed(fn)
        hooks = ReadHooks(m, Tokenizer)
        if fn.name == '__iter__':
            hooks.raw_reads = False     # characters come from iterchars (already filtered, never empty)
        it = ReadInterp(model=m, scope=fn, hooks=hooks, max_iter=2, exc_edges=False, inline=2)
        outs = it.run_function(fn)
        chk.paths += len(outs)
        bad = sorted(set(hooks.bad))
        for c in uses:
            n_calls += 1
            hit = [b for b in bad if b[2] == c.lineno]
            chk.verdict(R5, '%s :: %s' % (fn.qualname, M.call_name(c)), not hit,
                        '%s is applied to a character read that can be empty at end of input '
                        '(no emptiness test dominates it): raises TypeError, e.g. for input ending in ^^'
                        % text(c), chk.where(fn, c), 'dominated by an emptiness test')
    chk.call_sites += n_calls

    R4 = chk.rule('R1.4', 'character reader: IGNORED/INVALID never yielded; ^^ only when the next '
                  'character repeats the first; decoded code is c-64 for c>=64 else c+64', 5)
    fn = m.func('plasTeX.Tokenizer', 'Tokenizer.iterchars')

    def run(reads, codes, high=None):
        hooks = ReadHooks(m, Tokenizer, reads=reads, codes=codes, high=high)
        hooks.keep = lambda ev: ev[0] in ('yield', 'continue', 'call')
        it = ReadInterp(model=m, scope=fn, hooks=hooks, max_iter=1, exc_edges=False, inline=2)
        outs = it.run_function(fn)
        chk.paths += len(outs)
        return outs

    def yields(s):
        out = []
        for e in s.trace:
            if e[0] == 'yield':
                v = e[1]
                if isinstance(v, tuple) and len(v) == 2:
                    out.append((v[0], v[1].label if isinstance(v[1], A.Sym) else repr(v[1])))
                else:
                    out.append(('?', repr(v)))
        return out

    # (a) one character of each category: yielded once unless IGNORED/INVALID
    for code in range(16):
        if code == SUP:
            continue
        outs = run(['c0'], [code])
        got = {tuple(yields(s)) for kind, s, v in outs if s.env.get('__codes', 0) >= 1}
        want = {()} if code in (IGN, INV) else {((code, 'c0'),)}
        chk.verdict(R4, 'iterchars(code=%s)' % CC[code], got == want,
                    'a character of category %s is yielded as %s by the character reader (expected %s)'
                    % (CC[code], sorted(got, key=repr), sorted(want, key=repr)), chk.where(fn), str(sorted(got, key=repr)))
    # (b) superscript followed by a different character: pushed back, superscript yielded
    outs = run(['c0', 'c1'], [SUP])
    res = set()
    for kind, s, v in outs:
        if s.env.get('__codes', 0) < 1:
            continue
        pushes = [e[2] for e in s.trace if e[0] == 'call' and e[1] == 'self.pushChar']
        res.add((tuple(yields(s)), tuple(p[0].label if p and isinstance(p[0], A.Sym) else repr(p) for p in pushes), s.env.get('__chr', ())))
    chk.verdict(R4, 'iterchars ^x: look-ahead character pushed back, superscript yielded', res == {(((SUP, 'c0'),), ('c1',), ())},
                'a superscript character followed by a different character must be yielded as such and the look-ahead character '
                'pushed back once; found (yields, pushed back, decoded) = %s' % sorted(res, key=repr), chk.where(fn), str(sorted(res, key=repr)))
    # (c) ^^X: decoded with c-64 / c+64 and the category of the decoded character looked up again
    for high, want_arg in ((True, 'ORD-64'), (False, 'ORD+64')):
        outs = run(['c0', 'c0', 'c2'], [SUP, LET], high=high)
        res = set()
        for kind, s, v in outs:
            if s.env.get('__codes', 0) < 1:
                continue
            pushes = [e for e in s.trace if e[0] == 'call' and e[1] == 'self.pushChar']
            res.add((tuple(yields(s)), len(pushes), s.env.get('__chr', ())))
        ok = res in ({(((LET, 'CHR(%s)' % want_arg),), 0, (want_arg,))}, {(((LET, 'CHR(ORD^64)'),), 0, ('ORD^64',))})
        chk.verdict(R4, 'iterchars ^^X: decoded character code (code %s 64)' % ('>=' if high else '<'), ok,
                    'for ^^X with a character code %s 64 the reader yields %s; expected one decoded character chr(c%s64) '
                    'with its own category looked up again' % ('>=' if high else '<', sorted(res, key=repr), '-' if high else '+'), chk.where(fn), str(sorted(res, key=repr)))
    # (d) ^^ decoding only when the second character repeats the first: covered by (b) [no decoding] and (c)

# ---------------------------------------------------------------------------
# token streams of short inputs: the tokenizer interpreted as written (constructor, character reader, state machine,
# push-back buffers) on a scripted source and a real category table, compared with a reference lexer
# ---------------------------------------------------------------------------
LEX_TABLE = ['\\', '{', '}', '$', '&', '\n', '#', '^', '_', '\x00', ' \t', 'abcxyzAB', '', '~', '%', '\x7f']
TOKCLASS = {BG: 'BeginGroup', EG: 'EndGroup', MS: 'MathShift', AL: 'Alignment', PAR: 'Parameter', SUP: 'Superscript', SUB: 'Subscript',
            LET: 'Letter', OTH: 'Other'}


def ref_code(table, ch):
    for code in (LET, SP, EOL, BG, EG, ESC, SUP, SUB, MS, AL, COM, ACT, PAR, IGN, INV):
        if ch in table[code]:
            return code
    return OTH


def ref_tokens(text_, table, changes=None):
    """The token list TeX's lexical rules give for `text_` under the category table `table` (a list of 16 strings).
    `changes` maps a number of tokens produced so far to a new table installed before the next token is asked for.
    Conventions of the property as worded: a control sequence at the very end of the input has an empty name; an escape character
    right before the end of a line gives one space token and the next line starts in state N; a blank line gives one \\par."""
    table = list(table)
    src = list(text_)
    buf = []
    out = []
    state = 'N'
    prev = None

    def raw():
        if buf:
            return buf.pop(0)
        return src.pop(0) if src else ''

    def readline():
        while src:
            if src.pop(0) == '\n':
                break

    def chars():
        while True:
            ch = raw()
            if not ch:
                return
            code = ref_code(table, ch)
            if code == SUP:
                nxt = raw()
                if nxt != ch:
                    if nxt:
                        buf.insert(0, nxt)
                else:
                    n2 = raw()
                    if not n2:
                        buf.insert(0, ch)
                    else:
                        num = ord(n2)
                        ch = chr(num - 64) if num >= 64 else chr(num + 64)
                        code = ref_code(table, ch)
            if code in (IGN, INV):
                continue
            yield code, ch
    it = chars()
    while True:
        if changes and len(out) in changes:
            table[:] = changes.pop(len(out))
        try:
            code, ch = next(it)
        except StopIteration:
            break
        if code in (LET, OTH):
            state = 'M'
            tok = (TOKCLASS[code], ch)
        elif code == SP:
            if state in 'SN':
                continue
            state = 'S'
            tok = ('Space', ' ')
        elif code == EOL:
            if state == 'S':
                state = 'N'
                continue
            if state == 'M':
                state = 'N'
                tok = ('Space', ' ')
            else:
                tok = ('EscapeSequence', 'par')
                if prev == tok:
                    continue
        elif code == ESC:
            state = 'M'
            try:
                c2, ch2 = next(it)
            except StopIteration:
                tok = ('EscapeSequence', '')
            else:
                if c2 == LET:
                    word = [ch2]
                    for c3, ch3 in it:
                        if c3 == LET:
                            word.append(ch3)
                        else:
                            buf.insert(0, ch3)
                            break
                    tok = ('EscapeSequence', ''.join(word))
                    state = 'S'
                elif c2 == EOL:
                    tok = ('Space', ' ')
                    state = 'N'
                else:
                    tok = ('EscapeSequence', ch2)
        elif code == COM:
            readline()
            state = 'N'
            continue
        elif code == ACT:
            tok = ('EscapeSequence', 'active::%s' % ch)
            state = 'M'
        else:
            tok = (TOKCLASS[code], ch)
            state = 'M'
        prev = tok
        out.append(tok)
    return out


class LexHooks(A.Hooks):
    """The scripted source (StringIO / read / readline), token objects as strings with a category, no \\let aliases."""
    def __init__(self, model, cls):
        self.model, self.cls = model, cls
        self.Token = model.cls('plasTeX.Tokenizer', 'Token')

    def keep(self, ev):
        return False

    def call(self, interp, node, fname, args, kwargs, state):
        import io
        base = fname.split('.')[-1]
        if base in ('StringIO',) and len(args) <= 2 and all(isinstance(a, str) or a is None for a in args) \
           and all(isinstance(v, str) or v is None for v in kwargs.values()) and set(kwargs) <= {'newline', 'initial_value'}:
            try:
                text_ = io.StringIO(*args, **kwargs).read()
            except Exception:
                return None
            state.env['__src'] = [text_, 0]
            return A.Obj('source', {'read': A.Sym('extfunc:source.read', truthy=True), 'readline': A.Sym('extfunc:source.readline', truthy=True),
                                    'seek': A.Sym('extfunc:source.seek', truthy=True), 'tell': A.Sym('extfunc:source.tell', truthy=True),
                                    'name': '<string>'})
        if fname in ('source.read', 'source.readline', 'source.tell') and isinstance(state.env.get('__src'), list):
            text_, pos = state.env['__src']
            if fname == 'source.tell':
                return pos
            if fname == 'source.read':
                n = args[0] if args and isinstance(args[0], int) and args[0] >= 0 else len(text_)
                state.env['__src'] = [text_, min(len(text_), pos + n)]
                return text_[pos:pos + n]
            end = text_.find('\n', pos)
            end = len(text_) if end < 0 else end + 1
            state.env['__src'] = [text_, end]
            return text_[pos:end]
        if base == 'get_let' and len(args) == 1:
            return args[0]
        if isinstance(node.func, (ast.Name, ast.Subscript, ast.Attribute)) and fname not in ('source.read', 'source.readline'):
            try:
                fv = interp.ev(node.func, state) if not isinstance(node.func, ast.Attribute) or isinstance(node.func.value, (ast.Name, ast.Attribute)) else None
            except AnalysisError:
                fv = None
            if isinstance(fv, M.ClassInfo) and self.model.is_subclass(fv, self.Token) and len(args) <= 1 and not kwargs:
                txt = args[0] if args else ''
                if not isinstance(txt, str):
                    return None
                cc = self.model.class_const(fv, 'catcode')
                return A.TextObj(str(txt), label=fv.name, catcode=cc, nodeType=3, __eqkey=('tok', cc, str(txt)))
        return None


def lex_run(m, text_, table, changes=None, limit=40):
    """Interpret Tokenizer(text_, context) and take its tokens one by one.  (tokens, problem or None)."""
    Tokenizer = m.cls('plasTeX.Tokenizer', 'Tokenizer')
    Context = m.cls('plasTeX.Context', 'Context')
    init = m.find_method(Tokenizer, '__init__')
    itf = m.find_method(Tokenizer, '__iter__')
    need(init is not None and itf is not None, 'Tokenizer.__init__ / __iter__ not found')
    h = LexHooks(m, Tokenizer)
    it = A.Interp(model=m, scope=init, hooks=h, max_iter=60, exc_edges=False, inline=8, heap=True, precise_exc=True, max_states=40000)
    it.run_init = True
    tk = A.Obj('tokenizer', {}, cls=Tokenizer)
    ctx = A.Obj('context', {'categories': list(table)}, cls=Context)
    outs = it.run_function(init, env={'self': tk, 'source': text_, 'context': ctx, '__tk': tk, '__ctx': ctx})
    if len(outs) != 1 or outs[0][0] not in ('return', 'fall'):
        return None, 'the constructor has outcomes %s' % sorted((k, repr(v)) for k, s, v in outs)
    st = outs[0][1]
    st.env = {k: v for k, v in st.env.items() if k.startswith('__')}
    tk, ctx = st.env['__tk'], st.env['__ctx']
    gen = A.GenObj(itf.node, itf, itf, {'self': tk}, 'Tokenizer.__iter__')
    st.env['__gen'] = gen
    toks = []
    changes = dict(changes or {})
    for _ in range(limit):
        if len(toks) in changes:
            st.env['__ctx'].attrs['categories'][:] = changes.pop(len(toks))
        item = it.gen_next(st.env['__gen'], st)
        if '__exc' in st.env:
            return toks, 'raises %s after %d token(s)' % (st.env['__exc'], len(toks))
        if item is A.STOP:
            break
        if item is None:
            return toks, 'not determined: %s' % '; '.join(sorted(set(list(it.unknown_branches) + list(it.imprecise)))[:3])
        if isinstance(item, A.TextObj):
            toks.append((item.attrs.get('label'), str(item)))
        else:
            toks.append(('?', repr(item)))
    else:
        return toks, 'no end after %d tokens' % limit
    if it.imprecise or it.unknown_branches:
        return toks, 'not determined: %s' % '; '.join(sorted(set(list(it.unknown_branches) + list(it.imprecise)))[:3])
    return toks, None


def lex_inputs(thorough=False):
    """(label, text, table, changes) - every state x category x what follows, the ^^ forms, comments, line ends, other tables."""
    chars = {ESC: '\\', BG: '{', EG: '}', MS: '$', AL: '&', EOL: '\n', PAR: '#', SUP: '^', SUB: '_', IGN: '\x00', SP: ' ', LET: 'a', OTH: '1',
             ACT: '~', COM: '%', INV: '\x7f'}
    prefixes = {'N': '', 'M': '1', 'S': '1 '}
    follows = ['', 'b', ' b', '\nb'] + (['1', '\n\nb', ' \n b'] if thorough else [])
    out = []
    for stn, pre in prefixes.items():
        for code, ch in chars.items():
            for fo in follows:
                out.append(('state %s, %s, then %r' % (stn, CC[code], fo), pre + ch + fo, LEX_TABLE, None))
    extra = [
        ('control word ended by a digit', '\\ab1c', None), ('control word ended by a space', '\\ab  c', None),
        ('control word at the end of a line', '\\ab\n  c', None), ('control symbol then spaces', '\\1  c', None),
        ('escape before the end of a line, blanks on the next line', '\\\n  a', None),
        ('escape before the end of a line, then an empty line', 'a\\\n\nb', None),
        ('two blank lines give one paragraph', 'a\n\n\n\nb', None), ('blank line with blanks', 'a\n  \t \nb', None),
        ('tab is a blank', 'a\t\tb', None), ('comment to the end of the line', 'a% x y\n  b', None), ('comment on the last line', 'a%b', None),
        ('comment after a control word', '\\ab%c\nd', None),
        ('^^ with an upper-case letter', 'a^^Ab', None), ('^^ with a lower-case letter', '^^ab', None), ('^^ decoding a letter', '^^!b', None),
        ('^^ decoding the escape character', '^^\x1cab 1', None), ('^^ at the very end of the input', 'a^^', None),
        ('^^ before the end of a line', 'a^^\nb', None), ('a single ^ at the end', 'a^', None), ('^ followed by another character', '^a', None),
        ('three ^', '^^^a', None), ('^^ decoding an ignored character', 'a^^@b', None), ('^^ decoding a space', 'a^^` b', None),
        ('ignored and invalid characters are dropped', 'a\x00\x7fb', None), ('an invalid character between blanks', 'a \x7f b', None),
        ('groups and math', '{$a_1^b$}&#', None), ('active character', '~a ~', None),
    ]
    for label, t, ch in extra:
        out.append((label, t, LEX_TABLE, ch))
    at_letter = list(LEX_TABLE)
    at_letter[LET] += '@'
    out.append(('@ as a letter: one control word', '\\a@b c', at_letter, None))
    out.append(('@ as other: the control word ends', '\\a@b c', LEX_TABLE, None))
    two_sup = list(LEX_TABLE)
    two_sup[SUP] = '^!'
    out.append(('two different superscript characters are not a ^^ form', 'a^!Ab', two_sup, None))
    out.append(('the second superscript character doubled is one', 'a!!Ab', two_sup, None))
    verb = [''] * 16
    verb[LET] = LEX_TABLE[LET]
    out.append(('verbatim table: everything else is other', '\\a{ %^^A\n~', verb, None))
    esc2 = list(LEX_TABLE)
    esc2[ESC], esc2[OTH] = '|', ''
    out.append(('another escape character', '|ab \\c', esc2, None))
    eol2 = list(LEX_TABLE)
    eol2[EOL] = '\n\r'
    eol2[SP] = ' \t'
    out.append(('a carriage return as end of line', 'a\rb', eol2, None))
    out.append(('a carriage return as a blank', 'a\r\rb', [x if i != SP else ' \t\r' for i, x in enumerate(LEX_TABLE)], None))
    # the category table changes between two tokens: characters read ahead are categorised when they are read again
    out.append(('the character after a control word is categorised when it is read again', '\\ab@c', LEX_TABLE, {1: at_letter}))
    out.append(('a character pushed back after ^ is categorised when it is read again', '^@a', LEX_TABLE, {1: at_letter}))
    return out


def r19(chk, m):
    R = chk.rule('R1.9', 'the tokenizer interpreted as written (constructor, character reader with ^^ decoding, N/M/S state machine, '
                 'push-back buffers, comment skipping) on short inputs covering every state x category x following characters, the ^^ '
                 'forms, line ends, other category tables and a table changed between two tokens: the token list (class and text) equals '
                 'the one of a reference lexer written from the TeXbook rules, and no input raises', 200)
    Tokenizer = m.cls('plasTeX.Tokenizer', 'Tokenizer')
    for nm in ('__init__', '__iter__', 'iterchars', 'pushChar'):
        fn = m.find_method(Tokenizer, nm)
        need(fn is not None, 'Tokenizer.%s not found' % nm)
        chk.analysed(fn)
    chk.analysed(m.find_method(m.cls('plasTeX.Context', 'Context'), 'whichCode'))
    itf = m.find_method(Tokenizer, '__iter__')
    for label, text_, table, changes in lex_inputs(chk.tier == 'thorough'):
        want = ref_tokens(text_, table, dict(changes) if changes else None)
        try:
            got, problem = lex_run(m, text_, table, dict(changes) if changes else None)
        except AnalysisError as e:
            chk.undecided(R, '%r: %s' % (text_, label), str(e), chk.where(itf))
            continue
        chk.paths += 1
        key = '%r: %s' % (text_, label)
        if problem is not None and problem.startswith('not determined') or got is None:
            chk.undecided(R, key, problem, chk.where(itf))
            continue
        shown = [('%s(%r)' % t) for t in (got or [])] + ([problem] if problem else [])
        chk.decide(R, key, {tuple(shown)}, {tuple('%s(%r)' % t for t in want)},
                   'the input %r (%s) is tokenized as %s; TeX\'s rules give %s' % (text_, label, shown, ['%s(%r)' % t for t in want]),
                   chk.where(itf))
