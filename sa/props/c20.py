"""C20 - Cross-document label data survives a round trip and never blocks processing.

R20.1 failure envelope of restore / persist / xr reader, R20.2 attribute round
trip table, R20.3 per-renderer keys and label keys, R20.4 saved while
renderable."""
import ast
import re

from .. import absint as A
from .. import flow
from .. import model as M
from ..report import AnalysisError, need
from ..util import text


def check(chk):
    m = chk.model
    r201(chk, m)
    r202(chk, m)
    r203(chk, m)
    r204(chk, m)
    chk.decline('each individual truncation point or bit flip of a saved file (subsumed by the envelope rule: any failure inside '
                'the load is caught); equality of concrete restored label sets (runtime)')


def catches_everything(h):
    if h.type is None:
        return True
    t = text(h.type)
    return t in ('Exception', 'BaseException') or (isinstance(h.type, ast.Tuple) and any(text(e) in ('Exception', 'BaseException') for e in h.type.elts))


def handler_swallows(h):
    return not any(isinstance(n, ast.Raise) for s in h.body for n in ast.walk(s))


FAILURES = ('UnicodeDecodeError', 'ValueError', 'EOFError', 'AttributeError', 'MemoryError', 'TypeError')


class FileHooks(A.Hooks):
    """A scripted file system: os.path.exists, open, pickle.load (data or failure), pickle.dump (captured or failure)."""
    def __init__(self, model, exists, content, load_fails=None, dump_fails=None):
        self.model = model
        self.cls = model.cls('plasTeX.Context', 'Context')
        self.Macro = model.cls('plasTeX', 'Macro')
        self.exists, self.content, self.load_fails, self.dump_fails = exists, content, load_fails, dump_fails

    def keep(self, ev):
        return False

    def call(self, interp, node, fname, args, kwargs, state):
        import copy
        if fname == 'os.path.exists':
            return self.exists
        if fname == 'open':
            if not self.exists and args[1:2] == ['rb']:
                state.env['__exc'] = 'FileNotFoundError'
                return A.TOP
            return A.Obj('file', {})
        if fname == 'pickle.load':
            if self.load_fails:
                state.env['__exc'] = self.load_fails
                return A.TOP
            return A.NONE if self.content is None else copy.deepcopy(self.content)
        if fname == 'pickle.dump':
            if self.dump_fails:
                state.env['__exc'] = self.dump_fails
                return A.TOP
            state.env['__dumped'] = copy.deepcopy(args[0]) if A.is_concrete(args[0]) or isinstance(args[0], dict) else 'TOP'
            return A.NONE
        if fname == 'os.remove':
            state.env['__removed'] = True
            return A.NONE
        if fname.endswith('.persist') and len(args) <= 1 and isinstance(node.func, ast.Attribute):
            recv = interp.ev(node.func.value, state)
            if isinstance(recv, A.Obj):
                if args and isinstance(args[0], dict):
                    # Macro.persist(attrs): fills the dictionary it is given - what was in it before stays
                    args[0]['saved-from'] = recv.label
                    return args[0]
                if args and args[0] is not None:
                    return A.TOP
                return {'saved-from': recv.label}
        if fname.endswith('.restore') and len(args) == 1 and isinstance(node.func, ast.Attribute):
            recv = interp.ev(node.func.value, state)
            if isinstance(recv, A.Obj):
                recv.attrs['restored-from'] = args[0]
                return A.NONE
        if isinstance(node.func, ast.Subscript) and text(node.func.value) == 'self' and not args:
            k = state.env.get('__new', 0)
            state.env['__new'] = k + 1
            key = interp.ev(node.func.slice, state)
            # (the node has an id of its own, which is not the label it is filed under)
            return A.Obj('node%d' % k, {'class': key if isinstance(key, str) else 'TOP', 'id': 'id-of-node%d' % k}, cls=self.Macro)
        if fname.startswith('log.'):
            return A.NONE
        if fname == 'dict' and not args and not kwargs:
            return {}
        return None


def run_file_case(m, fn, hooks, env):
    it = A.Interp(model=m, scope=fn, hooks=hooks, max_iter=8, exc_edges=False, inline=4, heap=True, precise_exc=True)
    # the package code that persist / restore reach is interpreted (file helpers, wherever they live), except what the scenario answers
    hooks.should_inline = lambda fname, node, info: info is None or info.name not in ('persist', 'restore', '__getitem__')
    outs = it.run_function(fn, env=env)
    need(not it.imprecise, '%s: %s' % (fn.fullname, it.imprecise[:2]))
    need(not it.unknown_branches, '%s: test not determined: %s' % (fn.fullname, it.unknown_branches[:2]))
    return outs


def plain(x):
    if isinstance(x, dict):
        return tuple(sorted((k, plain(v)) for k, v in x.items()))
    if isinstance(x, A.Obj):
        return 'obj:%s' % x.label
    return x if A.is_concrete(x) else 'TOP'


def r201(chk, m):
    R = chk.rule('R20.1', 'persist / restore / the xr reader against a scripted file system (abstract interpretation): persist writes '
                 'this renderer\'s labels into the saved table, keeps the sections of other renderers and entries it does not own, '
                 'tolerates a missing or corrupt previous file and a failing write; restore files exactly this renderer\'s labels, '
                 'each under its saved key, and never raises - whatever exception the unpickling of a damaged file produces', 12)
    Context = m.cls('plasTeX.Context', 'Context')
    Macro = m.cls('plasTeX', 'Macro')
    per = m.find_method(Context, 'persist')
    res = m.find_method(Context, 'restore')
    need(per is not None and res is not None, 'Context.persist/restore not found')
    chk.analysed(per)
    chk.analysed(res)

    def ctx():
        NA, NB = A.Obj('NA', {}, cls=Macro), A.Obj('NB', {}, cls=Macro)
        return A.Obj('context', {'persistentLabels': {'a': NA, 'b': NB}, 'labels': {}, 'warnOnUnrecognized': True}, cls=Context)
    mine = {'a': {'saved-from': 'NA'}, 'b': {'saved-from': 'NB'}}
    pcases = [
        ('no previous file', dict(exists=False, content=None), {'HTML5': mine}),
        ('a previous file with another renderer\'s section', dict(exists=True, content={'XHTML': {'z': 'old'}}), {'XHTML': {'z': 'old'}, 'HTML5': mine}),
        ('a previous file with entries of this renderer', dict(exists=True, content={'HTML5': {'a': 'stale', 'q': 'keep'}}), {'HTML5': dict(mine, q='keep')}),
        ('a previous file with an older record of the same label', dict(exists=True, content={'HTML5': {'a': {'saved-from': 'OLD', 'title': 'of an earlier run'}}}),
         {'HTML5': mine}),
        ('a previous file that holds something else than a table (a list)', dict(exists=True, content=['not', 'a', 'table']), {'HTML5': mine}),
        ('a previous file that holds something else than a table (None)', dict(exists=True, content=None), {'HTML5': mine}),
    ] + [('a corrupt previous file (%s)' % f, dict(exists=True, content=None, load_fails=f), {'HTML5': mine}) for f in FAILURES[:3]]
    for label, cfg, want in pcases:
        c = ctx()
        outs = run_file_case(m, per, FileHooks(m, **cfg), {'self': c, 'filename': 'doc.paux', 'rtype': 'HTML5'})
        chk.paths += len(outs)
        got = {(kind if kind != 'raise' else 'raise %s' % v, plain(s2.env.get('__dumped', '<nothing written>'))) for kind, s2, v in outs}
        chk.decide(R, 'persist: %s' % label, {repr(g) for g in got}, {repr(('return', plain(want)))},
                   'persist("doc.paux", "HTML5") with labels a, b and %s: (outcome, table written) = %s; expected %s'
                   % (label, sorted(got, key=repr), plain(want)), chk.where(per))
    for f in ('OSError', 'PicklingError', 'TypeError'):
        outs = run_file_case(m, per, FileHooks(m, exists=False, content=None, dump_fails=f), {'self': ctx(), 'filename': 'doc.paux', 'rtype': 'HTML5'})
        got = {kind if kind != 'raise' else 'raise %s' % v for kind, s2, v in outs}
        chk.decide(R, 'persist: a failing write (%s) only warns' % f, got, {'return'},
                   'when writing the label file fails with %s persist ends with %s; expected a warning only' % (f, sorted(got)), chk.where(per))
    saved = {'HTML5': {'a': {'macroName': 'section', 'id': 'a'}, 'b': {'id': 'b'}}, 'XHTML': {'c': {'id': 'c'}}}
    rcases = [('this renderer\'s labels are filed under their keys', dict(exists=True, content=saved), ('a', 'b')),
              ('no section for this renderer', dict(exists=True, content={'XHTML': {'c': {}}}), ()),
              ('no file', dict(exists=False, content=None), ())] + \
        [('a damaged file (%s)' % f, dict(exists=True, content=None, load_fails=f), ()) for f in FAILURES]
    for label, cfg, want in rcases:
        c = ctx()
        outs = run_file_case(m, res, FileHooks(m, **cfg), {'self': c, 'filename': 'other.paux', 'rtype': 'HTML5', '__ctx': c})
        chk.paths += len(outs)
        got = set()
        for kind, s2, v in outs:
            c2 = s2.env['__ctx']
            labs = c2.attrs.get('labels')
            desc = tuple(sorted((k, plain(n.attrs.get('restored-from')) if isinstance(n, A.Obj) else 'TOP') for k, n in labs.items())) if isinstance(labs, dict) else 'TOP'
            got.add((kind if kind != 'raise' else 'raise %s' % v, desc, c2.attrs.get('warnOnUnrecognized') if A.is_concrete(c2.attrs.get('warnOnUnrecognized')) else 'TOP'))
        w = ('return', tuple(sorted((k, plain(saved['HTML5'][k])) for k in want)), True)
        chk.decide(R, 'restore: %s' % label, {repr(g) for g in got}, {repr(w)},
                   'restore("other.paux", "HTML5") with %s: (outcome, labels filed -> data each node was restored from, warnOnUnrecognized) = %s; '
                   'expected %s' % (label, sorted(got, key=repr), w), chk.where(res))
    lp = m.func_or_none('plasTeX.Packages.xr', 'load_paux')
    need(lp is not None, 'xr.load_paux not found')
    chk.analysed(lp)
    for label, cfg, want in [('a readable file', dict(exists=True, content={'HTML5': {'a': 1}}), plain({'HTML5': {'a': 1}})), ('no file', dict(exists=False, content=None), ())] + \
            [('a damaged file (%s)' % f, dict(exists=True, content=None, load_fails=f), ()) for f in FAILURES]:
        hk = FileHooks(m, **cfg)
        hk.cls = None
        outs = run_file_case(m, lp, hk, {'name': 'ext.paux'})
        got = {(kind if kind != 'raise' else 'raise %s' % v, plain(v) if kind == 'return' else None) for kind, s2, v in outs}
        chk.decide(R, 'xr.load_paux: %s' % label, {repr(g) for g in got}, {repr(('return', want))},
                   'load_paux with %s gives %s; expected the table (an empty one when the file is missing or damaged) and no exception'
                   % (label, sorted(got, key=repr)), chk.where(lp))


def r202(chk, m):
    R = chk.rule('R20.2', 'attribute round trip on a heap object: Macro.restore({name: value}) succeeds for every name in '
                 'Macro.refAttributes and stores the value where neither Macro nor the renderable mix-in has a read-only property; '
                 'Macro.persist returns exactly the refAttributes that are set (also when set to an empty value), nodes as strings', 8)
    Macro = m.cls('plasTeX', 'Macro')
    ra = m.class_const(Macro, 'refAttributes')
    need(isinstance(ra, list) and len(ra) >= 5, 'Macro.refAttributes does not fold')
    rest = m.find_method(Macro, 'restore')
    per = m.find_method(Macro, 'persist')
    chk.analysed(rest)
    chk.analysed(per)
    rend = m.cls('plasTeX.Renderers', 'Renderable')

    class H(A.Hooks):
        cls = Macro

        def keep(self, ev):
            return False

        def call(self, interp, node, fname, args, kwargs, state):
            if fname == 'isinstance' and len(args) == 2 and text(node.args[1]).split('.')[-1] == 'Node':
                return isinstance(args[0], A.Obj)
            if fname == 'str' and len(args) == 1 and isinstance(args[0], A.Obj):
                return 'str(%s)' % args[0].label
            return None
    for name in ra:
        obj = A.Obj('node', {}, cls=Macro)
        it = A.Interp(model=m, scope=rest, hooks=H(), max_iter=4, exc_edges=False, inline=4, heap=True, precise_exc=True)
        outs = it.run_function(rest, env={'self': obj, 'attrs': {name: 'VALUE'}, '__o': obj})
        got = set()
        for kind, s2, v in outs:
            o2 = s2.env['__o']
            where_ = sorted(k for k, val in o2.attrs.items() if val == 'VALUE')
            blocked = [k for k in where_ if k.lstrip('@') in rend.properties and 'set' not in rend.properties[k.lstrip('@')]]
            got.add((kind if kind != 'raise' else 'raise %s' % v, 'stored' if where_ and not blocked else ('read-only while rendering: %s' % blocked if blocked else 'not stored')))
        chk.decide(R, 'refAttribute %s is restorable' % name, got, {('return', 'stored')},
                   'Macro.restore({%r: value}) gives %s; expected the value stored on the node (a read-only property makes the restore fail, '
                   'the failure is swallowed by Context.restore and the label is lost)' % (name, sorted(got)), chk.where(rest))
    title = A.Obj('titlenode', {}, cls=Macro)
    obj = A.Obj('node', dict({k: None for k in ra}, macroName='section', title=title, id='sec:a'), cls=Macro)
    hk = H()
    hk.should_inline = A.private_only
    it = A.Interp(model=m, scope=per, hooks=hk, max_iter=10, exc_edges=False, inline=3, heap=True, precise_exc=True)
    outs = it.run_function(per, env={'self': obj, 'attrs': None, 'self.refAttributes': list(ra)})
    got = {(kind, plain(v) if isinstance(v, dict) else 'TOP') for kind, s2, v in outs}
    want = ('return', plain({'macroName': 'section', 'title': 'str(titlenode)', 'id': 'sec:a'}))
    chk.decide(R, 'Macro.persist saves exactly the refAttributes that are set', {repr(g) for g in got}, {repr(want)},
               'persist() of a node with macroName, a title node and an id (ref unset) gives %s; expected %s' % (sorted(got, key=repr), want), chk.where(per))
    # set but empty is not unset: an empty number (\renewcommand{\thesection}{}) or an empty caption name is saved as it is
    obj = A.Obj('node', dict({k: None for k in ra}, macroName='section', title='Plain title', ref='', id='sec:b'), cls=Macro)
    hk = H()
    hk.should_inline = A.private_only
    it = A.Interp(model=m, scope=per, hooks=hk, max_iter=10, exc_edges=False, inline=3, heap=True, precise_exc=True)
    outs = it.run_function(per, env={'self': obj, 'attrs': None, 'self.refAttributes': list(ra)})
    got = {(kind, plain(v) if isinstance(v, dict) else 'TOP') for kind, s2, v in outs}
    want = ('return', plain({'macroName': 'section', 'title': 'Plain title', 'ref': '', 'id': 'sec:b'}))
    chk.decide(R, 'Macro.persist saves attributes that are set but empty', {repr(g) for g in got}, {repr(want)},
               'persist() of a node with macroName, a title, an empty ref and an id gives %s; expected %s - only None means "not set"'
               % (sorted(got, key=repr), want), chk.where(per))


def helper_calls(m, fn, depth=3):
    """call node -> set of callee names it stands for: its own name plus the calls made inside resolved private helpers."""
    from .c04 import resolved_calls
    out = {}

    def names_in(f, d, seen):
        acc = set()
        res = {id(c): cal for c, cal in resolved_calls(m, f)}
        for c in M.calls_in(f.node):
            acc.add(M.call_name(c))
            cal = res.get(id(c))
            if cal is not None and d > 0 and cal.fullname not in seen and cal.name.startswith('_') and not cal.name.startswith('__'):
                acc |= names_in(cal, d - 1, seen | {cal.fullname})
        return acc
    res = {id(c): cal for c, cal in resolved_calls(m, fn)}
    for c in M.calls_in(fn.node):
        names = {M.call_name(c)}
        cal = res.get(id(c))
        if cal is not None and cal.name.startswith('_') and not cal.name.startswith('__'):
            names |= names_in(cal, depth - 1, {fn.fullname, cal.fullname})
        out[id(c)] = names
    return out


def origin_of(m, fn, expr, depth=4):
    """Source text an argument expression comes from: follows local single assignments and, for a parameter of a private
    helper, the argument at its (single) resolved call site."""
    from .c04 import resolved_calls
    if depth <= 0 or not isinstance(expr, ast.Name):
        return text(expr)
    assigns = [n.value for n in M.walk_no_nested(fn.node) if isinstance(n, ast.Assign) and any(isinstance(t, ast.Name) and t.id == expr.id for t in n.targets)]
    if len(assigns) == 1:
        return origin_of(m, fn, assigns[0], depth - 1)
    params = [a.arg for a in fn.node.args.args]
    if expr.id in params and not assigns:
        idx = params.index(expr.id)
        sites = []
        for mod in m.modules.values():
            if not mod.name.startswith('plasTeX') or 'simpletal' in mod.name:
                continue
            from .c05 import _all_functions
            for f in _all_functions(mod):
                for c, cal in resolved_calls(m, f):
                    if cal is fn:
                        skip = 1 if (fn.cls is not None and 'staticmethod' not in fn.decorators and isinstance(c.func, ast.Attribute)
                                     and isinstance(c.func.value, ast.Name) and c.func.value.id in ('self', 'cls')) else 0
                        j = idx - skip
                        if 0 <= j < len(c.args):
                            sites.append(origin_of(m, f, c.args[j], depth - 1))
                        else:
                            for k in c.keywords:
                                if k.arg == expr.id:
                                    sites.append(origin_of(m, f, k.value, depth - 1))
        if len(set(sites)) == 1:
            return sites[0]
    return text(expr)


def r203(chk, m):
    R = chk.rule('R20.3', 'keys: Renderer.render, interpreted, writes the label file <working-dir>/<jobname>.paux under the renderer name '
                 'taken from the configuration entry general/renderer - the entry that Compile.parse uses to read it', 1)
    from . import renderheap as RH
    rr, paths = RH.protocol_paths(m)
    chk.analysed(rr)
    if isinstance(paths, str):
        chk.undecided(R, 'renderer key from the same configuration entry', paths, chk.where(rr))
    else:
        got = {(kind, tuple(e[:e.rindex('[')] for e in events if e.startswith('persist('))) for kind, events, _left in paths}
        chk.decide(R, 'renderer key from the same configuration entry', got, {('return', ('persist(/w/job.paux, RENDERER-KEY)',))},
                   'Renderer.render for the job "job" in /w with general/renderer = RENDERER-KEY saves the labels as %s; expected the file '
                   '/w/job.paux under the key RENDERER-KEY - restore reads it under config[\'general\'][\'renderer\'] (see R20.5)' % sorted(got), chk.where(rr))
    from . import shared, c09
    shared.paux_rules(chk, m, 'R20.5')
    c09.r95(chk, m, rule_id='R20.6')


def r204(chk, m):
    R = chk.rule('R20.4', 'saved while renderable: Renderer.render, interpreted on a document without imagers, calls persist while the '
                 'renderable mix-in is in place and Node.renderer is set (url - the target location - exists only while it is mixed in)', 1)
    from . import renderheap as RH
    fn, paths = RH.protocol_paths(m)
    chk.analysed(fn)
    if isinstance(paths, str):
        chk.undecided(R, 'Renderer.render persists before unmixing', paths, chk.where(fn))
        return
    chk.paths += len(paths)
    got = {(kind, RH.event_states(events, 'persist(')) for kind, events, _left in paths}
    chk.decide(R, 'Renderer.render persists before unmixing', got, {('return', ('[mixed,renderer]',))},
               'Renderer.render interpreted on a document without imagers: (outcome, state at each persist call) = %s: labels must be saved once, '
               'while the renderable mix-in (url) is still present' % sorted(got), chk.where(fn))
