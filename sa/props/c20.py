"""C20 - Cross-document label data survives a round trip and never blocks processing.

R20.1 failure envelope of restore / persist / xr reader, R20.2 attribute round
trip table, R20.3 per-renderer keys and label keys, R20.4 saved while
renderable."""
import ast
import re

from .. import flow
from .. import model as M
from ..report import AnalysisError, need
from ..util import text


def check(chk):
    m = chk.model
    r201(chk, m)
    r202(chk, m)
    r203(chk, m)
    r204(chk, m)
    chk.decline('each individual truncation point or bit flip of a saved file (subsumed by the envelope rule: any failure inside '
                'the load is caught); equality of concrete restored label sets (runtime)')


def catches_everything(h):
    if h.type is None:
        return True
    t = text(h.type)
    return t in ('Exception', 'BaseException') or (isinstance(h.type, ast.Tuple) and any(text(e) in ('Exception', 'BaseException') for e in h.type.elts))


def handler_swallows(h):
    return not any(isinstance(n, ast.Raise) for s in h.body for n in ast.walk(s))


def r201(chk, m):
    R = chk.rule('R20.1', 'failure envelope: every pickle.load / open of saved label data lies inside a try whose handler catches '
                 'every exception and does not re-raise; restore does nothing outside it after the existence test; persist '
                 're-initialises only this renderer\'s table, keeps the other renderers\' data, and the write only warns', 7)
    Context = m.cls('plasTeX.Context', 'Context')
    # restore
    fn = m.find_method(Context, 'restore')
    chk.analysed(fn)
    body = [s for s in fn.node.body if not (isinstance(s, ast.Expr) and isinstance(s.value, ast.Constant)) and not isinstance(s, (ast.Import, ast.ImportFrom))]
    ok_shape = len(body) == 2 and isinstance(body[0], ast.If) and 'os.path.exists(filename)' in text(body[0].test) and isinstance(body[1], ast.Try)
    chk.verdict(R, 'restore: everything after the existence test is inside one try', ok_shape,
                'Context.restore must consist of the existence test and one try block (found %s)' % [type(s).__name__ for s in body], chk.where(fn))
    tr = body[1] if ok_shape else None
    if tr is not None:
        hs = tr.handlers
        ok = len(hs) >= 1 and any(catches_everything(h) for h in hs) and all(handler_swallows(h) for h in hs) and not tr.finalbody
        chk.verdict(R, 'restore: handler catches every exception and swallows it', ok,
                    'the handler of Context.restore catches %s%s: a corrupt file can raise almost anything while unpickling '
                    '(UnicodeDecodeError, ValueError, TypeError, MemoryError ...), which would abort processing of the document'
                    % ([text(h.type) if h.type else 'bare' for h in hs], '' if all(handler_swallows(h) for h in hs) else ' and re-raises'), chk.where(fn, tr))
        loads = [c for c in ast.walk(tr) if isinstance(c, ast.Call) and M.call_name(c) in ('pickle.load', 'open')]
        chk.verdict(R, 'restore: load inside the envelope', len(loads) >= 2 and all(any(x is c for s in tr.body for x in ast.walk(s)) for c in loads),
                    'pickle.load/open must be inside the try body', chk.where(fn))
    # persist
    fn = m.find_method(Context, 'persist')
    chk.analysed(fn)
    tries = [n for n in M.walk_no_nested(fn.node) if isinstance(n, ast.Try)]
    load_try = [t for t in tries if any(isinstance(c, ast.Call) and M.call_name(c) == 'pickle.load' for s in t.body for c in ast.walk(s))]
    dump_try = [t for t in tries if any(isinstance(c, ast.Call) and M.call_name(c) == 'pickle.dump' for s in t.body for c in ast.walk(s))]
    ok = len(load_try) == 1 and all(catches_everything(h) and handler_swallows(h) for h in load_try[0].handlers) and load_try[0].handlers
    reinit = ok and any(isinstance(n, ast.Assign) and text(n.targets[0]) == 'd' and text(n.value).replace(' ', '') == '{rtype:{}}'
                        for h in load_try[0].handlers for s in h.body for n in ast.walk(s))
    chk.verdict(R, 'persist: tolerant reload of the previous file', bool(ok and reinit),
                'the reload of the old file must be inside a catch-all handler that re-initialises d = {rtype: {}}', chk.where(fn))
    # missing renderer section: add it, keep the others
    miss = [n for t in load_try for n in ast.walk(t) if isinstance(n, ast.If) and 'rtype not in' in text(n.test)]
    okm = len(miss) == 1 and [text(s) for s in miss[0].body] == ['d[rtype] = {}']
    chk.verdict(R, 'persist: a missing renderer section is added, the others are kept', okm,
                'when the saved file has no section for this renderer, persist must do d[rtype] = {} (found %s): rebinding d drops the '
                'labels saved by the other renderers' % [text(s) for n in miss for s in n.body], chk.where(fn))
    # d[rtype] defined on every path before data = d[rtype]
    def transfer(n, v):
        if isinstance(n, ast.Assign) and text(n.targets[0]) == 'd':
            return 'dict' if text(n.value).replace(' ', '') == '{rtype:{}}' else ('loaded' if 'pickle.load' in text(n.value) else 'other')
        if isinstance(n, ast.Assign) and text(n.targets[0]) == 'd[rtype]':
            return 'dict'
        if isinstance(n, ast.If) and False:
            return v
        if isinstance(n, ast.Assign) and text(n.value) == 'd[rtype]':
            return v + '|used' if not v.endswith('|used') else v
        return v
    normal, raised = flow.function_exits(fn.node, 'unset', transfer)
    okd = bool(normal) and all(v.split('|')[0] in ('dict', 'loaded') and v.endswith('|used') for v in normal)
    chk.verdict(R, 'persist: the renderer table exists before it is used', okd,
                'at the exits of persist the table state is %s (dict or loaded+checked expected)' % sorted(normal), chk.where(fn))
    okw = len(dump_try) == 1 and dump_try[0].handlers and all(handler_swallows(h) and (catches_everything(h)) for h in dump_try[0].handlers) and \
        any('log.warning' in text(s) for h in dump_try[0].handlers for s in h.body)
    chk.verdict(R, 'persist: a failing write only warns', bool(okw), 'the write of the label file must be inside a handler that only logs a warning', chk.where(fn))
    # xr reader
    lp = m.module('plasTeX.Packages.xr').functions.get('load_paux')
    need(lp is not None, 'xr.load_paux not found')
    chk.analysed(lp)
    tries = [n for n in M.walk_no_nested(lp.node) if isinstance(n, ast.Try)]
    ok = len(tries) == 1 and any(isinstance(c, ast.Call) and M.call_name(c) == 'pickle.load' for s in tries[0].body for c in ast.walk(s)) and \
        all(catches_everything(h) and handler_swallows(h) for h in tries[0].handlers) and \
        all(any(isinstance(r, ast.Return) for r in ast.walk(ast.Module(body=h.body, type_ignores=[]))) for h in tries[0].handlers)
    chk.verdict(R, 'xr.load_paux: load inside a catch-all envelope returning an empty table', ok,
                'the xr reader must catch every load failure and return an empty dictionary', chk.where(lp))


def r202(chk, m):
    R = chk.rule('R20.2', 'attribute round trip: every name in Macro.refAttributes is, after the remap of Macro.restore, assignable on a '
                 'macro instance (plain attribute or property with setter); persist reads exactly these names and stringifies nodes', 7)
    Macro = m.cls('plasTeX', 'Macro')
    ra = m.class_const(Macro, 'refAttributes')
    need(isinstance(ra, list) and len(ra) >= 5, 'Macro.refAttributes does not fold')
    rest = m.find_method(Macro, 'restore')
    chk.analysed(rest)
    remap = {}
    for n in M.walk_no_nested(rest.node):
        if isinstance(n, ast.Assign) and text(n.targets[0]) == 'remap':
            remap = m.eval_const(rest, n.value)
    need(isinstance(remap, dict), 'Macro.restore: remap table not found')
    uses = any(isinstance(c, ast.Call) and M.call_name(c) == 'setattr' and 'remap.get(key, key)' in text(c) for c in M.calls_in(rest.node))
    for name in ra:
        target = remap.get(name, name)
        owner = m.find_attr_class(Macro, target)
        settable = True
        why = 'plain attribute'
        if owner is not None and target in owner.properties:
            settable = 'set' in owner.properties[target]
            why = 'property %s a setter on %s' % ('with' if settable else 'WITHOUT', owner.fullname)
        # renderer-provided read-only properties (mixed into Node while rendering)
        rend = m.cls('plasTeX.Renderers', 'Renderable')
        if target in rend.properties and 'set' not in rend.properties[target]:
            settable = False
            why = 'read-only property of the renderable mix-in'
        chk.verdict(R, 'refAttribute %s -> %s' % (name, target), settable and uses,
                    'saved attribute %r is restored by setattr(self, %r, value), but that is a %s: restoring such a label fails (and the '
                    'failure is swallowed, the label is lost)' % (name, target, why), chk.where(rest), why)
    per = m.find_method(Macro, 'persist')
    chk.analysed(per)
    src = text(per.node)
    ok = 'for name in self.refAttributes' in src and 'getattr(self, name, None)' in src and "isinstance(value, Node)" in src and 'attrs[name] = value' in src
    chk.verdict(R, 'Macro.persist saves exactly the refAttributes', ok, 'Macro.persist must read every name of refAttributes (stringifying nodes)', chk.where(per))


def r203(chk, m):
    R = chk.rule('R20.3', 'keys: both call sites use the renderer name from the same configuration entry; the own job file is skipped on '
                 'restore; restore files every label under the key it was saved with, in the table of this renderer only', 4)
    cp = m.module('plasTeX.Compile').functions.get('parse')
    rr = m.func('plasTeX.Renderers', 'Renderer.render')
    chk.analysed(cp)
    chk.analysed(rr)
    def rname(fn):
        return [text(n.value) for n in M.walk_no_nested(fn.node) if isinstance(n, ast.Assign) and text(n.targets[0]) == 'rname']
    a, b = rname(cp), rname(rr)
    ok = a == b == ["config['general']['renderer']"]
    c1 = any(M.call_name(c).endswith('context.restore') and [text(x) for x in c.args] == ['fname', 'rname'] for c in M.calls_in(cp.node))
    c2 = any(M.call_name(c).endswith('context.persist') and [text(x) for x in c.args] == ['pauxname', 'rname'] for c in M.calls_in(rr.node))
    chk.verdict(R, 'renderer key from the same configuration entry', ok and c1 and c2,
                'restore is called with %s and persist with %s' % (a, b), chk.where(cp))
    from . import shared
    shared.paux_rules(chk, m, 'R20.5')
    Context = m.cls('plasTeX.Context', 'Context')
    fn = m.find_method(Context, 'restore')
    loops = [n for n in ast.walk(fn.node) if isinstance(n, ast.For) and 'data.items()' in text(n.iter)]
    ok = False
    if len(loops) == 1:
        kv = text(loops[0].target).replace(' ', '').strip('()').split(',')
        stores = [n for n in ast.walk(loops[0]) if isinstance(n, ast.Assign) and text(n.targets[0]).startswith('self.labels[')]
        ok = len(stores) == 1 and text(stores[0].targets[0]) == 'self.labels[%s]' % kv[0]
        ok = ok and any(isinstance(c, ast.Call) and M.call_name(c) == 'n.restore' and text(c.args[0]) == kv[1] for c in ast.walk(loops[0]))
    chk.verdict(R, 'restore files each label under its saved key', ok,
                'Context.restore must store every restored node under the key it iterates (self.labels[key] = n) and restore its '
                'attributes from the saved value: an object with several labels must keep all of them', chk.where(fn))
    sel = [text(n.value) for n in ast.walk(fn.node) if isinstance(n, ast.Assign) and text(n.targets[0]) == 'data']
    chk.verdict(R, 'restore reads this renderer\'s table only', sel == ['d[rtype]'], 'restore selects %s' % sel, chk.where(fn))
    per = m.find_method(Context, 'persist')
    src = text(per.node)
    ok = 'for key, value in list(self.persistentLabels.items())' in src and 'data[key] = value.persist()' in src
    chk.verdict(R, 'persist saves every persistent label under its key', ok, 'persist must save data[key] = value.persist() for all persistentLabels', chk.where(per))


def r204(chk, m):
    R = chk.rule('R20.4', 'saved while renderable: in Renderer.render the persist call precedes the removal of the renderable mix-in '
                 '(url - the target location - exists only while it is mixed in)', 1)
    fn = m.func('plasTeX.Renderers', 'Renderer.render')

    def transfer(n, v):
        mixed, saved = v
        if isinstance(n, ast.Call) and M.call_name(n) == 'mixin':
            mixed = True
        if isinstance(n, ast.Call) and M.call_name(n) == 'unmix' or isinstance(n, ast.Delete) and any(text(t) == 'Node.renderer' for t in n.targets):
            mixed = False
        if isinstance(n, ast.Call) and M.call_name(n).endswith('context.persist'):
            saved = 'while-mixed' if mixed else 'after-unmix'
        return (mixed, saved)
    normal, raised = flow.function_exits(fn.node, (False, None), transfer)
    chk.verdict(R, 'Renderer.render persists before unmixing', normal == {(False, 'while-mixed')},
                'Renderer.render exits with (mixed, saved) = %s: labels must be saved while the renderable mix-in (url) is still present'
                % sorted(map(str, normal)), chk.where(fn))
