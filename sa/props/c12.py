"""C12 - Rendered HTML never turns document text into markup.

R12.1 the escaping hook, R12.2 the render recursion routes text through it,
R12.3 who may bypass it, R12.4 template contexts (HTML5 jinja2 templates and
layouts; XHTML ZPT templates + the escaping facts of the ZPT engine),
R12.5 high-character escaping."""
import ast
import os
import re

from .. import effects as E
from .. import model as M
from .. import templates as T
from ..report import AnalysisError, need, REPO
from ..util import text

PT = 'plasTeX.Renderers.PageTemplate'

# templates of the reference tree that jinja2 cannot parse (never rendered successfully either)
UNPARSABLE = {
    'FontSelection.jinja2s:symbol': "lacks {% endif %}",
    'minitoc.jinja2s:-minitoc': "uses an unknown tag",
}

# expressions whose value is a document node rendered through the hook (escaped & < > only)
TITLE_ATTRS = {'title', 'fullTitle', 'tocEntry', 'fullTocEntry', 'caption', 'captionName'}
# attributes that hold document text as a plain Python string (confirmed by reading the code that sets them):
#   textContent / source / childrenSource: DOM accessors;  plain_listing: Packages/listings._format, the listing's lines as read
RAW_ATTRS = {'textContent', 'source', 'childrenSource', 'plain_listing'}
ESCAPING = {'e', 'escape', 'forceescape', 'urlencode', 'tojson'}
UNESCAPING = {'striptags'}

# node-valued expressions in attribute context that are not text-bearing positions of this property
ATTR_NODE_ALLOWED = {
    ('url.jinja2s:-url', 'a@href', 'obj'): 'url-typed argument of \\url (url package); not a text position of C12',
    ('hyperref.jinja2s:url', 'a@href', '(obj.attributes.url or obj)'): 'url-typed argument of \\url (hyperref); not a text position of C12',
}


def check(chk):
    m = chk.model
    r121(chk, m)
    r122(chk, m)
    r123(chk, m)
    r124_jinja(chk, m)
    r124_zpt(chk, m)
    r126(chk, m)
    r125(chk, m)
    chk.decline('the decoded text of whole rendered pages (runtime); regex-level reasoning about the image-attribute '
                'post-processing (one exotic case noted in DESIGN.md)')


def r121(chk, m):
    from .. import absint as A
    from . import domheap as D
    R = chk.rule('R12.1', 'the escaping hook interpreted on text nodes: ordinary text comes back with & < > replaced by their entities (and '
                 'nothing else changed, entity-like text included), text marked as markup comes back unchanged; the hook keeps no '
                 'state between calls', 5)
    PTc = m.cls(PT, 'PageTemplate')
    fn = m.find_method(PTc, 'textDefault')
    need(fn is not None, 'PageTemplate.textDefault not found')
    chk.analysed(fn)
    import html as _html

    class H(D.DomHooks):
        def call(self, interp, node, fname, args, kwargs, state):
            if isinstance(node.func, ast.Attribute) and node.func.attr == 'outputType' and len(args) == 1:
                return A.NONE if args[0] is None else args[0]
            return D.DomHooks.call(self, interp, node, fname, args, kwargs, state)

    def run(me, textnode):
        it = A.Interp(model=m, scope=fn, hooks=H(m, PTc), max_iter=6, exc_edges=False, inline=6, heap=True, precise_exc=True)
        outs = it.run_function(fn, env={'self': me, 'node': textnode})
        if it.imprecise or it.unknown_branches:
            raise D.Imprecise('; '.join((it.imprecise + it.unknown_branches)[:3]))
        return outs
    cases = [('markup characters', 'a<b> & "c" \'d\'', False), ('entity-like and tag-like text', '&amp; &lt;i&gt; <script>x</script> &#60;', False),
             ('plain text', 'plain text, 100% ok', False), ('text marked as markup', '<b>raw & kept</b>', True)]
    me = A.Obj('renderer', D.init_attrs(m, PTc), cls=PTc)
    for label, value, markup in cases:
        d = D.Dom(m)
        t = d.text('t', value)
        if markup:
            t.attrs['isMarkup'] = True
        try:
            outs = run(me, t)
        except D.Imprecise as e:
            chk.undecided(R, 'textDefault: ' + label, str(e), chk.where(fn))
            continue
        got = set()
        for kind, s2, v in outs:
            if kind != 'return' or not isinstance(v, str):
                got.add('%s %r' % (kind, v))
            elif markup:
                got.add('unchanged' if str(v) == value else 'changed to %r' % str(v))
            else:
                sv = str(v)
                ok = _html.unescape(sv) == value and '<' not in sv and '>' not in sv and not re.search(r'&(?!(amp|lt|gt|quot|#39|#x27|apos);)', sv)
                got.add('displays as the text' if ok else 'gives %r' % sv)
        chk.decide(R, 'textDefault: ' + label, got, {'unchanged' if markup else 'displays as the text'},
                   'the text %r comes back as %s: it does not display as the same characters' % (value, sorted(got)), chk.where(fn))
    # no state: ordinary text equal to an earlier raw snippet is still escaped
    d = D.Dom(m)
    t1, t2 = d.text('t1', 'x<y'), d.text('t2', 'x<y')
    t1.attrs['isMarkup'] = True
    try:
        outs = run(me, t1)
        got = set()
        for kind, s2, v in outs:
            me2 = s2.env['self']
            for kind2, s3, v2 in run(me2, t2):
                got.add('escaped' if kind2 == 'return' and isinstance(v2, str) and '<' not in str(v2) else 'gives %r' % (v2,))
        chk.decide(R, 'textDefault: ordinary text after an equal raw-HTML snippet', got, {'escaped'},
                   'after rendering the raw snippet x<y, the ordinary text x<y %s: a result remembered by text value ignores the markup flag'
                   % sorted(got), chk.where(fn))
    except D.Imprecise as e:
        chk.undecided(R, 'textDefault: ordinary text after an equal raw-HTML snippet', str(e), chk.where(fn))


def r122(chk, m):
    from . import renderheap
    renderheap.render_rules(chk, m, 'R12.2', 'text')
    br = m.cls('plasTeX.Renderers', 'Renderer')
    dflt = {k: text(v[-1]) for k, v in br.assigns.items() if k in ('textDefault', 'default', 'outputType')}
    chk.note('base Renderer defaults: %s (PageTemplate overrides textDefault)' % dflt)


def r123(chk, m):
    R = chk.rule('R12.3', 'who may bypass the hook: isMarkup = True is set only by the raw-HTML packages (embed, html)', 3)
    allowed = {'plasTeX.Packages.embed', 'plasTeX.Packages.html'}
    n = 0
    for mod in m.modules.values():
        for node in ast.walk(mod.tree):
            if isinstance(node, ast.Assign) and any(isinstance(t, ast.Attribute) and t.attr == 'isMarkup' for t in node.targets):
                v = m.eval_const(mod, node.value)
                if v is False or v is None:
                    continue
                n += 1
                chk.files.add(mod.path.replace(REPO + '/', ''))
                chk.verdict(R, '%s sets isMarkup' % mod.name, mod.name in allowed,
                            '%s marks text as markup (%s): only the raw-HTML packages may exempt text from escaping' % (mod.name, text(node)),
                            '%s:%d' % (mod.path.replace(REPO + '/', ''), node.lineno))
            if isinstance(node, ast.Call) and M.call_name(node) == 'setattr' and len(node.args) >= 2 and text(node.args[1]) in ("'isMarkup'", '"isMarkup"'):
                n += 1
                chk.verdict(R, '%s sets isMarkup' % mod.name, mod.name in allowed, '%s sets isMarkup through setattr' % mod.name,
                            '%s:%d' % (mod.path.replace(REPO + '/', ''), node.lineno))
    need(n >= 3, 'isMarkup writers not found (%d)' % n)


# ---------------------------------------------------------------------------
def classify(node):
    """(kind, filters) of a jinja2 output expression.  kind in RAW / NODE / OTHER."""
    from jinja2 import nodes as N
    inner, filters = T.filters_of(node)
    alts = []

    def leaves(n):
        if isinstance(n, (N.Or, N.And)):
            leaves(n.left)
            leaves(n.right)
        elif isinstance(n, N.CondExpr):
            leaves(n.expr1)
            if n.expr2 is not None:
                leaves(n.expr2)
        else:
            alts.append(n)
    leaves(inner)
    kinds = set()
    for a in alts:
        a2, f2 = T.filters_of(a)
        if isinstance(a2, N.Getattr) and a2.attr in RAW_ATTRS:
            # X.ref.textContent is the automatically generated number of X, not document text
            auto = isinstance(a2.node, N.Getattr) and a2.node.attr == 'ref'
            kinds.add('RAW' if not (f2 and f2[-1] in ESCAPING) and not auto else 'OTHER')
        elif isinstance(a2, N.Getattr) and a2.attr in TITLE_ATTRS:
            kinds.add('NODE' if not f2 else ('RAW' if any(x in UNESCAPING for x in f2) and f2[-1] not in ESCAPING else 'OTHER'))
        elif isinstance(a2, N.Name) and a2.name in ('obj', 'here', 'item', 'cell', 'row', 'node', 'child'):
            kinds.add('NODE')
        else:
            kinds.add('OTHER')
    kind = 'RAW' if 'RAW' in kinds else ('NODE' if 'NODE' in kinds else 'OTHER')
    return kind, filters


def verdict_for(kind, filters, ctx):
    """None if fine, else a message."""
    esc_last = bool(filters) and filters[-1] in ESCAPING
    unesc = [i for i, f in enumerate(filters) if f in UNESCAPING]
    esc_after_unesc = bool(unesc) and any(f in ESCAPING for f in filters[unesc[-1] + 1:])
    if unesc and not esc_after_unesc:
        return 'the filter striptags un-escapes entities and is not followed by an escaping filter'
    if kind == 'RAW' and not esc_last:
        return 'raw, unescaped document text (.textContent/.source) is emitted without an escaping filter'
    if ctx in ('attr-quoted',) and kind == 'NODE' and not esc_last:
        return 'a rendered node is placed in an attribute value without `| e` (the text hook does not escape quotes)'
    if ctx in ('attr-unquoted', 'tag') and kind in ('NODE', 'RAW'):
        return 'document text is placed in an unquoted attribute / tag position'
    if ctx in ('rawtext', 'comment') and kind in ('NODE', 'RAW') and not (filters and filters[-1] == 'tojson'):
        return 'document text is placed inside <script>/<style>/a comment'
    return None


def r124_jinja(chk, m):
    R = chk.rule('R12.4', 'template contexts: text-bearing expressions (rendered nodes, titles, captions; raw accessors .textContent / '
                 '.source; striptags) are emitted in element content only as rendered nodes or through an escaping filter, and in '
                 'attribute values only through `| e`', 300)
    files = [f for f in T.template_files(REPO, 'HTML5') if f.endswith(('.jinja2', '.jinja2s'))]
    need(len(files) >= 45, 'only %d HTML5 jinja2 template files found' % len(files))
    n_tpl = n_occ = 0
    unparsable = set()
    for f in files:
        chk.files.add(f.replace(REPO + '/', ''))
        for tpl in T.split_templates(f):
            try:
                occ, st = T.analyse_jinja(tpl)
            except SyntaxError as e:
                if tpl.key in UNPARSABLE:
                    unparsable.add(tpl.key)
                    continue
                raise AnalysisError('template does not parse: %s' % e)
            if st.state != 'DATA':
                raise AnalysisError('%s ends inside markup (%s): context tracking lost' % (tpl.key, st.state))
            n_tpl += 1
            chk.analysed('template ' + tpl.key)
            for o in occ:
                n_occ += 1
                kind, filters = classify(o.node)
                et = T.expr_text(o.node)
                key = '%s :: %s %s :: %s' % (tpl.key, o.ctx, o.detail or '', et)
                where = '%s:%d (template %s)' % (f.replace(REPO + '/', ''), o.line, tpl.names[0] if tpl.names else '?')
                msg = verdict_for(kind, filters, o.ctx)
                if msg and (tpl.key, o.detail, et) in ATTR_NODE_ALLOWED and kind == 'NODE':
                    chk.ok(R, key, 'tabled: ' + ATTR_NODE_ALLOWED[(tpl.key, o.detail, et)])
                    continue
                chk.verdict(R, key, msg is None,
                            '%s emits {{ %s }} in %s context%s: %s - characters of the document (quotes, <, &) become markup'
                            % (tpl.key, et, o.ctx, ' (%s)' % o.detail if o.detail else '', msg), where, '%s %s' % (kind, filters))
    chk.call_sites += n_occ
    chk.note('HTML5: %d templates, %d output expressions; unparsable (frozen skip table): %s' % (n_tpl, n_occ, sorted(unparsable)))


class _AttrParser(__import__('html.parser').parser.HTMLParser):
    def __init__(self):
        __import__('html.parser').parser.HTMLParser.__init__(self, convert_charrefs=True)
        self.tags = []

    def handle_starttag(self, tag, attrs):
        self.tags.append((tag, list(attrs)))


def r124_zpt(chk, m):
    R = chk.rule('R12.4z', 'XHTML/ZPT: the engine escapes every attribute value and every non-structure str content (checked in '
                 'simpleTAL.py); templates never combine `structure` with a raw text accessor', 100)
    from .. import absint as A
    from . import domheap as D
    import html as _html
    mod = m.module('plasTeX.Renderers.PageTemplate.simpletal.simpleTAL')
    chk.files.add(mod.path.replace(REPO + '/', ''))

    class H(D.DomHooks):
        def call(self, interp, node, fname, args, kwargs, state):
            if isinstance(node.func, ast.Attribute) and node.func.attr == 'write' and len(args) == 1:
                recv = interp.ev(node.func.value, state)
                if isinstance(recv, A.Obj) and recv.label == 'file':
                    state.env.setdefault('__written', []).append(args[0] if isinstance(args[0], str) else 'TOP')
                    return A.NONE
            if fname == 'isinstance' and len(args) == 2 and isinstance(args[0], str) and isinstance(args[1], M.ClassInfo):
                return False
            if fname == 'print':
                return A.NONE
            return D.DomHooks.call(self, interp, node, fname, args, kwargs, state)

    def interp_fn(fn, env, cls):
        it = A.Interp(model=m, scope=fn, hooks=H(m, cls), max_iter=12, exc_edges=False, inline=4, heap=True, precise_exc=True)
        outs = it.run_function(fn, env=env)
        if it.imprecise or it.unknown_branches:
            raise D.Imprecise('; '.join((it.imprecise + it.unknown_branches)[:3]))
        return outs
    # fact 1: every start-tag writer of the engine escapes attribute values (quotes included), whatever they look like
    writers = [(c, f) for c in mod.classes.values() for name, f in sorted(c.methods.items()) if name.startswith('tagAsText')]
    need(len(writers) >= 3, 'the start-tag writers of simpleTAL (tagAsText*) were not found')
    values = [('href', 'x"y<z&w'), ('title', 'Q&amp;A "x" onmouseover="y'), ('alt', "it's &lt; > &#60;"), ('name', 'Say "hi" onmouseover="alert(1)'),
              ('id', 'plain')]
    for c, f in writers:
        chk.analysed(f)
        key = 'simpleTAL %s.%s escapes attribute values' % (c.name, f.name)
        try:
            outs = []
            for flag in (True, False):       # (the compiler's option to write boolean attributes in minimised form)
                outs += interp_fn(f, {'self': A.Obj('interp', {'minimizeBooleanAtts': flag}, cls=c), 'tagObj': ('a', list(values)), 'singletonFlag': 0}, c)
        except D.Imprecise as e:
            chk.undecided(R, key, str(e), chk.where(f))
            continue
        got = set()
        for kind, s2, v in outs:
            if kind != 'return' or not isinstance(v, str):
                got.add('%s %r' % (kind, v))
                continue
            p2 = _AttrParser()
            p2.feed(v)
            got.add('the attributes read back as given' if p2.tags == [('a', values)] else 'writes %r, read back as %r' % (v, p2.tags))
        chk.decide(R, key, got, {'the attributes read back as given'}, 'a start tag with the attribute values %r: %s - a value can close its '
                   'attribute and add markup' % (values, sorted(got)), chk.where(f))
    # fact 2: element content that is not marked `structure` is written escaped
    ends = [(c, f) for c in mod.classes.values() for name, f in c.methods.items() if name == 'cmdEndTagEndScope']
    need(ends, 'simpleTAL.cmdEndTagEndScope not found')
    for c, f in ends:
        chk.analysed(f)
        for structure, value in ((0, 'a<b>&amp;"c"'), (1, '<b>kept</b>')):
            key = 'simpleTAL %s content is written %s' % ('structure' if structure else 'text', 'as it is' if structure else 'escaped')
            me = A.Obj('interp', {'tagContent': (structure, value), 'file': A.Obj('file', {}), 'outputTag': 0, 'movePCBack': None, 'localVarsDefined': False,
                                  'scopeStack': [(None, None, 1, [], [], None, None, False)], 'programCounter': 0, 'movePCForward': None,
                                  'originalAttributes': [], 'currentAttributes': [], 'repeatVariable': None, 'slotParameters': {}}, cls=c)
            try:
                outs = interp_fn(f, {'self': me, 'command': None, 'args': ('span', 0, 0)}, c)
            except D.Imprecise as e:
                chk.undecided(R, key, str(e), chk.where(f))
                continue
            got = set()
            for kind, s2, v in outs:
                w = ''.join(s2.env.get('__written', []))
                if kind != 'return':
                    got.add('%s %r' % (kind, v))
                elif structure:
                    got.add('as it is' if w == value else 'writes %r' % w)
                else:
                    got.add('escaped' if _html.unescape(w) == value and '<' not in w and '>' not in w else 'writes %r' % w)
            chk.decide(R, key, got, {'as it is' if structure else 'escaped'}, 'content %r: %s' % (value, sorted(got)), chk.where(f))
    # templates
    files = [f for f in T.template_files(REPO, 'XHTML') if f.endswith(('.zpt', '.zpts', '.html', '.htm'))]
    need(len(files) >= 30, 'only %d XHTML template files found' % len(files))
    n = 0
    for f in files:
        chk.files.add(f.replace(REPO + '/', ''))
        for tpl in T.split_templates(f):
            for o in T.analyse_zpt(tpl):
                n += 1
                raw = re.search(r'(textContent|source|childrenSource)\s*$', o.expr) is not None or 'stripped:' in o.expr
                bad = o.structure and raw
                chk.verdict(R, '%s :: <%s> %s %s' % (tpl.key, o.tag, o.kind, o.expr), not bad,
                            '%s inserts `structure %s`: raw document text written without escaping' % (tpl.key, o.expr),
                            '%s:%d' % (f.replace(REPO + '/', ''), o.line), 'structure' if o.structure else 'escaped by the engine')
    chk.call_sites += n
    chk.note('XHTML: %d TAL expressions' % n)


def r125(chk, m):
    from .. import absint as A
    from . import domheap as D
    import html as _html
    R = chk.rule('R12.5', 'high-character escaping interpreted on sample pages: with the option on the page comes back pure ASCII and decodes '
                 'to the same characters (all planes); with the option off it comes back unchanged', 4)
    PTc = m.cls(PT, 'PageTemplate')
    fn = m.find_method(PTc, 'processFileContent')
    need(fn is not None, 'PageTemplate.processFileContent not found')
    chk.analysed(fn)

    class H(D.DomHooks):
        def call(self, interp, node, fname, args, kwargs, state):
            if isinstance(node.func, ast.Attribute) and node.func.attr == 'processFileContent' and len(args) == 3 and not isinstance(node.func.value, ast.Call) \
               and text(node.func.value) != 'self':
                return args[2]          # the base class hook (no-op post-processing)
            if isinstance(node.func, ast.Call) and M.call_name(node.func) == 'super' and isinstance(node.func, ast.Call):
                return None
            return D.DomHooks.call(self, interp, node, fname, args, kwargs, state)
    pages = [('Latin-1, BMP and astral characters', '<p>caf\u00e9 \u20ac \U0001F600 \u4e2d</p>'), ('ASCII only', '<p>plain &amp; simple</p>')]
    for on in (True, False):
        for label, page in pages:
            doc = A.Obj('document', {'config': {'files': {'escape-high-chars': on}}})
            me = A.Obj('renderer', {}, cls=PTc)
            key = '%s, escaping %s' % (label, 'on' if on else 'off')
            it = A.Interp(model=m, scope=fn, hooks=H(m, PTc), max_iter=len(page) + 4, exc_edges=False, inline=6, heap=True, precise_exc=True)
            outs = it.run_function(fn, env={'self': me, 'document': doc, 's': page})
            if it.imprecise or it.unknown_branches:
                chk.undecided(R, key, '; '.join((it.imprecise + it.unknown_branches)[:3]), chk.where(fn))
                continue
            got = set()
            for kind, s2, v in outs:
                if kind != 'return' or not isinstance(v, str):
                    got.add('%s %r' % (kind, v))
                elif on:
                    got.add('pure ASCII, same text' if v.isascii() and _html.unescape(v) == _html.unescape(page) else 'gives %r' % v)
                else:
                    got.add('unchanged' if v == page else 'gives %r' % v)
            chk.decide(R, key, got, {'pure ASCII, same text' if on else 'unchanged'},
                       'the page %r comes back as %s' % (page, sorted(got)), chk.where(fn))


def fragment_builders(m):
    """Names of methods/properties of macro classes that build a fragment containing plain strings
    (their items can be text nodes, which jinja2 prints without the escaping hook)."""
    out = {}
    for fn in E.all_functions(m):
        if fn.cls is None:
            continue
        src_calls = [M.call_name(c) for c in M.calls_in(fn.node)]
        if not any(c.endswith('createDocumentFragment') for c in src_calls):
            continue
        strs = [c for c in M.calls_in(fn.node) if isinstance(c.func, ast.Attribute) and c.func.attr in ('append', 'extend', 'insert')
                and c.args and (isinstance(c.args[-1], ast.Constant) and isinstance(c.args[-1].value, str) or 'postnote' in text(c.args[-1])
                                or 'prenote' in text(c.args[-1]) or 'separator' in text(c.args[-1]))]
        if strs:
            out.setdefault(fn.name, []).append(fn)
    return out


def r126(chk, m):
    R = chk.rule('R12.6', 'template loops over a fragment that can contain plain text nodes (built by a macro method that appends '
                 'strings, e.g. citation()) print such items through an escaping filter: jinja2 prints str objects as they are, '
                 'bypassing the text hook', 2)
    from jinja2 import nodes as N
    builders = fragment_builders(m)
    need('citation' in builders, 'no fragment-building macro method found (citation)')
    files = [f for f in T.template_files(REPO, 'HTML5') if f.endswith(('.jinja2', '.jinja2s'))]
    n = 0
    for f in files:
        for tpl in T.split_templates(f):
            try:
                occ, st = T.analyse_jinja(tpl)
            except SyntaxError:
                continue
            for o in occ:
                inner, filters = T.filters_of(o.node)
                if not isinstance(inner, N.Name) or inner.name not in o.loopvars:
                    continue
                it = o.loopvars[inner.name]
                meth = None
                if isinstance(it, N.Call) and isinstance(it.node, N.Getattr):
                    meth = it.node.attr
                elif isinstance(it, N.Getattr):
                    meth = it.attr
                if meth not in builders:
                    continue
                n += 1
                v = inner.name
                escaped = bool(filters) and filters[-1] in ESCAPING
                not_string = any(t == '%s is string' % v and pol is False for t, pol in o.guards)
                is_element = any(pol and re.match(r'\(?%s\.\w+' % re.escape(v), t) for t, pol in o.guards)
                chk.verdict(R, '%s :: {{ %s }} over %s()' % (tpl.key, T.expr_text(o.node), meth), escaped or not_string or is_element,
                            '%s prints {{ %s }} for every item of %s(), whose items include plain text nodes (str objects): they '
                            'reach the page without escaping (e.g. the text of \\cite[p. <b>]{k})' % (tpl.key, T.expr_text(o.node), meth),
                            '%s:%d' % (f.replace(REPO + '/', ''), o.line), 'guards %s filters %s' % (list(o.guards), filters))
    need(n >= 2, 'no template loop over a fragment-building method found')
