"""C12 - Rendered HTML never turns document text into markup.

R12.1 the escaping hook, R12.2 the render recursion routes text through it,
R12.3 who may bypass it, R12.4 template contexts (HTML5 jinja2 templates and
layouts; XHTML ZPT templates + the escaping facts of the ZPT engine),
R12.5 high-character escaping."""
import ast
import os
import re

from .. import effects as E
from .. import model as M
from .. import templates as T
from ..report import AnalysisError, need, REPO
from ..util import text

PT = 'plasTeX.Renderers.PageTemplate'

# templates of the reference tree that jinja2 cannot parse (never rendered successfully either)
UNPARSABLE = {
    'FontSelection.jinja2s:symbol': "lacks {% endif %}",
    'minitoc.jinja2s:-minitoc': "uses an unknown tag",
}

# expressions whose value is a document node rendered through the hook (escaped & < > only)
TITLE_ATTRS = {'title', 'fullTitle', 'tocEntry', 'fullTocEntry', 'caption', 'captionName'}
RAW_ATTRS = {'textContent', 'source', 'childrenSource'}
ESCAPING = {'e', 'escape', 'forceescape', 'urlencode', 'tojson'}
UNESCAPING = {'striptags'}

# node-valued expressions in attribute context that are not text-bearing positions of this property
ATTR_NODE_ALLOWED = {
    ('url.jinja2s:-url', 'a@href', 'obj'): 'url-typed argument of \\url (url package); not a text position of C12',
    ('hyperref.jinja2s:url', 'a@href', '(obj.attributes.url or obj)'): 'url-typed argument of \\url (hyperref); not a text position of C12',
}


def check(chk):
    m = chk.model
    r121(chk, m)
    r122(chk, m)
    r123(chk, m)
    r124_jinja(chk, m)
    r124_zpt(chk, m)
    r126(chk, m)
    r125(chk, m)
    chk.decline('the decoded text of whole rendered pages (runtime); regex-level reasoning about the image-attribute '
                'post-processing (one exotic case noted in DESIGN.md)')


def r121(chk, m):
    R = chk.rule('R12.1', 'the escaping hook: on the non-markup path the text passes through & -> &amp; first, then < and >; the hook '
                 'is a pure function of the text node (no state kept between calls)', 2)
    fn = m.func(PT, 'PageTemplate.textDefault')
    chk.analysed(fn)
    guard = [n for n in fn.node.body if isinstance(n, ast.If)]
    ok = len(guard) == 1 and text(guard[0].test).replace(' ', '') in ("notgetattr(node,'isMarkup',None)",)
    reps = []
    if ok:
        for s in guard[0].body:
            if isinstance(s, ast.Assign) and text(s.targets[0]) == 'node' and isinstance(s.value, ast.Call) and M.call_name(s.value) == 'node.replace':
                reps.append(tuple(m.eval_const(fn, a) for a in s.value.args))
    want = [('&', '&amp;'), ('<', '&lt;'), ('>', '&gt;')]
    chk.verdict(R, 'textDefault escapes & first, then < and >', ok and reps[:1] == want[:1] and sorted(reps) == sorted(want) and
                text(fn.node.body[-1]) == 'return self.outputType(node)',
                'the non-markup path of textDefault performs the replacements %s (required: %s with & first)' % (reps, want), chk.where(fn), str(reps))
    state = [text(n) for n in M.walk_no_nested(fn.node) if isinstance(n, (ast.Assign, ast.AugAssign)) and
             any(re.match(r'self\.', text(t)) for t in (n.targets if isinstance(n, ast.Assign) else [n.target]))]
    reads = sorted({text(n) for n in M.walk_no_nested(fn.node) if isinstance(n, ast.Attribute) and text(n.value) == 'self'} - {'self.outputType'})
    chk.verdict(R, 'textDefault keeps no state', not state and not reads,
                'textDefault reads/writes renderer state (%s %s): a result cached by text value ignores the isMarkup flag of the node, so '
                'ordinary text equal to an earlier raw-HTML snippet is emitted unescaped' % (state, reads), chk.where(fn))


def r122(chk, m):
    R = chk.rule('R12.2', 'render recursion: every value that reaches the output of Renderable.__str__ is the result of the escaping '
                 'hook (text children, .str short-cuts) or of a renderer callable', 4)
    fn = m.func('plasTeX.Renderers', 'Renderable.__str__')
    chk.analysed(fn)
    apps = [c for c in M.calls_in(fn.node) if M.call_name(c) == 's.append']
    need(len(apps) >= 3, 'Renderable.__str__: output accumulation not found')
    for c in apps:
        a = text(c.args[0])
        ok = a in ('r.textDefault(child)', 'r.textDefault(uni)', 'val')
        chk.verdict(R, '__str__ appends %s' % a, ok,
                    'Renderable.__str__ appends %s to the output: text must go through r.textDefault' % a, chk.where(fn, c))
    rets = [text(r.value) for r in M.walk_no_nested(fn.node) if isinstance(r, ast.Return) and r.value is not None]
    ok = sorted(rets) == sorted(["r.outputType(r.textDefault(uni))", "''", "r.outputType(''.join(s))"])
    chk.verdict(R, '__str__ return values', ok, 'Renderable.__str__ returns %s' % rets, chk.where(fn))
    vals = [text(n.value) for n in M.walk_no_nested(fn.node) if isinstance(n, ast.Assign) and text(n.targets[0]) == 'val']
    ok = set(vals) <= {'func(child)', 'str(val)', 'func(StaticNode(child, val))'} and 'func(child)' in vals
    chk.verdict(R, 'rendered value comes from a renderer callable', ok, 'val is assigned from %s' % vals, chk.where(fn))
    br = m.cls('plasTeX.Renderers', 'Renderer')
    dflt = {k: text(v[-1]) for k, v in br.assigns.items() if k in ('textDefault', 'default', 'outputType')}
    chk.note('base Renderer defaults: %s (PageTemplate overrides textDefault)' % dflt)


def r123(chk, m):
    R = chk.rule('R12.3', 'who may bypass the hook: isMarkup = True is set only by the raw-HTML packages (embed, html)', 3)
    allowed = {'plasTeX.Packages.embed', 'plasTeX.Packages.html'}
    n = 0
    for mod in m.modules.values():
        for node in ast.walk(mod.tree):
            if isinstance(node, ast.Assign) and any(isinstance(t, ast.Attribute) and t.attr == 'isMarkup' for t in node.targets):
                v = m.eval_const(mod, node.value)
                if v is False or v is None:
                    continue
                n += 1
                chk.files.add(mod.path.replace(REPO + '/', ''))
                chk.verdict(R, '%s sets isMarkup' % mod.name, mod.name in allowed,
                            '%s marks text as markup (%s): only the raw-HTML packages may exempt text from escaping' % (mod.name, text(node)),
                            '%s:%d' % (mod.path.replace(REPO + '/', ''), node.lineno))
            if isinstance(node, ast.Call) and M.call_name(node) == 'setattr' and len(node.args) >= 2 and text(node.args[1]) in ("'isMarkup'", '"isMarkup"'):
                n += 1
                chk.verdict(R, '%s sets isMarkup' % mod.name, mod.name in allowed, '%s sets isMarkup through setattr' % mod.name,
                            '%s:%d' % (mod.path.replace(REPO + '/', ''), node.lineno))
    need(n >= 3, 'isMarkup writers not found (%d)' % n)


# ---------------------------------------------------------------------------
def classify(node):
    """(kind, filters) of a jinja2 output expression.  kind in RAW / NODE / OTHER."""
    from jinja2 import nodes as N
    inner, filters = T.filters_of(node)
    alts = []

    def leaves(n):
        if isinstance(n, (N.Or, N.And)):
            leaves(n.left)
            leaves(n.right)
        elif isinstance(n, N.CondExpr):
            leaves(n.expr1)
            if n.expr2 is not None:
                leaves(n.expr2)
        else:
            alts.append(n)
    leaves(inner)
    kinds = set()
    for a in alts:
        a2, f2 = T.filters_of(a)
        if isinstance(a2, N.Getattr) and a2.attr in RAW_ATTRS:
            # X.ref.textContent is the automatically generated number of X, not document text
            auto = isinstance(a2.node, N.Getattr) and a2.node.attr == 'ref'
            kinds.add('RAW' if not (f2 and f2[-1] in ESCAPING) and not auto else 'OTHER')
        elif isinstance(a2, N.Getattr) and a2.attr in TITLE_ATTRS:
            kinds.add('NODE' if not f2 else ('RAW' if any(x in UNESCAPING for x in f2) and f2[-1] not in ESCAPING else 'OTHER'))
        elif isinstance(a2, N.Name) and a2.name in ('obj', 'here', 'item', 'cell', 'row', 'node', 'child'):
            kinds.add('NODE')
        else:
            kinds.add('OTHER')
    kind = 'RAW' if 'RAW' in kinds else ('NODE' if 'NODE' in kinds else 'OTHER')
    return kind, filters


def verdict_for(kind, filters, ctx):
    """None if fine, else a message."""
    esc_last = bool(filters) and filters[-1] in ESCAPING
    unesc = [i for i, f in enumerate(filters) if f in UNESCAPING]
    esc_after_unesc = bool(unesc) and any(f in ESCAPING for f in filters[unesc[-1] + 1:])
    if unesc and not esc_after_unesc:
        return 'the filter striptags un-escapes entities and is not followed by an escaping filter'
    if kind == 'RAW' and not esc_last:
        return 'raw, unescaped document text (.textContent/.source) is emitted without an escaping filter'
    if ctx in ('attr-quoted',) and kind == 'NODE' and not esc_last:
        return 'a rendered node is placed in an attribute value without `| e` (the text hook does not escape quotes)'
    if ctx in ('attr-unquoted', 'tag') and kind in ('NODE', 'RAW'):
        return 'document text is placed in an unquoted attribute / tag position'
    if ctx in ('rawtext', 'comment') and kind in ('NODE', 'RAW') and not (filters and filters[-1] == 'tojson'):
        return 'document text is placed inside <script>/<style>/a comment'
    return None


def r124_jinja(chk, m):
    R = chk.rule('R12.4', 'template contexts: text-bearing expressions (rendered nodes, titles, captions; raw accessors .textContent / '
                 '.source; striptags) are emitted in element content only as rendered nodes or through an escaping filter, and in '
                 'attribute values only through `| e`', 300)
    files = [f for f in T.template_files(REPO, 'HTML5') if f.endswith(('.jinja2', '.jinja2s'))]
    need(len(files) >= 45, 'only %d HTML5 jinja2 template files found' % len(files))
    n_tpl = n_occ = 0
    unparsable = set()
    for f in files:
        chk.files.add(f.replace(REPO + '/', ''))
        for tpl in T.split_templates(f):
            try:
                occ, st = T.analyse_jinja(tpl)
            except SyntaxError as e:
                if tpl.key in UNPARSABLE:
                    unparsable.add(tpl.key)
                    continue
                raise AnalysisError('template does not parse: %s' % e)
            if st.state != 'DATA':
                raise AnalysisError('%s ends inside markup (%s): context tracking lost' % (tpl.key, st.state))
            n_tpl += 1
            chk.analysed('template ' + tpl.key)
            for o in occ:
                n_occ += 1
                kind, filters = classify(o.node)
                et = T.expr_text(o.node)
                key = '%s :: %s %s :: %s' % (tpl.key, o.ctx, o.detail or '', et)
                where = '%s:%d (template %s)' % (f.replace(REPO + '/', ''), o.line, tpl.names[0] if tpl.names else '?')
                msg = verdict_for(kind, filters, o.ctx)
                if msg and (tpl.key, o.detail, et) in ATTR_NODE_ALLOWED and kind == 'NODE':
                    chk.ok(R, key, 'tabled: ' + ATTR_NODE_ALLOWED[(tpl.key, o.detail, et)])
                    continue
                chk.verdict(R, key, msg is None,
                            '%s emits {{ %s }} in %s context%s: %s - characters of the document (quotes, <, &) become markup'
                            % (tpl.key, et, o.ctx, ' (%s)' % o.detail if o.detail else '', msg), where, '%s %s' % (kind, filters))
    chk.call_sites += n_occ
    chk.note('HTML5: %d templates, %d output expressions; unparsable (frozen skip table): %s' % (n_tpl, n_occ, sorted(unparsable)))


def r124_zpt(chk, m):
    R = chk.rule('R12.4z', 'XHTML/ZPT: the engine escapes every attribute value and every non-structure str content (checked in '
                 'simpleTAL.py); templates never combine `structure` with a raw text accessor', 100)
    mod = m.module('plasTeX.Renderers.PageTemplate.simpletal.simpleTAL')
    chk.files.add(mod.path.replace(REPO + '/', ''))
    # fact 1: tagAsText escapes attribute values with quote=1
    tag_fns = [n for n in ast.walk(mod.tree) if isinstance(n, ast.FunctionDef) and n.name == 'tagAsText']
    need(tag_fns, 'simpleTAL.tagAsText not found')
    ok = all(any(isinstance(c, ast.Call) and M.call_name(c) == 'html.escape' and any(k.arg == 'quote' and text(k.value) in ('1', 'True') for k in c.keywords)
                 for c in ast.walk(f)) for f in tag_fns)
    chk.verdict(R, 'simpleTAL.tagAsText escapes attribute values (quote=1)', ok, 'attribute values must be written through html.escape(value, quote=1)', mod.path.replace(REPO + '/', ''))
    # fact 2: non-structure str content escaped
    end = [n for n in ast.walk(mod.tree) if isinstance(n, ast.FunctionDef) and n.name == 'cmdEndTagEndScope']
    need(end, 'simpleTAL.cmdEndTagEndScope not found')
    src = text(end[0])
    ok = re.search(r'if isinstance\(resultVal, str\): self\.file\.write\(html\.escape\(resultVal, quote=False\)\)', src.replace('\n', ' ')) is not None
    chk.verdict(R, 'simpleTAL escapes non-structure text content', ok, 'non-structure str content must be written through html.escape', mod.path.replace(REPO + '/', ''))
    # templates
    files = [f for f in T.template_files(REPO, 'XHTML') if f.endswith(('.zpt', '.zpts', '.html', '.htm'))]
    need(len(files) >= 30, 'only %d XHTML template files found' % len(files))
    n = 0
    for f in files:
        chk.files.add(f.replace(REPO + '/', ''))
        for tpl in T.split_templates(f):
            for o in T.analyse_zpt(tpl):
                n += 1
                raw = re.search(r'(textContent|source|childrenSource)\s*$', o.expr) is not None or 'stripped:' in o.expr
                bad = o.structure and raw
                chk.verdict(R, '%s :: <%s> %s %s' % (tpl.key, o.tag, o.kind, o.expr), not bad,
                            '%s inserts `structure %s`: raw document text written without escaping' % (tpl.key, o.expr),
                            '%s:%d' % (f.replace(REPO + '/', ''), o.line), 'structure' if o.structure else 'escaped by the engine')
    chk.call_sites += n
    chk.note('XHTML: %d TAL expressions' % n)


def r125(chk, m):
    R = chk.rule('R12.5', 'high-character escaping replaces every character above 127 (all planes) by the numeric reference of its '
                 'code point and nothing else', 1)
    fn = m.func(PT, 'PageTemplate.processFileContent')
    chk.analysed(fn)
    blk = [n for n in M.walk_no_nested(fn.node) if isinstance(n, ast.If) and 'escape-high-chars' in text(n.test)]
    need(len(blk) == 1, 'processFileContent: escape-high-chars block not found')
    src = ' '.join(text(s) for s in blk[0].body)
    loop = re.search(r"for i, item in enumerate\(s\): if ord\(item\) > 127: s\[i\] = '&#%\.?\d*d;' % ord\(item\)", src.replace('\n', ' ')) is not None
    rx_all = re.search(r"re\.sub\(r?['\"]\[\^\\x00-\\x7[fF]\]['\"]", src) is not None or re.search(r"\\U0010[fF]{4}", src) is not None
    rx_bmp = 're.sub' in src and re.search(r'\\uffff|\\uFFFF', src) is not None and not rx_all
    if not (loop or rx_all or rx_bmp):
        raise AnalysisError('processFileContent: unrecognised high-character escaping idiom: %s' % src[:120])
    chk.verdict(R, 'escape-high-chars covers every code point above 127', (loop or rx_all) and not rx_bmp,
                'high characters are replaced by %r: characters above U+FFFF stay raw, so the output is not pure ASCII' % src[:100], chk.where(fn, blk[0]))


def fragment_builders(m):
    """Names of methods/properties of macro classes that build a fragment containing plain strings
    (their items can be text nodes, which jinja2 prints without the escaping hook)."""
    out = {}
    for fn in E.all_functions(m):
        if fn.cls is None:
            continue
        src_calls = [M.call_name(c) for c in M.calls_in(fn.node)]
        if not any(c.endswith('createDocumentFragment') for c in src_calls):
            continue
        strs = [c for c in M.calls_in(fn.node) if isinstance(c.func, ast.Attribute) and c.func.attr in ('append', 'extend', 'insert')
                and c.args and (isinstance(c.args[-1], ast.Constant) and isinstance(c.args[-1].value, str) or 'postnote' in text(c.args[-1])
                                or 'prenote' in text(c.args[-1]) or 'separator' in text(c.args[-1]))]
        if strs:
            out.setdefault(fn.name, []).append(fn)
    return out


def r126(chk, m):
    R = chk.rule('R12.6', 'template loops over a fragment that can contain plain text nodes (built by a macro method that appends '
                 'strings, e.g. citation()) print such items through an escaping filter: jinja2 prints str objects as they are, '
                 'bypassing the text hook', 2)
    from jinja2 import nodes as N
    builders = fragment_builders(m)
    need('citation' in builders, 'no fragment-building macro method found (citation)')
    files = [f for f in T.template_files(REPO, 'HTML5') if f.endswith(('.jinja2', '.jinja2s'))]
    n = 0
    for f in files:
        for tpl in T.split_templates(f):
            try:
                occ, st = T.analyse_jinja(tpl)
            except SyntaxError:
                continue
            for o in occ:
                inner, filters = T.filters_of(o.node)
                if not isinstance(inner, N.Name) or inner.name not in o.loopvars:
                    continue
                it = o.loopvars[inner.name]
                meth = None
                if isinstance(it, N.Call) and isinstance(it.node, N.Getattr):
                    meth = it.node.attr
                elif isinstance(it, N.Getattr):
                    meth = it.attr
                if meth not in builders:
                    continue
                n += 1
                v = inner.name
                escaped = bool(filters) and filters[-1] in ESCAPING
                not_string = any(t == '%s is string' % v and pol is False for t, pol in o.guards)
                is_element = any(pol and re.match(r'\(?%s\.\w+' % re.escape(v), t) for t, pol in o.guards)
                chk.verdict(R, '%s :: {{ %s }} over %s()' % (tpl.key, T.expr_text(o.node), meth), escaped or not_string or is_element,
                            '%s prints {{ %s }} for every item of %s(), whose items include plain text nodes (str objects): they '
                            'reach the page without escaping (e.g. the text of \\cite[p. <b>]{k})' % (tpl.key, T.expr_text(o.node), meth),
                            '%s:%d' % (f.replace(REPO + '/', ''), o.line), 'guards %s filters %s' % (list(o.guards), filters))
    need(n >= 2, 'no template loop over a fragment-building method found')
