"""C19 - ifthen tests evaluate as the boolean expression they spell.

R19.1 precedence table (partial evaluation of prec per operator class) and the
prefix-operator rule, R19.2 operator-set / arity / comparison agreement,
R19.3 branch selection of ifthenelse and loop shape of whiledo, R19.4 atoms,
R19.5 the evaluator, interpreted abstractly over token kinds, agrees with the
reference semantics on every well-formed expression up to a size bound."""
import ast
import itertools
import re

from .. import absint as A
from .. import model as M
from ..report import AnalysisError, need
from ..util import SelfHooks, text

MOD = 'plasTeX.Packages.ifthen'


def check(chk):
    m = chk.model
    r191(chk, m)
    r192(chk, m)
    r193(chk, m)
    r194(chk, m)
    r195(chk, m)
    from . import shared, c04
    shared.sign_rules(chk, m, 'R19.6')
    c04.chain_rules(chk, m, 'R19.7')
    chk.decline('evaluation of concrete operands (macro-produced numbers, lengths in mixed units); expressions beyond the size bound')


def tok(kind, label=None):
    attrs = {'kind': kind, 'catcode': 0, 'distinct': True}
    if kind == 'T':
        attrs.update(state=True)
    elif kind == 'F':
        attrs.update(state=False)
    attrs['nodeName'] = {'(': '(', ')': ')', 'and': 'and', 'or': 'or', 'not': 'not', 'AND': 'AND', 'OR': 'OR', 'NOT': 'NOT'}.get(kind, '#text')
    return A.Sym(label or kind, truthy=True, attrs=attrs)


KIND_CLASSES = {'and': '_and', 'or': '_or', 'not': '_not', 'AND': 'AND', 'OR': 'OR', 'NOT': 'NOT', 'T': '_true', 'F': '_false'}


class EvHooks(SelfHooks):
    def __init__(self, model, cls, tokens=()):
        SelfHooks.__init__(self, model, cls)
        self.tokens = list(tokens)
        self.mod = model.module(MOD)

    def _isinst(self, v, target):
        targets = target if isinstance(target, tuple) else (target,)
        if isinstance(v, A.Sym) and 'kind' in v.attrs:
            cn = KIND_CLASSES.get(v.attrs['kind'])
            if cn is None:
                return False
            c = self.mod.classes[cn]
            return any(isinstance(t, M.ClassInfo) and self.model.is_subclass(c, t) for t in targets)
        if isinstance(v, A.Inst):
            return any(isinstance(t, M.ClassInfo) and self.model.is_subclass(v.cls, t) for t in targets)
        return None

    def call(self, interp, node, fname, args, kwargs, state):
        if fname == 'isinstance' and len(args) == 2:
            return self._isinst(args[0], args[1])
        if fname == 'iter' and len(args) == 1:
            return A.Sym('testiter')
        if fname == 'next' and args and isinstance(args[0], A.Sym) and args[0].label == 'testiter':
            pos = state.env.get('__pos', 0)
            if pos >= len(self.tokens):
                return args[1] if len(args) > 1 else A.TOP
            state.env['__pos'] = pos + 1
            return self.tokens[pos]
        if fname == 'Space':
            return A.Sym('SPACE', truthy=True, attrs={'catcode': 10, 'nodeName': '#text', 'kind': 'space'})
        if fname in ('_true', '_false'):
            return tok('T' if fname == '_true' else 'F')
        if fname == 'self.prec' and len(args) == 1:
            return run_prec(self.model, self.cls, args[0])
        return None

    def iter_item(self, interp, loop, k, state):
        it = interp.ev(loop.iter, state)
        if isinstance(it, A.Sym) and it.label == 'testiter':
            pos = state.env.get('__pos', 0)
            if pos >= len(self.tokens):
                return A.STOP
            state.env['__pos'] = pos + 1
            return self.tokens[pos]
        return None

    def decide(self, interp, test, state):
        # tok in ['>', '<', '=']  for abstract tokens
        if isinstance(test, ast.Compare) and len(test.ops) == 1 and isinstance(test.ops[0], (ast.In, ast.NotIn, ast.Eq)):
            l = interp.ev(test.left, state)
            r = interp.ev(test.comparators[0], state)
            if isinstance(l, A.Sym) and 'kind' in l.attrs and (isinstance(r, (list, tuple)) and all(isinstance(x, str) for x in r) or isinstance(r, str)):
                k = l.attrs['kind']
                if isinstance(test.ops[0], ast.Eq):
                    return k == r
                res = k in r
                return res if isinstance(test.ops[0], ast.In) else not res
        return None

    def keep(self, ev):
        return False


_PREC = {}


def run_prec(m, cls, t):
    key = t.attrs.get('kind') if isinstance(t, A.Sym) else repr(t)
    if key in _PREC:
        return _PREC[key]
    fn = m.find_method(cls, 'prec')
    it = A.Interp(model=m, scope=fn, hooks=EvHooks(m, cls), max_iter=1, exc_edges=False)
    outs = it.run_function(fn, env={'tok': t})
    vals = {repr(v) for kind, s, v in outs if kind == 'return'}
    need(len(vals) == 1, 'prec(%s) is not single-valued: %s' % (key, vals))
    v = [v for kind, s, v in outs if kind == 'return'][0]
    need(isinstance(v, int), 'prec(%s) does not fold to an integer' % key)
    _PREC[key] = v
    return v


def r191(chk, m):
    R = chk.rule('R19.1', 'precedence: comparison > \\not > \\and = \\or > everything else; an incoming prefix operator (\\not) never '
                 'pops waiting operators', 6)
    cls = m.cls(MOD, 'ifthenelse')
    fn = m.find_method(cls, 'prec')
    chk.analysed(fn)
    p = {k: run_prec(m, cls, tok(k)) for k in ('<', '>', '=', 'not', 'NOT', 'and', 'AND', 'or', 'OR', '(', 'T')}
    chk.verdict(R, 'comparisons share one level', p['<'] == p['>'] == p['='], 'prec of < > = : %s' % [p['<'], p['>'], p['=']], chk.where(fn), str(p))
    chk.verdict(R, '\\not binds tighter than \\and/\\or, looser than comparisons', p['<'] > p['not'] > p['and'] and p['not'] == p['NOT'],
                'prec(comparison)=%d, prec(\\not)=%d/%d, prec(\\and)=%d: \\not must sit strictly between' % (p['<'], p['not'], p['NOT'], p['and']), chk.where(fn))
    chk.verdict(R, '\\and and \\or have equal precedence', p['and'] == p['or'] == p['AND'] == p['OR'],
                'prec(\\and)=%d prec(\\or)=%d prec(\\AND)=%d prec(\\OR)=%d: they must be equal (left to right evaluation)'
                % (p['and'], p['or'], p['AND'], p['OR']), chk.where(fn))
    chk.verdict(R, 'parentheses and operands rank below every operator', p['('] < p['and'] and p['T'] < p['and'],
                'prec(\'(\')=%d prec(operand)=%d must be below prec(\\and)=%d' % (p['('], p['T'], p['and']), chk.where(fn))
    ev = m.find_method(cls, 'evaluate')
    chk.analysed(ev)
    pops = [n for n in M.walk_no_nested(ev.node) if isinstance(n, ast.While) and 'self.prec(tok)' in text(n.test)]
    need(len(pops) == 1, 'evaluate: operator-popping loop not found')
    w = pops[0]
    from .c06 import guard_chain
    g = guard_chain(ev.node, w)
    strict = re.search(r'self\.prec\(tok\) < self\.prec\(stack\[-1\]\)', text(w.test)) is not None
    guarded = any(re.fullmatch(r'not isinstance\(tok, \(_not, NOT\)\)|not isinstance\(tok, \(NOT, _not\)\)', x) for x in g)
    chk.verdict(R, 'an incoming \\not does not pop', guarded or strict,
                'the popping loop `%s` runs for an incoming \\not as for a binary operator (guards %s): "A \\and \\not B" would apply '
                '\\and before its second operand exists' % (text(w.test), g), chk.where(ev, w))
    lassoc = re.search(r'self\.prec\(tok\) <= self\.prec\(stack\[-1\]\)', text(w.test)) is not None
    chk.verdict(R, 'binary operators of equal precedence associate to the left', lassoc or strict is False and lassoc,
                'the popping test must be <= so that equal-precedence operators evaluate left to right: %s' % text(w.test), chk.where(ev, w))


def r192(chk, m):
    R = chk.rule('R19.2', 'operator-set agreement: the classes known to prec are exactly those handled by the evaluation chain; \\and '
                 'and \\or pop two booleans, \\not one; < > = pop second then first operand and compare first OP second', 6)
    cls = m.cls(MOD, 'ifthenelse')
    ev = m.find_method(cls, 'evaluate')
    pr = m.find_method(cls, 'prec')

    def inst_classes(fn):
        out = set()
        for c in M.calls_in(fn.node):
            if M.call_name(c) == 'isinstance' and len(c.args) == 2 and text(c.args[0]) == 'tok':
                t = c.args[1]
                for e in (t.elts if isinstance(t, ast.Tuple) else [t]):
                    out.add(text(e))
        return out
    known = inst_classes(pr)
    handled = inst_classes(ev) - {'_boolToken', 'number'}
    chk.verdict(R, 'prec and evaluate know the same operator classes', known == handled and known == {'_and', 'AND', '_or', 'OR', '_not', 'NOT'},
                'prec ranks %s, the evaluation chain handles %s' % (sorted(known), sorted(handled)), chk.where(ev))
    # evaluation arms
    chain = [n for n in M.walk_no_nested(ev.node) if isinstance(n, ast.If)]
    arms = {}
    for n in chain:
        t = text(n.test)
        for key, rx in (('and', r'isinstance\(tok, \(_and, AND\)\)'), ('or', r'isinstance\(tok, \(_or, OR\)\)'), ('not', r'isinstance\(tok, \(_not, NOT\)\)'),
                        ('>', r"tok == '>'"), ('<', r"tok == '<'"), ('=', r"tok == '='")):
            if re.fullmatch(rx, t):
                arms[key] = n
    for key, npop, expr in (('and', 2, 'op1.state and op2.state'), ('or', 2, 'op1.state or op2.state'), ('not', 1, None)):
        n = arms.get(key)
        ok = False
        if n is not None:
            pops = [text(s) for s in n.body if isinstance(s, ast.Assign) and text(s.value) == 'stack.pop()']
            src = ' '.join(text(s) for s in n.body)
            if key == 'not':
                ok = len(pops) == 1 and '_false() if op1.state else _true()' in src
            else:
                ok = len(pops) == 2 and ('_true() if %s else _false()' % expr) in src
        chk.verdict(R, 'evaluation arm \\%s' % key, ok, 'the \\%s arm must pop %d boolean(s) and push %s' % (key, npop, expr or 'the negation'), chk.where(ev))
    for key, op in (('>', '>'), ('<', '<'), ('=', '==')):
        n = arms.get(key)
        ok = False
        if n is not None:
            pops = [text(s.targets[0]) for s in n.body if isinstance(s, ast.Assign) and text(s.value) == 'stack.pop()']
            src = ' '.join(text(s) for s in n.body)
            ok = pops == ['op2', 'op1'] and ('_true() if op1 %s op2 else _false()' % op) in src
        chk.verdict(R, 'evaluation arm %s' % key, ok, 'the %s arm must pop the second operand first and test op1 %s op2' % (key, op), chk.where(ev))


def r193(chk, m):
    R = chk.rule('R19.3', 'branch selection: ifthenelse returns the then-tokens iff the value is true (also when they are empty) and '
                 'the else-tokens otherwise; whiledo re-expands and re-evaluates the test before every iteration, leaves exactly when it '
                 'is false, and appends the body once per iteration', 6)
    cls = m.cls(MOD, 'ifthenelse')
    fn = m.find_method(cls, 'invoke')
    chk.analysed(fn)
    THEN, ELSE = A.Sym('THEN-TOKENS', truthy=True), A.Sym('ELSE-TOKENS', truthy=True)
    for state in (True, False):
        for then_v, label in ((THEN, 'non-empty then'), ([], 'empty then')):
            for else_v, l2 in ((ELSE, 'non-empty else'), ([], 'empty else')):
                class H(SelfHooks):
                    def call(self, interp, node, fname, args, kwargs, st):
                        if fname == 'self.parse':
                            return {'test': A.Sym('TEST', truthy=True), 'then': then_v, 'else': else_v}
                        if fname == 'self.evaluate':
                            return A.Sym('RESULT', truthy=True, attrs={'state': state})
                        if fname == 'isinstance':
                            return False
                        return None
                it = A.Interp(model=m, scope=fn, hooks=H(m, cls), max_iter=1, exc_edges=False)
                outs = it.run_function(fn)
                got = [v for kind, s, v in outs if kind == 'return']
                want = then_v if state else else_v
                ok = len(got) >= 1 and all((g is want) or (g == want and isinstance(want, list)) for g in got)
                chk.verdict(R, 'ifthenelse: value %s, %s, %s' % (state, label, l2), ok,
                            'with the test %s, %s and %s, invoke returns %s; expected the %s-branch' % (state, label, l2, got, 'then' if state else 'else'),
                            chk.where(fn), str(got))
    w = m.find_method(m.cls(MOD, 'whiledo'), 'invoke')
    chk.analysed(w)
    loops = [n for n in M.walk_no_nested(w.node) if isinstance(n, (ast.While, ast.For))]
    ok = len(loops) == 1 and isinstance(loops[0], ast.While) and text(loops[0].test) == 'True'
    exits = [n for n in ast.walk(loops[0]) if isinstance(n, (ast.Break, ast.Return, ast.Raise))] if loops else []
    from .c06 import guard_chain
    from .c07 import parent_stmt
    eg = [guard_chain(w.node, e) for e in exits]
    body = [text(s) for s in loops[0].body] if loops else []
    ok = ok and eg == [['not test_result.state']]
    idx = lambda pred: next((i for i, s in enumerate(body) if pred(s)), None)
    i_exp = idx(lambda s: s.startswith('expanded = tex.expandTokens(a[\'test\']'))
    i_brk = idx(lambda s: s.startswith('if not test_result.state'))
    i_app = idx(lambda s: s.startswith("tok += tex.expandTokens(a['operations']"))
    ok = ok and None not in (i_exp, i_brk, i_app) and i_exp < i_brk < i_app and i_app == len(body) - 1
    stores = [text(n) for n in M.walk_no_nested(w.node) if isinstance(n, (ast.Assign, ast.AugAssign)) and
              re.match(r'(type\(self\)|whiledo|self\.__class__|cls)\.', text(n.targets[0] if isinstance(n, ast.Assign) else n.target))]
    chk.verdict(R, 'whiledo loop shape', ok and not stores,
                'whiledo.invoke must loop `while True`: expand+evaluate the test, break exactly under `not test_result.state`, append the '
                'expanded body last; found exits under %s, body %s, class-level stores %s' % (eg, [b[:40] for b in body], stores), chk.where(w))


def r194(chk, m):
    R = chk.rule('R19.4', 'atoms produce a true/false token consistently with their test: isodd (n % 2 == 1), equal (==), isundefined '
                 '(absent -> true), boolean (the switch state), lengthtest (< > and = within a tolerance)', 5)
    def arms(fn):
        out = []
        for n in M.walk_no_nested(fn.node):
            if isinstance(n, ast.If):
                t = [text(r.value) for s in n.body for r in ast.walk(s) if isinstance(r, ast.Return)]
                e = [text(r.value) for s in n.orelse for r in ast.walk(s) if isinstance(r, ast.Return)]
                out.append((text(n.test), t, e))
        return out
    spec = {
        'isodd': lambda a: any(re.search(r"a\['number'\] % 2 == 1", t) and tr == ['[_true()]'] and el == ['[_false()]'] for t, tr, el in a),
        'equal': lambda a: any(t == "a['first'] == a['second']" and tr == ['[_true()]'] and el == ['[_false()]'] for t, tr, el in a),
        'isundefined': lambda a: any(t == "a['name'] in self.ownerDocument.context" and tr == ['[_false()]'] and el == ['[_true()]'] for t, tr, el in a),
        'boolean': lambda a: any(t == "self.ownerDocument.context[a['name']].state" and tr == ['[_true()]'] and el == ['[_false()]'] for t, tr, el in a),
    }
    for name, pred in spec.items():
        fn = m.find_method(m.cls(MOD, name), 'invoke')
        chk.analysed(fn)
        a = arms(fn)
        chk.verdict(R, 'atom \\%s' % name, pred(a), '\\%s maps its test to truth tokens as %s' % (name, a), chk.where(fn), str(a)[:200])
    fn = m.find_method(m.cls(MOD, 'lengthtest'), 'invoke')
    chk.analysed(fn)
    a = arms(fn)
    tab = {t: tr for t, tr, el in a}
    ok = tab.get("relation == '<'") == ['[_true() if a < b else _false()]'] and tab.get("relation == '>'") == ['[_true() if a > b else _false()]'] \
        and re.fullmatch(r'\[_true\(\) if abs\(a - b\) < [0-9.e-]+ else _false\(\)\]', (tab.get("relation == '='") or ['?'])[0]) is not None
    order = [text(n.value) for n in M.walk_no_nested(fn.node) if isinstance(n, ast.Assign) and text(n.targets[0]) in ('a', 'b')]
    chk.verdict(R, 'atom \\lengthtest', ok and order.count('tex.readDimen()') == 2,
                '\\lengthtest relation table %s (first-read a, second-read b)' % tab, chk.where(fn))


# ---------------------------------------------------------------------------
def reference(tokens):
    """Reference semantics of the property: \\not tightest, \\and/\\or equal precedence left to right, parentheses."""
    pos = [0]

    def peek():
        return tokens[pos[0]] if pos[0] < len(tokens) else None

    def operand():
        t = peek()
        if t == 'not':
            pos[0] += 1
            v = operand()
            return None if v is None else (not v)
        if t == '(':
            pos[0] += 1
            v = expr()
            if peek() != ')':
                return None
            pos[0] += 1
            return v
        if t in ('T', 'F'):
            pos[0] += 1
            return t == 'T'
        return None

    def expr():
        v = operand()
        while v is not None and peek() in ('and', 'or'):
            op = peek()
            pos[0] += 1
            r = operand()
            if r is None:
                return None
            v = (v and r) if op == 'and' else (v or r)
        return v
    v = expr()
    if v is None or pos[0] != len(tokens):
        return None
    return v


def r195(chk, m):
    R = chk.rule('R19.5', 'the evaluator (infix to postfix, then stack evaluation), interpreted abstractly over token kinds, returns the '
                 'value the reference semantics gives for every well-formed expression of up to 7 tokens over {true, false, \\and, '
                 '\\or, \\not, (, )}', 300)
    cls = m.cls(MOD, 'ifthenelse')
    fn = m.find_method(cls, 'evaluate')
    chk.analysed(fn)
    alphabet = ['T', 'F', 'and', 'or', 'not', '(', ')']
    n_bad = 0
    first_bad = []
    n = 0
    tier_max = 8 if chk.tier == 'thorough' else 6
    for L in range(1, tier_max + 1):
        for seq in itertools.product(alphabet, repeat=L):
            # normalise: only T-containing variety needed? keep all well-formed ones
            want = reference(list(seq))
            if want is None:
                continue
            n += 1
            toks = [tok(k, '%s%d' % (k, i)) for i, k in enumerate(seq)]
            it = A.Interp(model=m, scope=fn, hooks=EvHooks(m, cls, toks), max_iter=60, exc_edges=False, max_states=200000)
            try:
                outs = it.run_function(fn, env={'test': A.Sym('TEST'), 'tex': A.Sym('tex')})
            except AnalysisError as e:
                raise
            got = set()
            for kind, s, v in outs:
                if kind == 'return' and isinstance(v, A.Sym) and 'state' in v.attrs:
                    got.add(v.attrs['state'])
                else:
                    got.add('?%s' % kind)
            if got != {want}:
                n_bad += 1
                if len(first_bad) < 5:
                    first_bad.append('%s -> %s, expected %s' % (' '.join('\\' + k if k in ('and', 'or', 'not') else {'T': 'true', 'F': 'false'}.get(k, k) for k in seq),
                                                                 sorted(map(str, got)), want))
    chk.paths += n
    # one obligation per expression would flood the evidence: group by length
    chk.rules[R]['n'] += n - 1
    chk.verdict(R, 'evaluate agrees with the reference on %d well-formed expressions (<= %d tokens)' % (n, tier_max), n_bad == 0,
                '%d of %d expressions evaluate differently, e.g. %s' % (n_bad, n, '; '.join(first_bad)), chk.where(fn), '%d expressions' % n)
