"""C19 - ifthen tests evaluate as the boolean expression they spell.

R19.3 branch selection of ifthenelse and the iterations of whiledo (interpreted with scripted expansions), R19.4 atoms
(interpreted on their parsed arguments), R19.5 the evaluator interpreted on token sequences of generated expressions
(truth tokens, number comparisons, \\not/\\and/\\or in both spellings, parentheses, blanks) against the reference
semantics of the property - this decides precedence, associativity, arity and operand order together."""
import ast
import itertools
import re

from .. import absint as A
from .. import model as M
from ..report import AnalysisError, need
from ..util import text
from . import domheap as D

MOD = 'plasTeX.Packages.ifthen'


def check(chk):
    m = chk.model
    r193(chk, m)
    r194(chk, m)
    r195(chk, m)
    from . import shared, c04
    shared.sign_rules(chk, m, 'R19.6')
    c04.chain_rules(chk, m, 'R19.7')
    chk.decline('evaluation of concrete operands (macro-produced numbers, lengths in mixed units); expressions beyond the size bound')


class IfHooks(D.DomHooks):
    """Tokens of a test on the heap: truth tokens and operator macros are instances of their classes, digits and relation
    signs are character tokens of category OTHER, numbers read from digits are Python integers (instances of `number`)."""

    def __init__(self, model, cls, parse=None, expansions=None, dims=None):
        D.DomHooks.__init__(self, model, cls)
        self.parse = parse
        self.expansions = expansions or {}
        self.dims = dims
        self.Space = model.cls('plasTeX.Tokenizer', 'Space')

    def lookup(self, interp, name, state):
        if name == 'Token.CC_OTHER':
            return 12
        if name == 'Token.CC_SPACE':
            return 10
        if name == 'Token.CC_LETTER':
            return 11
        return None

    def call(self, interp, node, fname, args, kwargs, state):
        if fname == 'isinstance' and len(args) == 2 and isinstance(args[0], int) and not isinstance(args[0], bool):
            ks = list(args[1]) if isinstance(args[1], tuple) else [args[1]]
            if all(isinstance(k, (M.ClassInfo, type)) for k in ks):
                return any((isinstance(k, M.ClassInfo) and k.name in ('number', 'count')) or k is int for k in ks)
        if fname == 'Space' and not args:
            return A.TextObj(' ', label='SP', catcode=10, nodeName='#text', __cls=self.Space, __eqkey=('tok', 10, ' '))
        if fname == 'number' and len(args) == 1 and isinstance(args[0], int):
            return int(args[0])
        if isinstance(node.func, ast.Attribute):
            attr = node.func.attr
            if attr == 'readInternalType' and args and isinstance(args[0], list):
                try:
                    return int(''.join(str(t) for t in args[0]))
                except ValueError:
                    state.env['__exc'] = 'ValueError'
                    return A.TOP
            if attr == 'parse' and isinstance(node.func.value, ast.Name) and node.func.value.id == 'self' and self.parse is not None:
                return self.parse
            if attr == 'evaluate' and getattr(self, 'short_evaluate', False) and len(args) == 2:
                # long loops: the value of a one-token test is read off directly (evaluate itself is decided by R19.5)
                t = args[1]
                t = t[0] if isinstance(t, list) and len(t) == 1 else t
                if isinstance(t, A.Obj) and getattr(t.cls, 'name', '') in ('_true', '_false'):
                    return t
            if attr == 'expandTokens' and args and isinstance(args[0], A.Obj) and args[0].label in self.expansions:
                k = state.env.get('__n_' + args[0].label, 0)
                state.env['__n_' + args[0].label] = k + 1
                seq = self.expansions[args[0].label]
                if k >= len(seq):
                    state.env['__exc'] = 'RunawayLoop'
                    return A.TOP
                state.env.setdefault('__log', []).append('%s#%d' % (args[0].label, k + 1))
                return seq[k](state)
            if attr == 'source' and len(args) == 1 and isinstance(node.func.value, ast.Name) and node.func.value.id == 'tex':
                # tex.source(tokens): the characters of character tokens; truth tokens and other bare tokens have no source text
                x = args[0]
                items = D.children(x) if isinstance(x, A.Obj) and D.children(x) is not None else (x if isinstance(x, list) else [x])
                out = []
                for t in items:
                    if isinstance(t, A.TextObj):
                        out.append(str(t))
                    elif isinstance(t, A.Obj) and isinstance(t.cls, M.ClassInfo) and t.cls.name in ('_true', '_false'):
                        out.append('')
                    elif isinstance(t, A.Obj) and isinstance(t.attrs.get('nodeName'), str):
                        out.append('\\%s ' % t.attrs['nodeName'])
                    else:
                        return A.TOP
                return ''.join(out)
            if attr == 'pushTokens' and self.dims is not None:
                return A.NONE
            if attr == 'readDimen' and self.dims is not None:
                k = state.env.get('__ndim', 0)
                state.env['__ndim'] = k + 1
                return self.dims[0][k] if k < 2 else A.TOP
            if attr == 'itertokens' and self.dims is not None:
                return A.Iter([self.dims[1]])
        return D.DomHooks.call(self, interp, node, fname, args, kwargs, state)


def build_tokens(m, spec):
    """heap tokens for a test written as a list of words: T F not and or NOT AND OR ( ) SP, integers, < > ="""
    mod = m.module(MOD)
    Command = m.cls('plasTeX', 'Command')
    out = []
    for i, w in enumerate(spec):
        if w in ('T', 'F'):
            c = m.cls(MOD, '_true' if w == 'T' else '_false')
            out.append(A.Obj('%s%d' % (w, i), {'catcode': None, 'nodeName': '#text'}, cls=c))
        elif w in ('not', 'and', 'or', 'NOT', 'AND', 'OR'):
            c = m.cls(MOD, w if w.isupper() else '_' + w)
            out.append(A.Obj('%s%d' % (w, i), {'catcode': None, 'nodeName': w, '__eqkey': ('macro', w), '_dom_childNodes': []}, cls=c))
        elif w in ('(', ')'):
            # (nodes of the document tree compare by value: two \( are equal, though not identical)
            out.append(A.Obj('%s%d' % (w, i), {'catcode': None, 'nodeName': w, '__eqkey': ('macro', w), '_dom_childNodes': []}, cls=Command))
        elif w == 'SP':
            out.append(A.TextObj(' ', label='SP%d' % i, catcode=10, nodeName='#text', __eqkey=('tok', 10, ' ')))
        elif w in ('<', '>', '=') or w.lstrip('-').isdigit():
            for ch in w:
                out.append(A.TextObj(ch, label='%s@%d' % (ch, i), catcode=12, nodeName='#text', __eqkey=('tok', 12, ch)))
            if w.lstrip('-').isdigit() and i + 1 < len(spec) and spec[i + 1].isdigit():
                raise AnalysisError('two numbers in a row in a generated test')
        else:
            raise AnalysisError('unknown word %r in a generated test' % w)
    return out


def reference(words):
    """Reference semantics of the property: \\not tightest, \\and/\\or equal precedence left to right, parentheses, number relations."""
    toks = [w for w in words if w != 'SP']
    pos = [0]

    def peek():
        return toks[pos[0]] if pos[0] < len(toks) else None

    def isnum(t):
        return t is not None and t.lstrip('-').isdigit()

    def operand():
        t = peek()
        if t in ('not', 'NOT'):
            pos[0] += 1
            v = operand()
            return None if v is None else (not v)
        if t == '(':
            pos[0] += 1
            v = expr()
            if peek() != ')':
                return None
            pos[0] += 1
            return v
        if t in ('T', 'F'):
            pos[0] += 1
            return t == 'T'
        if isnum(t):
            a = int(t)
            pos[0] += 1
            r = peek()
            if r not in ('<', '>', '='):
                return None
            pos[0] += 1
            if not isnum(peek()):
                return None
            b = int(peek())
            pos[0] += 1
            return a < b if r == '<' else (a > b if r == '>' else a == b)
        return None

    def expr():
        v = operand()
        while v is not None and peek() in ('and', 'or', 'AND', 'OR'):
            op = peek().lower()
            pos[0] += 1
            r = operand()
            if r is None:
                return None
            v = (v and r) if op == 'and' else (v or r)
        return v
    v = expr()
    if v is None or pos[0] != len(toks):
        return None
    return v


def evaluate_on_heap(m, words):
    cls = m.cls(MOD, 'ifthenelse')
    fn = m.find_method(cls, 'evaluate')
    toks = build_tokens(m, words)
    me = A.Obj('self', {}, cls=cls)
    it = A.Interp(model=m, scope=fn, hooks=IfHooks(m, cls), max_iter=4 * len(toks) + 8, exc_edges=False, inline=6, heap=True, precise_exc=True, generators=True,
                  max_states=20000)
    outs = it.run_function(fn, env={'self': me, 'tex': A.Obj('tex', {}), 'test': toks})
    if it.imprecise or it.unknown_branches:
        raise D.Imprecise('; '.join((it.imprecise + it.unknown_branches)[:2]))
    got = set()
    for kind, s, v in outs:
        if kind == 'return' and isinstance(v, A.Obj) and isinstance(v.cls, M.ClassInfo) and v.cls.name in ('_true', '_false'):
            got.add(v.cls.name == '_true')
        elif kind == 'return':
            got.add('returns %r' % (v,))
        else:
            got.add('raises %s' % (v,))
    return got


def generated_tests(tier):
    """Well-formed tests: exhaustive short ones over truth tokens and operators, plus patterns with three operands,
    comparisons (multi-digit, both outcomes), the upper-case spellings and blanks."""
    out = []
    seen = set()

    def add(words):
        t = tuple(words)
        if t not in seen and reference(list(words)) is not None:
            seen.add(t)
            out.append(list(words))
    alphabet = ['T', 'F', 'and', 'or', 'not', '(', ')']
    for L in range(1, (7 if tier == 'thorough' else 5) + 1):
        for seq in itertools.product(alphabet, repeat=L):
            add(seq)
    pats = ['a and b or c', 'a or b and c', 'not a and b', 'a and not b', 'not not a', 'not ( a or b )', 'a and ( b or c )', '( a or b ) and c',
            'not a or not b and c', 'a or not ( b and c )', 'not ( not a and b ) or c', '( ( a ) ) and ( b )', 'a or b or c', 'a and b and c',
            'a or ( ( b ) and c )', 'not ( ( a ) or b )', '( a and ( b or ( c ) ) )', '( ( a or b ) and c ) or a']
    for p in pats:
        for vals in itertools.product('TF', repeat=3):
            w = [dict(zip('abc', vals)).get(x, x) for x in p.split()]
            add(w)
            add([x.upper() if x in ('and', 'or', 'not') else x for x in w])
    cmps = ['3 < 5', '5 < 3', '5 > 3', '3 > 5', '4 = 4', '4 = 5', '12 < 5', '5 < 12', '10 = 10', '100 > 99', '7 > 7', '7 < 7']
    for c in cmps:
        add(c.split())
        add(['not'] + c.split())
        add(['('] + c.split() + [')'])
        for other in ('T', 'F'):
            add(c.split() + ['and', other])
            add([other, 'or'] + c.split())
            add([other, 'and', 'not'] + c.split())
    add('3 < 5 and 5 < 12 or 4 = 5'.split())
    add('3 > 5 or 12 > 5 and 4 = 4'.split())
    add('not ( 3 < 5 and 5 < 3 )'.split())
    for w in (['T', 'SP', 'and', 'SP', 'F'], ['SP', 'not', 'SP', 'T'], ['3', 'SP', '<', 'SP', '5'], ['(', 'SP', 'T', 'SP', ')', 'or', 'F']):
        add(w)
    return out


def spell(words):
    return ' '.join('\\' + w if w.lower() in ('and', 'or', 'not') else {'T': 'true', 'F': 'false', 'SP': '~'}.get(w, w) for w in words)


def r195(chk, m):
    R = chk.rule('R19.5', 'the evaluator (infix to postfix, then stack evaluation), interpreted on the token sequences of generated tests, '
                 'returns the value the reference semantics gives: \\not binds tightest and may stand wherever an operand may, \\and and '
                 '\\or have equal precedence and group from the left, parentheses group, number relations compare the first number '
                 'with the second (multi-digit numbers, both spellings of the operators, blanks between tokens)', 300)
    cls = m.cls(MOD, 'ifthenelse')
    fn = m.find_method(cls, 'evaluate')
    need(fn is not None, 'ifthenelse.evaluate not found')
    chk.analysed(fn)
    tests = generated_tests(chk.tier)
    n_bad, first_bad, undet = 0, [], []
    for words in tests:
        want = reference(words)
        try:
            got = evaluate_on_heap(m, words)
        except D.Imprecise as e:
            undet.append('%s: %s' % (spell(words), e))
            continue
        if got != {want}:
            n_bad += 1
            if len(first_bad) < 5:
                first_bad.append('%s -> %s, expected %s' % (spell(words), sorted(map(str, got)), want))
    n = len(tests)
    chk.paths += n
    chk.rules[R]['n'] += n - 1
    key = 'evaluate agrees with the reference on %d generated tests' % n
    if undet and not n_bad:
        chk.undecided(R, key, '%d test(s) could not be interpreted: %s' % (len(undet), undet[:3]), chk.where(fn))
        return
    chk.verdict(R, key, n_bad == 0, '%d of %d tests evaluate differently, e.g. %s' % (n_bad, n, '; '.join(first_bad)), chk.where(fn), '%d tests' % n)


def r193(chk, m):
    R = chk.rule('R19.3', 'branch selection and looping, interpreted with scripted expansions: ifthenelse returns the then-tokens iff its '
                 'test is true (also when they are empty) and the else-tokens otherwise; whiledo expands and evaluates its test before '
                 'every round, stops at the first false value, and returns the body once per round that was true, in order', 8)
    cls = m.cls(MOD, 'ifthenelse')
    fn = m.find_method(cls, 'invoke')
    chk.analysed(fn)
    TF = m.cls('plasTeX', 'TeXFragment')

    def frag(words):
        o = A.Obj('test-fragment', {'_dom_childNodes': build_tokens(m, words), 'nodeType': 11, 'parentNode': None, 'ownerDocument': None, 'attributes': None}, cls=TF)
        return o

    def run(fn_, cls_, parse, expansions=None, max_iter=40):
        me = A.Obj('self', {'parentNode': None}, cls=cls_)
        hk = IfHooks(m, cls_, parse=parse, expansions=expansions)
        hk.short_evaluate = max_iter > 200
        it = A.Interp(model=m, scope=fn_, hooks=hk, max_iter=max_iter, exc_edges=False, inline=8, heap=True, generators=True,
                      precise_exc=True, max_states=20000 if max_iter <= 200 else 400000)
        it.max_unroll = max(it.max_unroll, max_iter + 10)
        outs = it.run_function(fn_, env={'self': me, 'tex': A.Obj('tex', {})})
        if it.imprecise or it.unknown_branches:
            raise D.Imprecise('; '.join((it.imprecise + it.unknown_branches)[:2]))
        return outs
    for words, val in ((['T'], True), (['F'], False), (['not', 'T', 'or', '3', '<', '5'], True), (['T', 'and', 'F'], False)):
        for then_v, else_v, lab in ((['THEN'], ['ELSE'], 'both branches non-empty'), ([], ['ELSE'], 'empty then'), (['THEN'], [], 'empty else')):
            for single in ((False, True) if len(words) == 1 else (False,)):
                key = 'ifthenelse{%s}: %s%s' % (spell(words), lab, ', test given as one token' if single else '')
                test = build_tokens(m, words)[0] if single else frag(words)
                try:
                    outs = run(fn, cls, {'test': test, 'then': then_v, 'else': else_v})
                except D.Imprecise as e:
                    chk.undecided(R, key, str(e), chk.where(fn))
                    continue
                got = {repr(v) if kind == 'return' else 'raises %s' % (v,) for kind, s, v in outs}
                want = repr(then_v if val else else_v)
                chk.decide(R, key, got, {want}, 'with the test %s (%s) invoke returns %s; expected the %s-branch %s'
                           % (spell(words), val, sorted(got), 'then' if val else 'else', want), chk.where(fn), want)
    wcls = m.cls(MOD, 'whiledo')
    w = m.find_method(wcls, 'invoke')
    chk.analysed(w)
    for rounds in (0, 1, 3, 1100):
        for single in ((False, True) if rounds < 100 else (True,)):
            key = 'whiledo with a test that is true %d time(s)%s' % (rounds, ', expanding to one token' if single else '')
            TEST, OPS = A.Obj('TEST', {}), A.Obj('OPS', {})
            mk = (lambda ww: (lambda st: build_tokens(m, ww)[0])) if single else (lambda ww: (lambda st: frag(ww)))
            exps = {'TEST': [mk(['T'])] * rounds + [mk(['F'])], 'OPS': [(lambda k: (lambda st: ['body%d' % k]))(k) for k in range(1, rounds + 1)]}
            try:
                outs = run(w, wcls, {'test': TEST, 'operations': OPS}, exps, max_iter=rounds + 40)
            except D.Imprecise as e:
                chk.undecided(R, key, str(e), chk.where(w))
                continue
            got = {('%r after %s' % (v, ' '.join(s.env.get('__log', [])))) if kind == 'return' else 'raises %s' % (v,) for kind, s, v in outs}
            log = []
            for k in range(1, rounds + 1):
                log += ['TEST#%d' % k, 'OPS#%d' % k]
            log.append('TEST#%d' % (rounds + 1))
            want = '%r after %s' % (['body%d' % k for k in range(1, rounds + 1)], ' '.join(log))
            chk.decide(R, key, got, {want}, 'whiledo gives %s; expected %s (the test is expanded and evaluated before every round)' % (sorted(got), want),
                       chk.where(w), want)


def r194(chk, m):
    R = chk.rule('R19.4', 'atoms, interpreted on their parsed arguments, produce exactly one truth token with the value of their test: '
                 '\\isodd (odd numbers, negative ones included), \\equal (same text), \\isundefined (name not known), \\boolean (the state '
                 'of the switch), \\lengthtest (first length < > = second, = within rounding)', 20)
    mod = m.module(MOD)

    def run(name, parse, context=None, dims=None):
        cls = m.cls(MOD, name)
        fn = m.find_method(cls, 'invoke')
        chk.analysed(fn)
        doc = A.Obj('document', {'context': context if context is not None else {}})
        me = A.Obj('self', {'ownerDocument': doc}, cls=cls)
        it = A.Interp(model=m, scope=fn, hooks=IfHooks(m, cls, parse=parse, dims=dims), max_iter=6, exc_edges=False, inline=4, heap=True, precise_exc=True)
        outs = it.run_function(fn, env={'self': me, 'tex': A.Obj('tex', {})})
        if it.imprecise or it.unknown_branches:
            raise D.Imprecise('; '.join((it.imprecise + it.unknown_branches)[:2]))
        got = set()
        for kind, s, v in outs:
            if kind == 'return' and isinstance(v, list) and len(v) == 1 and isinstance(v[0], A.Obj) and getattr(v[0].cls, 'name', '') in ('_true', '_false'):
                got.add('true' if v[0].cls.name == '_true' else 'false')
            elif kind == 'return':
                got.add('returns %r' % (v,))
            else:
                got.add('raises %s' % (v,))
        return fn, got
    sw = lambda st: A.Obj('switch', {'state': st})
    cases = [('isodd', {'number': n}, None, None, 'true' if n % 2 else 'false', '\\isodd{%d}' % n) for n in (0, 1, 2, 3, 7, 10, -1, -2, -3)]
    cases += [('equal', {'first': a, 'second': b}, None, None, 'true' if a == b else 'false', '\\equal{%s}{%s}' % (a, b))
              for a, b in (('abc', 'abc'), ('abc', 'abd'), ('', ''), ('a', ''), ('A', 'a'))]
    cases += [('isundefined', {'name': n}, {'known': sw(True)}, None, 'false' if n == 'known' else 'true', '\\isundefined{\\%s}' % n) for n in ('known', 'unknown')]
    cases += [('boolean', {'name': 'flag'}, {'flag': sw(st)}, None, 'true' if st else 'false', '\\boolean{flag} with the switch %s' % st) for st in (True, False)]
    for a, rel, b in ((1.0, '<', 2.0), (2.0, '<', 1.0), (2.0, '>', 1.0), (1.0, '>', 2.0), (1.0, '=', 1.0), (1.0, '=', 2.0), (28.45274, '=', 28.452740000001),
                      (473628671.99999994, '=', 473628672.0), (1864679.8110236218, '=', 1864679.811023622),
                      (1.0, '<', 1.0), (1.0, '>', 1.0)):
        want = {'<': a < b, '>': a > b, '=': abs(a - b) < 1e-4}[rel]
        cases.append(('lengthtest', {'test': ['tokens']}, None, ((a, b), rel), 'true' if want else 'false', '\\lengthtest{%s %s %s}' % (a, rel, b)))
    for name, parse, ctx, dims, want, label in cases:
        try:
            fn, got = run(name, parse, ctx, dims)
        except D.Imprecise as e:
            chk.undecided(R, label, str(e), chk.where(m.cls(MOD, name)))
            continue
        chk.decide(R, label, got, {want}, '%s gives %s; expected %s' % (label, sorted(got), want), chk.where(fn), want)
