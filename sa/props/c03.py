"""C03 - Conditionals process exactly the branch TeX would select.

R3.1 bounded case selection, R3.2 scanner table (token kind x nesting),
R3.3 every test selects exactly once, R3.4 relation <-> operator,
R3.5 the \\newif trio, R3.6 recognition predicate vs class table."""
import ast

from .. import absint as A
from .. import model as M
from ..report import AnalysisError, need
from ..util import SelfHooks, text, tex_name, macro_classes


def check(chk):
    m = chk.model
    r31_r32(chk, m)
    r33_r34(chk, m)
    r35(chk, m)
    # the number scanners used by \\ifnum/\\ifdim/\\ifcase: sign discipline (shared with C05)
    from . import c05
    from . import shared, c04
    shared.number_rules(chk, m, 'R3.7')
    shared.sign_rules(chk, m, 'R3.8')
    # \ifdefined / \ifcsname / \newif look names up through the chain of frames (shared with C04)
    c04.chain_rules(chk, m, 'R3.9')
    # a conditional that reads its operand with parameters disabled must re-enable them (shared with C05)
    c05.r51(chk, m, rule_id='R3.10')
    chk.decline('which branch a concrete program selects for concrete operand values '
                '(value-level; the tables above are the structural part)')


# ---------------------------------------------------------------------------
class ScanInterp(A.Interp):
    """len(cases) is tracked symbolically so that `len(cases) - 1` is known to
    be a valid index."""

    def ev_BinOp(self, n, s):
        a, b = self.ev(n.left, s), self.ev(n.right, s)
        if isinstance(a, A.Sym) and a.attrs.get('len_of') and isinstance(n.op, ast.Sub) and b == 1:
            return A.Sym('%s-1' % a.label, attrs={'valid_index_of': a.attrs['len_of']})
        return A.Interp.ev_BinOp(self, n, s)


class ScanHooks(SelfHooks):
    def __init__(self, model, cls, tokens, symbolic_len=False):
        SelfHooks.__init__(self, model, cls)
        self.tokens = tokens
        self.symbolic_len = symbolic_len
        self.subs = []       # (index value, assumptions, n_appends) at cases[...] in pushTokens

    def mk(self, i):
        name = self.tokens[i]
        return A.Sym('t%d:%s' % (i, name), truthy=True, attrs={'macroName': name, 'distinct': True})

    def lookup(self, interp, name, state):
        return SelfHooks.lookup(self, interp, name, state)

    def call(self, interp, node, fname, args, kwargs, state):
        if fname == 'self.itertokens':
            return A.Sym('iterator')
        if fname == 'getattr' and len(args) >= 2 and isinstance(args[0], A.Sym) and args[1] in args[0].attrs:
            return args[0].attrs[args[1]]
        if fname == 'isinstance' and len(args) == 2:
            if text(node.args[1]) == 'bool':
                v = args[0]
                return isinstance(v, bool)
            return None
        if fname == 'next' and len(args) == 1 and isinstance(args[0], A.Sym) and args[0].label == 'iterator':
            pos = state.env.get('__pos', 0)
            if pos >= len(self.tokens):
                state.flags = state.flags + (('next-on-exhausted',),)
                return A.TOP
            state.env['__pos'] = pos + 1
            return self.mk(pos)
        if fname == 'min' and len(args) == 2 and not kwargs:
            syms = [a for a in args if isinstance(a, A.Sym) and a.attrs.get('valid_index_of')]
            ints = [a for a in args if isinstance(a, int) and not isinstance(a, bool) and a >= 0]
            if len(syms) == 1 and len(ints) == 1:
                return A.Sym('min(%d,%s)' % (ints[0], syms[0].label), attrs={'valid_index_of': syms[0].attrs['valid_index_of']})
        if fname == 'len' and len(args) == 1 and self.symbolic_len and isinstance(node.args[0], ast.Name):
            return A.Sym('len(%s)' % node.args[0].id, attrs={'len_of': node.args[0].id})
        if fname == 'self.pushTokens' and len(node.args) == 1 and isinstance(node.args[0], ast.Subscript):
            sub = node.args[0]
            idx = interp.ev(sub.slice, state)
            vals = {}
            for k in state.assumed:
                parts = k.split(' ', 2)
                if len(parts) == 3:
                    try:
                        vals[parts[2]] = interp.ev(ast.parse(parts[2], mode='eval').body, state)
                    except Exception:
                        pass
            self.subs.append((text(sub.value), text(sub.slice), idx, dict(state.assumed),
                              [e for e in state.trace if e[0] == 'call' and e[1] == text(sub.value) + '.append'
                               and e[3] > self.loop_end], vals))
        return None

    loop_end = 0

    def iter_item(self, interp, loop, k, state):
        it = interp.ev(loop.iter, state)
        if isinstance(it, A.Sym) and it.label == 'iterator':
            pos = state.env.get('__pos', 0)
            if pos >= len(self.tokens):
                return A.STOP
            state.env['__pos'] = pos + 1
            state.env['__mark'] = len(state.trace)
            return self.mk(pos)
        return None


def run_scan(m, fn, TeX, tokens, which, symbolic_len=False):
    hooks = ScanHooks(m, TeX, tokens, symbolic_len)
    loops = [n for n in M.walk_no_nested(fn.node) if isinstance(n, ast.For)]
    need(loops, 'processIfContent has no scanning loop')
    hooks.loop_end = max(getattr(l, 'end_lineno', l.lineno) for l in loops)
    it = ScanInterp(model=m, scope=fn, hooks=hooks, max_iter=1, exc_edges=False)
    outs = it.run_function(fn, env={'which': which})
    return outs, hooks


def names_of(lst):
    out = []
    for x in lst:
        if isinstance(x, A.Sym):
            out.append(x.label.split(':', 1)[1] if ':' in x.label else x.label)
        elif isinstance(x, list):
            out.append(names_of(x))
        else:
            out.append(repr(x))
    return out


def r31_r32(chk, m):
    TeX = m.cls('plasTeX.TeX', 'TeX')
    fn = m.func('plasTeX.TeX', 'TeX.processIfContent')
    chk.analysed(fn)
    R2 = chk.rule('R3.2', 'branch scanner table: token kind {newif, if*, fi, else, or, other} x nesting {0, >0} '
                  '-> copied / new case / terminates, nesting +1/-1/0', 12 + 6)
    # each cell: token list, expected final `cases` (names), expected nesting, loop ended by break?
    OPEN = 'ifnum'
    cells = [
        ('if* @0', [OPEN], [[OPEN]], 1),
        ('if* @>0', [OPEN, 'ifx'], [[OPEN, 'ifx']], 2),
        ('fi @0', ['fi', 'AFTER'], [[]], 0),
        ('fi @>0', [OPEN, 'fi'], [[OPEN, 'fi']], 0),
        ('else @0', ['else'], [[], []], 0),
        ('else @>0', [OPEN, 'else'], [[OPEN, 'else']], 1),
        ('or @0', ['or'], [[], []], 0),
        ('or @>0', [OPEN, 'or'], [[OPEN, 'or']], 1),
        ('other @0', ['relax'], [['relax']], 0),
        ('other @>0', [OPEN, 'relax'], [[OPEN, 'relax']], 1),
        ('newif @0', ['newif', 'iffoo'], [['newif', 'iffoo']], 0),
        ('newif @>0', [OPEN, 'newif', 'iffoo'], [[OPEN, 'newif', 'iffoo']], 1),
    ]
    for name, toks, want_cases, want_nest in cells:
        outs, hooks = run_scan(m, fn, TeX, toks, True)
        chk.paths += len(outs)
        got = set()
        for kind, s, v in outs:
            cases = s.env.get('cases')
            nest = s.env.get('nesting')
            consumed = s.env.get('__pos', 0)
            # drop the padding appended after the loop ("else case for ifs without elses")
            got.add((repr(names_of(cases)) if isinstance(cases, list) else repr(cases), repr(nest), consumed))
        ok = False
        detail = sorted(got)
        if len(got) == 1:
            (c, n, consumed), = got
            cases = eval(c) if c.startswith('[') else None
            if cases is not None:
                # tolerate trailing empty padding case(s) added after the loop
                while len(cases) > len(want_cases) and cases[-1] == []:
                    cases.pop()
                want_consumed = 1 if name == 'fi @0' else len(toks)
                ok = cases == want_cases and n == repr(want_nest) and consumed == want_consumed
        chk.verdict(R2, 'scanner cell %s' % name, ok,
                    'tokens %s: scanner leaves cases/nesting/consumed = %s; TeX rule gives cases=%s nesting=%d'
                    % (toks, detail, want_cases, want_nest), chk.where(fn), str(detail))
    # whole-branch selections (sequence level, still over token kinds only)
    seqs = [
        (['a', 'else', 'b', 'fi', 'c'], True, ['a']),
        (['a', 'else', 'b', 'fi', 'c'], False, ['b']),
        (['a', 'fi', 'c'], False, []),
        ([OPEN, 'x', 'else', 'y', 'fi', 'a', 'else', 'b', 'fi'], True, [OPEN, 'x', 'else', 'y', 'fi', 'a']),
        ([OPEN, 'x', 'else', 'y', 'fi', 'a', 'else', 'b', 'fi'], False, ['b']),
        (['a', 'or', 'b', 'or', 'c', 'else', 'd', 'fi'], 2, ['c']),
    ]
    for toks, which, want in seqs:
        outs, hooks = run_scan(m, fn, TeX, toks, which)
        chk.paths += len(outs)
        pushed = set()
        for kind, s, v in outs:
            evs = [e for e in s.trace if e[0] == 'call' and e[1] == 'self.pushTokens']
            cases = s.env.get('cases')
            w = s.env.get('which')
            if isinstance(cases, list) and isinstance(w, int) and not isinstance(w, bool) and -len(cases) <= w < len(cases) and len(evs) == 1:
                pushed.add(repr(names_of(cases[w])))
            else:
                pushed.add('?(%r, which=%r, pushes=%d)' % (names_of(cases) if isinstance(cases, list) else cases, w, len(evs)))
        chk.verdict(R2, 'select %r from %s' % (which, ' '.join(toks)), pushed == {repr(want)},
                    'selector %r over token kinds %s pushes back %s, expected %s' % (which, toks, sorted(pushed), want),
                    chk.where(fn), str(sorted(pushed)))

    # R3.6: how is an opening conditional recognised?
    R6 = chk.rule('R3.6', 'the scanner recognises opening conditionals by a name prefix; every macro class whose '
                  'TeX name has that prefix must be a conditional (IfCommand/NewIf) and vice versa', 30)
    probe = {}
    for nm in ('ifthenelse', 'iff', 'if'):
        outs, hooks = run_scan(m, fn, TeX, [nm], True)
        probe[nm] = {repr(s.env.get('nesting')) for kind, s, v in outs}
    prefix_based = probe['ifthenelse'] == {'1'} and probe['iff'] == {'1'}
    IfCommand = m.cls('plasTeX.Base.TeX.Primitives', 'IfCommand')
    NewIf = m.cls('plasTeX', 'NewIf')
    conds = set()
    n_if = 0
    for c in macro_classes(m):
        nm = tex_name(m, c)
        is_cond = m.is_subclass(c, IfCommand) or m.is_subclass(c, NewIf)
        if is_cond and c not in (IfCommand, NewIf):
            n_if += 1
            chk.verdict(R6, 'conditional class %s (\\%s)' % (c.fullname, nm), (not prefix_based) or nm.startswith('if'),
                        'conditional %s has TeX name %r which the branch scanner does not recognise as an opening conditional'
                        % (c.fullname, nm), chk.where(c))
        elif nm.startswith('if') and not is_cond:
            if prefix_based:
                chk.fail(R6, 'ifprefix:%s' % nm,
                         'ordinary macro \\%s (%s) starts with "if": the branch scanner counts it as an opening conditional, '
                         'so a skipped branch containing it swallows the enclosing \\fi '
                         '(\\iffalse A\\%s ...B\\fi C gives no C)' % (nm, c.fullname, nm), chk.where(c))
            else:
                chk.ok(R6, 'ifprefix:%s' % nm, 'scanner is class based')
    chk.note('recognition predicate of the branch scanner: %s' % ('name prefix "if"' if prefix_based else 'not prefix based'))

    # R3.1
    R1 = chk.rule('R3.1', 'the index selecting the branch is within bounds on every path (booleans -> 0/1 with the '
                  'else padding present; integers guarded by a range test that sends out-of-range selectors to the else case)', 3)
    for label, which in (('True', True), ('False', False), ('integer selector', A.Sym('selector', truthy=None))):
        outs, hooks = run_scan(m, fn, TeX, ['a', 'fi'], which, symbolic_len=True)
        chk.paths += len(outs)
        need(hooks.subs, 'processIfContent no longer pushes back cases[<selector>]: R3.1 must be re-anchored')
        bad = []
        for lst, idxtext, idx, assumed, appends, vals in hooks.subs:
            if not bounded(idx, idxtext, assumed, appends, lst, vals):
                bad.append('%s[%s] with %s under %s' % (lst, idxtext, idx, {k: v for k, v in assumed.items() if idxtext in k} or 'no range test'))
        chk.verdict(R1, 'processIfContent: selector %s' % label, not bad,
                    'branch index may be out of range (e.g. \\ifcase 5 a\\or b\\else c\\fi): ' + '; '.join(sorted(set(bad))),
                    chk.where(fn), '%d subscript path(s) bounded' % len(hooks.subs))


def bounded(idx, idxtext, assumed, appends, lst, vals):
    """Is `lst[idx]` provably within bounds on this path?"""
    if isinstance(idx, A.Sym) and idx.attrs.get('valid_index_of') == lst:
        return True
    if isinstance(idx, bool):
        return False
    if isinstance(idx, int):
        # list starts with one entry; every append after the loop adds one
        if 0 <= idx <= len(appends):
            return True
        return upper(idxtext, assumed, lst, vals)
    lower = False
    for k, v in assumed.items():
        kk = k.replace(' ', '')
        if kk in ('%s<0' % idxtext, '0>%s' % idxtext) and v is False:
            lower = True
        if kk in ('%s>=0' % idxtext, '0<=%s' % idxtext) and v is True:
            lower = True
    return lower and upper(idxtext, assumed, lst, vals)


def upper(idxtext, assumed, lst, vals):
    import re
    for k, v in assumed.items():
        mm = re.fullmatch(r'%s (>=|>|<|<=) (.+)' % re.escape(idxtext), k)
        if not mm:
            continue
        op, rhs = mm.group(1), mm.group(2)
        # rhs must be a valid index (len-1 / variable holding it) or len(lst)
        v_rhs = vals.get(rhs)
        is_len = isinstance(v_rhs, A.Sym) and v_rhs.attrs.get('len_of') == lst
        is_last = isinstance(v_rhs, A.Sym) and v_rhs.attrs.get('valid_index_of') == lst
        if op == '>=' and v is False and (is_len or is_last):
            return True
        if op == '>' and v is False and is_last:
            return True
        if op == '<' and v is True and (is_len or is_last):
            return True
        if op == '<=' and v is True and is_last:
            return True
    return False




# ---------------------------------------------------------------------------
class IfHooks(A.Hooks):
    def __init__(self, readvals=None):
        self.calls = []
        self.n = 0

    def call(self, interp, node, fname, args, kwargs, state):
        if fname.endswith('.processIfContent'):
            self.calls.append(node)
            state.env['__pic'] = state.env.get('__pic', 0) + 1
            state.env['__picnode'] = node
        if fname in ('tex.readNumber', 'tex.readInteger', 'tex.readDimen'):
            self.n += 1
            return A.Sym('read%d' % state.env.get('__pic', 0), attrs={'distinct': True})
        return None


def r33_r34(chk, m):
    IfCommand = m.cls('plasTeX.Base.TeX.Primitives', 'IfCommand')
    NewIf = m.cls('plasTeX', 'NewIf')
    R3 = chk.rule('R3.3', 'every conditional primitive calls processIfContent exactly once on every normal path '
                  'and contributes no tokens itself (returns [])', 20)
    seen = set()
    for c in sorted(m.subclasses(IfCommand, strict=True) + [NewIf], key=lambda c: c.fullname):
        fn = m.find_method(c, 'invoke')
        if fn is None or fn in seen:
            if fn is not None:
                chk.ok(R3, '%s.invoke (inherited %s)' % (c.fullname, fn.qualname))
            continue
        seen.add(fn)
        if fn.cls is not None and fn.cls.fullname in ('plasTeX.Macro', 'plasTeX.Command'):
            chk.fail(R3, '%s.invoke' % c.fullname, 'conditional %s does not define its test (inherits Macro.invoke): the '
                     'scanner counts it as an opening conditional but nothing selects a branch' % c.fullname, chk.where(c))
            continue
        chk.analysed(fn)
        hooks = IfHooks()
        it = A.Interp(model=m, scope=fn, hooks=hooks, max_iter=1, exc_edges=False)
        outs = it.run_function(fn)
        chk.paths += len(outs)
        bad = []
        for kind, s, v in outs:
            if kind != 'return':
                continue
            n = s.env.get('__pic', 0)
            if n != 1:
                bad.append('a normal path calls processIfContent %d time(s)' % n)
            elif v != []:
                bad.append('returns %r instead of []' % (v,))
        chk.verdict(R3, '%s.invoke' % c.fullname, not bad, '; '.join(sorted(set(bad))), chk.where(fn),
                    '%d path(s)' % len(outs))

    R4 = chk.rule('R3.4', 'relation <-> operator: the branch guarded by "<", ">", "=" selects with a<b, a>b, a==b '
                  '(first-read op second-read); ifodd uses % 2', 7)
    for cname, second in (('ifnum', 'read'), ('ifdim', 'attr')):
        c = m.cls('plasTeX.Base.TeX.Primitives', cname)
        fn = m.find_method(c, 'invoke')
        chk.analysed(fn)
        for rel, want in (('<', ast.Lt), ('>', ast.Gt), ('=', ast.Eq)):
            hooks = IfHooks()
            it = A.Interp(model=m, scope=fn, hooks=hooks, max_iter=1, exc_edges=False)
            attrs = {'rel': rel, 'a': A.Sym('A')}
            if second == 'attr':
                attrs['b'] = A.Sym('B')
            outs = it.run_function(fn, env={'self.attributes': attrs})
            found = []
            for kind, s, v in outs:
                node = s.env.get('__picnode')
                if kind != 'return' or node is None:
                    found.append('no selection')
                    continue
                arg = node.args[0]
                found.append(describe_cmp(it, arg, s))
            a, b = 'A', ('B' if second == 'attr' else 'read0')
            want_s = '%s %s %s' % (a, {ast.Lt: '<', ast.Gt: '>', ast.Eq: '=='}[want], b)
            chk.verdict(R4, '\\%s relation %s' % (cname, rel), found == [want_s],
                        '\\%s with relation %r selects on %s, expected %s' % (cname, rel, found, want_s),
                        chk.where(fn), str(found))
    c = m.cls('plasTeX.Base.TeX.Primitives', 'ifodd')
    fn = m.find_method(c, 'invoke')
    pic = [n for n in M.calls_in(fn.node) if M.call_name(n).endswith('processIfContent')]
    ok = False
    if len(pic) == 1:
        src = text(pic[0].args[0]).replace(' ', '')
        import re
        ok = re.fullmatch(r'bool\(.+%2\)|.+%2==1|.+%2!=0|\(.+%2\)==1|bool\(.+&1\)', src) is not None
    chk.verdict(R4, '\\ifodd', ok, '\\ifodd does not select on "number %% 2": %s' % [text(p.args[0]) for p in pic], chk.where(fn))


def describe_cmp(it, arg, s):
    if isinstance(arg, ast.Compare) and len(arg.ops) == 1:
        l = it.ev(arg.left, s)
        r = it.ev(arg.comparators[0], s)
        op = {ast.Lt: '<', ast.Gt: '>', ast.Eq: '==', ast.LtE: '<=', ast.GtE: '>=', ast.NotEq: '!='}.get(type(arg.ops[0]), '?')
        lab = lambda v: v.label if isinstance(v, A.Sym) else repr(v)
        return '%s %s %s' % (lab(l), op, lab(r))
    return text(arg)


# ---------------------------------------------------------------------------
class NewifHooks(SelfHooks):
    def __init__(self, model, cls):
        SelfHooks.__init__(self, model, cls)
        self.created = []
        self.globals = []

    def call(self, interp, node, fname, args, kwargs, state):
        if fname == 'type' and len(args) == 3:
            c = A.Sym('newclass%d' % len(self.created), truthy=True)
            self.created.append((c, args[0], args[1], args[2]))
            return c
        if fname == 'self.addGlobal' and len(args) == 2:
            self.globals.append((args[0], args[1]))
        if fname in ('self.addLocal',):
            self.globals.append(('LOCAL', args))
        return None

    def decide(self, interp, test, state):
        if 'self.keys()' in text(test):
            return False
        return None


def r35(chk, m):
    R5 = chk.rule('R3.5', '\\newif creates the trio name / <name-2>true / <name-2>false bound to the same switch; '
                  'the setters reach state=True/False and the test selects on that state', 6)
    Context = m.cls('plasTeX.Context', 'Context')
    fn = m.func('plasTeX.Context', 'Context.newif')
    chk.analysed(fn)
    hooks = NewifHooks(m, Context)
    it = A.Interp(model=m, scope=fn, hooks=hooks, max_iter=1, exc_edges=False)
    outs = it.run_function(fn, env={'name': 'iffoo', 'initial': A.Sym('INITIAL')})
    need(len(outs) == 1, 'Context.newif is not single-path for a fresh name')
    NewIf, IfTrue, IfFalse = (m.cls('plasTeX', n) for n in ('NewIf', 'IfTrue', 'IfFalse'))
    byname = {}
    for c, nm, bases, d in hooks.created:
        byname[nm] = (c, bases, d)
    regs = {k: v for k, v in hooks.globals}
    def has(nm, base, key, val):
        if nm not in byname or regs.get(nm) != byname[nm][0]:
            return False
        c, bases, d = byname[nm]
        return isinstance(bases, tuple) and base in bases and isinstance(d, dict) and d.get(key) == val
    sw = byname.get('iffoo', (None,))[0]
    chk.verdict(R5, 'newif: \\iffoo', has('iffoo', NewIf, 'state', A.Sym('INITIAL')),
                'newif does not register \\iffoo as a NewIf subclass with the initial state globally: %r' % (hooks.globals,), chk.where(fn))
    chk.verdict(R5, 'newif: \\footrue', has('footrue', IfTrue, 'ifclass', sw),
                'newif does not register \\footrue as IfTrue bound to the switch: %r' % (list(byname),), chk.where(fn))
    chk.verdict(R5, 'newif: \\foofalse', has('foofalse', IfFalse, 'ifclass', sw),
                'newif does not register \\foofalse as IfFalse bound to the switch: %r' % (list(byname),), chk.where(fn))
    # setters
    for cls, meth, setter, val in ((IfTrue, 'invoke', 'setTrue', True), (IfFalse, 'invoke', 'setFalse', False)):
        f = m.find_method(cls, meth)
        chk.analysed(f)
        calls = [M.call_name(c) for c in M.calls_in(f.node)]
        target = [c for c in calls if c.endswith('ifclass.' + setter) or c.endswith('ifclass.setState')]
        sf = m.find_method(NewIf, setter)
        stores = [(text(n.targets[0]), text(n.value)) for n in M.walk_no_nested(sf.node) if isinstance(n, ast.Assign)] if sf else []
        ok = bool(target) and ('cls.state', str(val)) in stores
        chk.verdict(R5, '%s.invoke -> state=%s' % (cls.name, val), ok,
                    '%s.invoke must set the shared switch to %s (calls %s; %s stores %s)' % (cls.name, val, calls, setter, stores), chk.where(f))
    f = m.find_method(NewIf, 'invoke')
    pic = [n for n in M.calls_in(f.node) if M.call_name(n).endswith('processIfContent')]
    ok = len(pic) == 1 and text(pic[0].args[0]).replace(' ', '') in ('type(self).state', 'self.state', 'self.__class__.state')
    chk.verdict(R5, 'NewIf.invoke selects on the switch state', ok,
                'NewIf.invoke selects on %s' % [text(p.args[0]) for p in pic], chk.where(f))
