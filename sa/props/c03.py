"""C03 - Conditionals process exactly the branch TeX would select.

R3.1 bounded case selection, R3.2 scanner table (token kind x nesting),
R3.3 every test selects exactly once, R3.4 relation <-> operator,
R3.5 the \\newif trio, R3.6 recognition predicate vs class table."""
import ast

from .. import absint as A
from .. import model as M
from ..report import AnalysisError, need
from ..util import SelfHooks, text, tex_name, macro_classes


def check(chk):
    m = chk.model
    r31_r32(chk, m)
    r33_r34(chk, m)
    r35(chk, m)
    # the number scanners used by \\ifnum/\\ifdim/\\ifcase: sign discipline (shared with C05)
    from . import c05
    from . import shared, c04
    shared.number_rules(chk, m, 'R3.7')
    shared.bracket_rules(chk, m, 'R3.11')
    shared.sign_rules(chk, m, 'R3.8')
    # \ifdefined / \ifcsname / \newif look names up through the chain of frames (shared with C04)
    c04.chain_rules(chk, m, 'R3.9')
    # a conditional that reads its operand with parameters disabled must re-enable them (shared with C05)
    c05.r51(chk, m, rule_id='R3.10')
    chk.decline('which branch a concrete program selects for concrete operand values '
                '(value-level; the tables above are the structural part)')


# ---------------------------------------------------------------------------
class ScanInterp(A.Interp):
    """len(cases) is tracked symbolically so that `len(cases) - 1` is known to
    be a valid index."""

    def ev_BinOp(self, n, s):
        a, b = self.ev(n.left, s), self.ev(n.right, s)
        if isinstance(a, A.Sym) and a.attrs.get('len_of') and isinstance(n.op, ast.Sub) and b == 1:
            return A.Sym('%s-1' % a.label, attrs={'valid_index_of': a.attrs['len_of']})
        return A.Interp.ev_BinOp(self, n, s)


class ScanHooks(SelfHooks):
    def __init__(self, model, cls, tokens, symbolic_len=False):
        SelfHooks.__init__(self, model, cls)
        self.tokens = tokens
        self.symbolic_len = False
        self.subs = []       # (index value, assumptions, n_appends) at cases[...] in pushTokens

    def mk(self, i):
        name = self.tokens[i]
        return A.Sym('t%d:%s' % (i, name), truthy=True, attrs={'macroName': name, 'distinct': True})

    def lookup(self, interp, name, state):
        return SelfHooks.lookup(self, interp, name, state)

    def call(self, interp, node, fname, args, kwargs, state):
        if fname == 'self.itertokens':
            return A.Sym('iterator')
        if fname == 'getattr' and len(args) >= 2 and isinstance(args[0], A.Sym) and args[1] in args[0].attrs:
            return args[0].attrs[args[1]]
        if fname == 'isinstance' and len(args) == 2:
            if text(node.args[1]) == 'bool':
                v = args[0]
                return isinstance(v, bool)
            return None
        if fname == 'next' and len(args) == 1 and isinstance(args[0], A.Sym) and args[0].label == 'iterator':
            pos = state.env.get('__pos', 0)
            if pos >= len(self.tokens):
                state.flags = state.flags + (('next-on-exhausted',),)
                return A.TOP
            state.env['__pos'] = pos + 1
            return self.mk(pos)
        if fname == 'min' and len(args) == 2 and not kwargs:
            syms = [a for a in args if isinstance(a, A.Sym) and a.attrs.get('valid_index_of')]
            ints = [a for a in args if isinstance(a, int) and not isinstance(a, bool) and a >= 0]
            if len(syms) == 1 and len(ints) == 1:
                return A.Sym('min(%d,%s)' % (ints[0], syms[0].label), attrs={'valid_index_of': syms[0].attrs['valid_index_of']})
        if fname == 'len' and len(args) == 1 and self.symbolic_len and isinstance(node.args[0], ast.Name):
            return A.Sym('len(%s)' % node.args[0].id, attrs={'len_of': node.args[0].id})
        if fname == 'self.pushTokens' and len(args) == 1:
            state.env['__pushed'] = list(args[0]) if isinstance(args[0], list) else args[0]
            return A.NONE
        if fname == 'self.pushTokens' and len(node.args) == 1 and isinstance(node.args[0], ast.Subscript):
            sub = node.args[0]
            idx = interp.ev(sub.slice, state)
            vals = {}
            for k in state.assumed:
                parts = k.split(' ', 2)
                if len(parts) == 3:
                    try:
                        vals[parts[2]] = interp.ev(ast.parse(parts[2], mode='eval').body, state)
                    except Exception:
                        pass
            self.subs.append((text(sub.value), text(sub.slice), idx, dict(state.assumed),
                              [e for e in state.trace if e[0] == 'call' and e[1] == text(sub.value) + '.append'
                               and e[3] > self.loop_end], vals))
        return None

    loop_end = 0

    def iter_item(self, interp, loop, k, state):
        r = self.take(interp, interp.ev(loop.iter, state), state)
        return None if r is NotImplemented else r

    def take(self, interp, it, state):
        if isinstance(it, A.Sym) and it.label == 'iterator':
            pos = state.env.get('__pos', 0)
            if pos >= len(self.tokens):
                return A.STOP
            state.env['__pos'] = pos + 1
            state.env['__mark'] = len(state.trace)
            return self.mk(pos)
        return NotImplemented


def run_scan(m, fn, TeX, tokens, which):
    """Interpret processIfContent over a token sequence (tokens known by macro name only).
    Returns the set of observable outcomes (kind, selected branch, tokens consumed)."""
    hooks = ScanHooks(m, TeX, tokens)
    hooks.should_inline = A.private_only
    hooks.keep = lambda ev: False
    it = ScanInterp(model=m, scope=fn, hooks=hooks, max_iter=len(tokens) + 2, exc_edges=False, precise_exc=True, inline=3, heap=True)
    outs = it.run_function(fn, env={'which': which, 'debug': False})
    got = set()
    for kind, s, v in outs:
        sel = s.env.get('__pushed', '<nothing pushed>')
        got.add((kind if kind != 'raise' else 'raise %s' % v, repr(names_of(sel)) if isinstance(sel, list) else repr(sel), s.env.get('__pos', 0)))
    return got


def names_of(lst):
    out = []
    for x in lst:
        if isinstance(x, A.Sym):
            out.append(x.label.split(':', 1)[1] if ':' in x.label else x.label)
        elif isinstance(x, list):
            out.append(names_of(x))
        else:
            out.append(repr(x))
    return out


def r31_r32(chk, m):
    TeX = m.cls('plasTeX.TeX', 'TeX')
    fn = m.func('plasTeX.TeX', 'TeX.processIfContent')
    chk.analysed(fn)
    R2 = chk.rule('R3.2', 'branch selection of processIfContent, decided on token sequences (tokens known by name): the tokens of '
                  'exactly the selected branch are pushed back, skipping respects nesting (an inner \\else, \\or or \\fi never ends '
                  'the outer conditional), \\newif\\iffoo does not open a conditional, the scan stops at the matching \\fi', 15)
    OPEN = 'ifnum'
    seqs = [
        ('true branch', ['a', 'else', 'b', 'fi', 'c'], True, ['a'], 4),
        ('else branch', ['a', 'else', 'b', 'fi', 'c'], False, ['b'], 4),
        ('false without else', ['a', 'fi', 'c'], False, [], 2),
        ('true without else', ['a', 'fi', 'c'], True, ['a'], 2),
        ('empty true branch', ['fi', 'AFTER'], True, [], 1),
        ('nested conditional in the true branch', [OPEN, 'x', 'else', 'y', 'fi', 'a', 'else', 'b', 'fi'], True, [OPEN, 'x', 'else', 'y', 'fi', 'a'], 9),
        ('nested conditional skipped', [OPEN, 'x', 'else', 'y', 'fi', 'a', 'else', 'b', 'fi'], False, ['b'], 9),
        ('inner fi does not end the outer conditional', [OPEN, 'fi', 'a', 'fi', 'rest'], True, [OPEN, 'fi', 'a'], 4),
        ('inner or belongs to the inner conditional', ['ifcase', 'x', 'or', 'y', 'fi', 'a', 'else', 'b', 'fi'], False, ['b'], 9),
        ('doubly nested', [OPEN, 'ifx', 'fi', 'fi', 'a', 'fi'], True, [OPEN, 'ifx', 'fi', 'fi', 'a'], 6),
        ('newif does not open a conditional', ['newif', 'iffoo', 'a', 'else', 'b', 'fi'], True, ['newif', 'iffoo', 'a'], 6),
        ('newif inside a nested conditional', [OPEN, 'newif', 'iffoo', 'fi', 'a', 'fi'], True, [OPEN, 'newif', 'iffoo', 'fi', 'a'], 6),
        ('empty true branch before a non-empty else', ['else', 'b', 'fi', 'c'], True, [], 3),
        ('empty else branch', ['a', 'else', 'fi', 'c'], False, [], 3),
        ('newif directly followed by a conditional', ['newif', 'iffoo', OPEN, 'x', 'else', 'y', 'fi', 'a', 'else', 'b', 'fi', 'rest'], True,
         ['newif', 'iffoo', OPEN, 'x', 'else', 'y', 'fi', 'a'], 11),
        ('newif directly followed by a conditional, skipped', ['newif', 'iffoo', OPEN, 'x', 'fi', 'a', 'else', 'b', 'fi', 'rest'], False, ['b'], 9),
        ('two newif declarations in a row', ['newif', 'iffoo', 'newif', 'ifbar', 'a', 'fi', 'rest'], True, ['newif', 'iffoo', 'newif', 'ifbar', 'a'], 6),
        ('an empty case between two \\or', ['a', 'or', 'or', 'c', 'else', 'd', 'fi'], 1, [], 7),
        ('case 0', ['a', 'or', 'b', 'or', 'c', 'else', 'd', 'fi'], 0, ['a'], 8),
        ('case 1', ['a', 'or', 'b', 'or', 'c', 'else', 'd', 'fi'], 1, ['b'], 8),
        ('case 2', ['a', 'or', 'b', 'or', 'c', 'else', 'd', 'fi'], 2, ['c'], 8),
    ]
    for label, toks, which, want, consumed in seqs:
        got = run_scan(m, fn, TeX, toks, which)
        chk.paths += len(got)
        chk.decide(R2, 'select %r from %s' % (which, ' '.join(toks)), got, {('return', repr(want), consumed)},
                   '%s: selector %r over the tokens %s gives (outcome, branch pushed back, tokens consumed) = %s, expected the branch %s '
                   'with %d tokens consumed' % (label, which, toks, sorted(got), want, consumed), chk.where(fn))
    R1 = chk.rule('R3.1', 'a selector outside the listed cases (negative or too large, with or without \\else) takes the \\else branch if '
                  'there is one and nothing otherwise - never an index error', 6)
    cases3 = ['a', 'or', 'b', 'or', 'c']
    for label, toks, which, want in (
            ('selector = number of cases, with else', cases3 + ['else', 'd', 'fi'], 3, ['d']),
            ('selector far too large, with else', cases3 + ['else', 'd', 'fi'], 7, ['d']),
            ('negative selector, with else', cases3 + ['else', 'd', 'fi'], -1, ['d']),
            ('selector = number of cases, no else', cases3 + ['fi'], 3, []),
            ('selector far too large, no else', cases3 + ['fi'], 9, []),
            ('negative selector, no else', cases3 + ['fi'], -2, []),
            ('last listed case, no else', cases3 + ['fi'], 2, ['c'])):
        got = run_scan(m, fn, TeX, toks, which)
        chk.paths += len(got)
        chk.decide(R1, 'processIfContent: %s' % label, got, {('return', repr(want), len(toks))},
                   '\\ifcase %d over %s gives %s, expected the branch %s (e.g. \\ifcase 5 a\\or b\\else c\\fi must give c)'
                   % (which, toks, sorted(got), want), chk.where(fn))

    # R3.6: how is an opening conditional recognised?
    R6 = chk.rule('R3.6', 'the scanner recognises opening conditionals by a name prefix; every macro class whose '
                  'TeX name has that prefix must be a conditional (IfCommand/NewIf) and vice versa', 30)
    probe = {}
    for nm in ('ifthenelse', 'iff'):
        # nested (counted as an opening conditional) iff the first \fi does not end the scan
        got = run_scan(m, fn, TeX, [nm, 'fi', 'a', 'fi'], True)
        probe[nm] = {g[2] for g in got}
    need(all(v and v <= {2, 4} for v in probe.values()), 'processIfContent: the recognition of opening conditionals could not be probed: %s' % probe)
    prefix_based = probe['ifthenelse'] == {4} and probe['iff'] == {4}
    IfCommand = m.cls('plasTeX.Base.TeX.Primitives', 'IfCommand')
    NewIf = m.cls('plasTeX', 'NewIf')
    conds = set()
    n_if = 0
    for c in macro_classes(m):
        nm = tex_name(m, c)
        is_cond = m.is_subclass(c, IfCommand) or m.is_subclass(c, NewIf)
        if is_cond and c not in (IfCommand, NewIf):
            n_if += 1
            chk.verdict(R6, 'conditional class %s (\\%s)' % (c.fullname, nm), (not prefix_based) or nm.startswith('if'),
                        'conditional %s has TeX name %r which the branch scanner does not recognise as an opening conditional'
                        % (c.fullname, nm), chk.where(c))
        elif nm.startswith('if') and not is_cond:
            if prefix_based:
                chk.fail(R6, 'ifprefix:%s' % nm,
                         'ordinary macro \\%s (%s) starts with "if": the branch scanner counts it as an opening conditional, '
                         'so a skipped branch containing it swallows the enclosing \\fi '
                         '(\\iffalse A\\%s ...B\\fi C gives no C)' % (nm, c.fullname, nm), chk.where(c))
            else:
                chk.ok(R6, 'ifprefix:%s' % nm, 'scanner is class based')
    chk.note('recognition predicate of the branch scanner: %s' % ('name prefix "if"' if prefix_based else 'not prefix based'))



# ---------------------------------------------------------------------------
class IfHooks(A.Hooks):
    def __init__(self, readvals=None):
        self.calls = []
        self.n = 0

    def call(self, interp, node, fname, args, kwargs, state):
        if fname.endswith('.processIfContent'):
            self.calls.append(node)
            state.env['__pic'] = state.env.get('__pic', 0) + 1
            state.env['__picnode'] = node
        if fname in ('tex.readNumber', 'tex.readInteger', 'tex.readDimen'):
            self.n += 1
            return A.Sym('read%d' % state.env.get('__pic', 0), attrs={'distinct': True})
        return None


def r33_r34(chk, m):
    IfCommand = m.cls('plasTeX.Base.TeX.Primitives', 'IfCommand')
    NewIf = m.cls('plasTeX', 'NewIf')
    R3 = chk.rule('R3.3', 'every conditional primitive calls processIfContent exactly once on every normal path '
                  'and contributes no tokens itself (returns [])', 20)
    seen = set()
    for c in sorted(m.subclasses(IfCommand, strict=True) + [NewIf], key=lambda c: c.fullname):
        fn = m.find_method(c, 'invoke')
        if fn is None or fn in seen:
            if fn is not None:
                chk.ok(R3, '%s.invoke (inherited %s)' % (c.fullname, fn.qualname))
            continue
        seen.add(fn)
        if fn.cls is not None and fn.cls.fullname in ('plasTeX.Macro', 'plasTeX.Command'):
            chk.fail(R3, '%s.invoke' % c.fullname, 'conditional %s does not define its test (inherits Macro.invoke): the '
                     'scanner counts it as an opening conditional but nothing selects a branch' % c.fullname, chk.where(c))
            continue
        chk.analysed(fn)
        hooks = IfHooks()
        it = A.Interp(model=m, scope=fn, hooks=hooks, max_iter=1, exc_edges=False)
        outs = it.run_function(fn)
        chk.paths += len(outs)
        bad = []
        for kind, s, v in outs:
            if kind != 'return':
                continue
            n = s.env.get('__pic', 0)
            if n != 1:
                bad.append('a normal path calls processIfContent %d time(s)' % n)
            elif v != []:
                bad.append('returns %r instead of []' % (v,))
        chk.verdict(R3, '%s.invoke' % c.fullname, not bad, '; '.join(sorted(set(bad))), chk.where(fn),
                    '%d path(s)' % len(outs))

    R4 = chk.rule('R3.4', 'relation <-> operator, decided on concrete operands: \\ifnum / \\ifdim with "<", ">", "=" select the true '
                  'branch exactly when first < second, first > second, first == second (first-read op second-read); \\ifodd selects '
                  'it exactly for odd numbers', 7)

    class RelHooks(SelfHooks):
        def __init__(self, model, cls, second):
            SelfHooks.__init__(self, model, cls)
            self.second = second

        def call(self, interp, node, fname, args, kwargs, state):
            if fname.endswith('.processIfContent') and args:
                state.env['__sel'] = state.env.get('__sel', ()) + (args[0],)
                return A.NONE
            if fname in ('tex.readNumber', 'tex.readInteger', 'tex.readDimen'):
                return self.second
            if fname == 'self.parse':
                return A.NONE
            return None

        def keep(self, ev):
            return False
    import operator
    for cname in ('ifnum', 'ifdim'):
        c = m.cls('plasTeX.Base.TeX.Primitives', cname)
        fn = m.find_method(c, 'invoke')
        chk.analysed(fn)
        for rel, op in (('<', operator.lt), ('>', operator.gt), ('=', operator.eq)):
            got = {}
            for a, b in ((1, 2), (2, 1), (2, 2), (-3, 1)):
                h = RelHooks(m, c, b)
                h.should_inline = A.private_only
                it = A.Interp(model=m, scope=fn, hooks=h, max_iter=6, exc_edges=False, inline=4, heap=True, precise_exc=True)
                outs = it.run_function(fn, env={'self': A.Obj(cname, {'attributes': {'rel': rel, 'a': a, 'b': b}}, cls=c), 'tex': A.Sym('tex', truthy=True)})
                chk.paths += len(outs)
                res = set()
                for kind, s2, v in outs:
                    sel = s2.env.get('__sel', ())
                    res.add((kind, tuple(x if isinstance(x, (bool, int)) else 'TOP' for x in sel)))
                got[(a, b)] = res
            want = {k: {('return', (op(*k),))} for k in got}
            flat = {repr((k, sorted(v, key=repr))) for k, v in got.items()}
            chk.decide(R4, '\\%s relation %s' % (cname, rel), flat, {repr((k, sorted(v, key=repr))) for k, v in want.items()},
                       '\\%s with relation %r: (first, second) -> selections %s; expected exactly one selection, true iff first %s second'
                       % (cname, rel, {k: sorted(v, key=repr) for k, v in got.items()}, rel if rel != '=' else '=='), chk.where(fn))
    c = m.cls('plasTeX.Base.TeX.Primitives', 'ifodd')
    fn = m.find_method(c, 'invoke')
    chk.analysed(fn)
    got = {}
    for n in (3, 4, -3, 0, 7):
        h = RelHooks(m, c, n)
        h.should_inline = A.private_only
        it = A.Interp(model=m, scope=fn, hooks=h, max_iter=2, exc_edges=False, inline=4, heap=True, precise_exc=True)
        outs = it.run_function(fn, env={'self': A.Obj('ifodd', {'attributes': {}}, cls=c), 'tex': A.Sym('tex', truthy=True)})
        got[n] = {(kind, tuple(bool(x) if isinstance(x, (bool, int)) else 'TOP' for x in s2.env.get('__sel', ()))) for kind, s2, v in outs}
    flat = {repr((k, sorted(v, key=repr))) for k, v in got.items()}
    chk.decide(R4, '\\ifodd', flat, {repr((k, [('return', (k % 2 == 1,))])) for k in got},
               '\\ifodd: number -> selections %s; expected true exactly for odd numbers' % {k: sorted(v, key=repr) for k, v in got.items()}, chk.where(fn))


def describe_cmp(it, arg, s):
    if isinstance(arg, ast.Compare) and len(arg.ops) == 1:
        l = it.ev(arg.left, s)
        r = it.ev(arg.comparators[0], s)
        op = {ast.Lt: '<', ast.Gt: '>', ast.Eq: '==', ast.LtE: '<=', ast.GtE: '>=', ast.NotEq: '!='}.get(type(arg.ops[0]), '?')
        lab = lambda v: v.label if isinstance(v, A.Sym) else repr(v)
        return '%s %s %s' % (lab(l), op, lab(r))
    return text(arg)


# ---------------------------------------------------------------------------
class NewifHooks(SelfHooks):
    def __init__(self, model, cls):
        SelfHooks.__init__(self, model, cls)
        self.created = []
        self.globals = []

    def call(self, interp, node, fname, args, kwargs, state):
        if fname == 'type' and len(args) == 3:
            c = A.Sym('newclass%d' % len(self.created), truthy=True)
            self.created.append((c, args[0], args[1], args[2]))
            return c
        if fname == 'self.addGlobal' and len(args) == 2:
            self.globals.append((args[0], args[1]))
        if fname in ('self.addLocal',):
            self.globals.append(('LOCAL', args))
        return None

    def decide(self, interp, test, state):
        if 'self.keys()' in text(test):
            return False
        return None


def r35(chk, m):
    R5 = chk.rule('R3.5', '\\newif creates the trio name / <name-2>true / <name-2>false bound to the same switch; '
                  'the setters reach state=True/False and the test selects on that state', 6)
    Context = m.cls('plasTeX.Context', 'Context')
    fn = m.func('plasTeX.Context', 'Context.newif')
    chk.analysed(fn)
    hooks = NewifHooks(m, Context)
    hooks.should_inline = A.private_only
    it = A.Interp(model=m, scope=fn, hooks=hooks, max_iter=6, exc_edges=False, inline=3, heap=True, precise_exc=True)
    outs = [o for o in it.run_function(fn, env={'name': 'iffoo', 'initial': A.Sym('INITIAL')}) if o[0] != 'raise' or True]
    if len(outs) != 1 or it.imprecise or it.unknown_branches:
        for inst in ('newif: \\iffoo', 'newif: \\footrue', 'newif: \\foofalse'):
            chk.undecided(R5, inst, 'Context.newif is not single-path for a fresh name (%d outcomes; %s)'
                          % (len(outs), '; '.join((list(it.imprecise) + list(it.unknown_branches))[:2])), chk.where(fn))
        return
    NewIf, IfTrue, IfFalse = (m.cls('plasTeX', n) for n in ('NewIf', 'IfTrue', 'IfFalse'))
    byname = {}
    for c, nm, bases, d in hooks.created:
        byname[nm] = (c, bases, d)
    regs = {k: v for k, v in hooks.globals}
    def has(nm, base, key, val):
        if nm not in byname or regs.get(nm) != byname[nm][0]:
            return False
        c, bases, d = byname[nm]
        return isinstance(bases, tuple) and base in bases and isinstance(d, dict) and d.get(key) == val
    sw = byname.get('iffoo', (None,))[0]
    chk.verdict(R5, 'newif: \\iffoo', has('iffoo', NewIf, 'state', A.Sym('INITIAL')),
                'newif does not register \\iffoo as a NewIf subclass with the initial state globally: %r' % (hooks.globals,), chk.where(fn))
    chk.verdict(R5, 'newif: \\footrue', has('footrue', IfTrue, 'ifclass', sw),
                'newif does not register \\footrue as IfTrue bound to the switch: %r' % (list(byname),), chk.where(fn))
    chk.verdict(R5, 'newif: \\foofalse', has('foofalse', IfFalse, 'ifclass', sw),
                'newif does not register \\foofalse as IfFalse bound to the switch: %r' % (list(byname),), chk.where(fn))
    # setters
    class SwitchHooks(SelfHooks):
        def lookup(self, interp, name, state):
            return None         # every class-level value is on the heap objects

        def call(self, interp, node, fname, args, kwargs, state):
            if fname == 'type' and len(args) == 1 and isinstance(args[0], A.Obj) and '__type' in args[0].attrs:
                return args[0].attrs['__type']
            if fname.endswith('.processIfContent') and args:
                state.env['__sel'] = state.env.get('__sel', ()) + (args[0],)
                return A.NONE
            return None

        def keep(self, ev):
            return False

    def run_switch(cls, initial):
        f = m.find_method(cls, 'invoke')
        chk.analysed(f)
        switch = A.Obj('switch', {'state': initial}, cls=NewIf)
        if cls is NewIf:
            this = A.Obj('instance', {'__type': switch, '__class__': switch, 'state': initial})
        else:
            setter = A.Obj('setterclass', {'ifclass': switch}, cls=cls)
            this = A.Obj('instance', {'__type': setter, '__class__': setter, 'ifclass': switch})
        h = SwitchHooks(m, cls)
        it = A.Interp(model=m, scope=f, hooks=h, max_iter=1, exc_edges=False, inline=3, heap=True)
        outs = it.run_function(f, env={'self': this, '__switch': switch})
        return f, {(kind, repr(s2.env['__switch'].attrs.get('state')), tuple(repr(x) for x in s2.env.get('__sel', ()))) for kind, s2, v in outs}
    for cls, val in ((IfTrue, True), (IfFalse, False)):
        for initial in (True, False):
            f, got = run_switch(cls, initial)
            chk.decide(R5, '%s.invoke -> state=%s (from %s)' % (cls.name, val, initial), got, {('return', repr(val), ())},
                       '%s.invoke on a switch whose state is %s leaves (outcome, state, selections) = %s; expected the shared switch set to %s'
                       % (cls.name, initial, sorted(got), val), chk.where(f))
    for initial in (True, False):
        f, got = run_switch(NewIf, initial)
        chk.decide(R5, 'NewIf.invoke selects on the switch state (%s)' % initial, got, {('return', repr(initial), (repr(initial),))},
                   'NewIf.invoke with the switch at %s gives (outcome, state, selections) = %s; expected one selection of %s and the state unchanged'
                   % (initial, sorted(got), initial), chk.where(f))
