"""C08 - Counters and automatic numbers follow LaTeX's numbering rules.

R8.1 reset tree agrees with the document hierarchy, R8.2 counter mutators
reach the transitive reset, R8.3 who steps and when, R8.4 list items,
R8.5 representation tables (roman numeral table, alph), R8.6 trimLeft only
removes a leading "0."."""
import ast
import re

from .. import absint as A
from .. import flow
from .. import model as M
from ..report import AnalysisError, need
from ..util import SelfHooks, text, macro_classes


def check(chk):
    m = chk.model
    r81(chk, m)
    r82(chk, m)
    r83(chk, m)
    r84(chk, m)
    r85(chk, m)
    r86(chk, m)
    r89(chk, m)
    r810(chk, m)
    from . import shared
    shared.cache_rules(chk, m, 'R8.7')
    chk.decline('the numbers of a whole generated document (running computation over the document history)')


def r810(chk, m):
    R = chk.rule('R8.10', '\\appendix interpreted on scripted counters: in book and report the chapter counter, in article the section counter '
                 'is set back to 0 and its \\the command becomes the upper-case letter form; no other counter is touched (in an article the '
                 'equation, figure and table counters hang on the chapter counter - resetting that one restarts them)', 3)
    TheCounter = m.cls('plasTeX', 'TheCounter')
    for mod, unit in (('plasTeX.Packages.book', 'chapter'), ('plasTeX.Packages.report', 'chapter'), ('plasTeX.Packages.article', 'section')):
        c = m.cls(mod, 'appendix')
        fn = m.find_method(c, 'invoke')
        need(fn is not None, '%s.appendix.invoke not found' % mod)
        chk.analysed(fn)

        class H(A.Hooks):
            cls = c

            def keep(self, ev):
                return False

            def call(self, interp, node, fname, args, kwargs, state):
                if fname == 'the.counter.setcounter':
                    return None
                if isinstance(node.func, ast.Attribute) and node.func.attr in ('setcounter', 'addtocounter', 'stepcounter'):
                    recv = interp.ev(node.func.value, state)
                    if isinstance(recv, A.Obj) and recv.label.startswith('counter:'):
                        state.env['__touched'] = state.env.get('__touched', ()) + ((recv.label[8:], node.func.attr, args[0] if args and isinstance(args[0], int) else 'TOP'),)
                        return A.NONE
                return None
        counters = {k: A.Obj('counter:' + k, {'value': 5, 'name': k}) for k in ('part', 'chapter', 'section', 'subsection', 'equation', 'figure', 'table')}
        ctx = A.Obj('context', {'counters': counters, '__items': {}})
        me = A.Obj('appendix', {'ownerDocument': A.Obj('document', {'context': ctx})}, cls=c)
        h = H()
        h.should_inline = lambda fname, node, info: True
        it = A.Interp(model=m, scope=fn, hooks=h, max_iter=4, exc_edges=False, inline=5, heap=True, precise_exc=True)
        try:
            outs = it.run_function(fn, env={'self': me, 'tex': A.Sym('tex', truthy=True), '__ctx': ctx})
        except AnalysisError as e:
            chk.undecided(R, '%s.appendix' % mod.rsplit('.', 1)[1], str(e), chk.where(fn))
            continue
        if it.imprecise or it.unknown_branches:
            chk.undecided(R, '%s.appendix' % mod.rsplit('.', 1)[1], '; '.join((list(it.imprecise) + list(it.unknown_branches))[:3]), chk.where(fn))
            continue
        got = set()
        for kind, s2, v in outs:
            items = s2.env['__ctx'].attrs.get('__items')
            inst = []
            for k, val in sorted(items.items()) if isinstance(items, dict) else [('TOP', None)]:
                fmt = m.class_const(val, 'format') if isinstance(val, M.ClassInfo) else 'TOP'
                inst.append((k, fmt if isinstance(fmt, str) else 'TOP'))
            got.add((kind, tuple(sorted(s2.env.get('__touched', ()))), tuple(inst)))
        want = ('return', ((unit, 'setcounter', 0),), (('the' + unit, '${%s.Alph}' % unit),))
        chk.decide(R, '%s.appendix' % mod.rsplit('.', 1)[1], {repr(g) for g in got}, {repr(want)},
                   '\\appendix of the %s class gives (outcome, counters touched, \\the commands installed with their format) = %s; expected %s'
                   % (mod.rsplit('.', 1)[1], sorted(got, key=repr), want), chk.where(fn))


def newcounter_calls(fn):
    out = {}
    for c in M.calls_in(fn.node):
        if M.call_name(c).endswith('newcounter') and c.args and isinstance(c.args[0], ast.Constant):
            kw = {k.arg: (k.value.value if isinstance(k.value, ast.Constant) else text(k.value)) for k in c.keywords}
            if len(c.args) > 1 and isinstance(c.args[1], ast.Constant):
                kw.setdefault('resetby', c.args[1].value)
            out[c.args[0].value] = kw
    return out


def class_setup(m, modname):
    """Interpret <package>.ProcessOptions({}, document) on a recording heap: the counters it declares and the
    attributes it patches on macro classes looked up through the context."""
    fn = m.func_or_none(modname, 'ProcessOptions')
    need(fn is not None, '%s.ProcessOptions not found' % modname)

    class H(A.Hooks):
        def call(self, interp, node, fname, args, kwargs, state):
            if fname.endswith('.newcounter') and args:
                kw = dict(kwargs)
                names = ['resetby', 'initial', 'format', 'trimLeft']
                for nm, v in zip(names, args[1:]):
                    kw.setdefault(nm, v)
                state.env['__decl'] = state.env.get('__decl', ()) + ((args[0], tuple(sorted((k, v) for k, v in kw.items() if A.is_concrete(v)))),)
                return A.NONE
            return None

        def keep(self, ev):
            return False
    h = H()
    h.should_inline = A.private_only
    it = A.Interp(model=m, scope=fn, hooks=h, max_iter=2, exc_edges=False, inline=2, heap=True)
    ctx = A.Obj('context', {'__items': {}, '__auto': True})
    doc = A.Obj('document', {'context': ctx})
    outs = [(s2, v) for kind, s2, v in it.run_function(fn, env={'options': {}, 'document': doc, '__ctx': ctx}) if kind == 'return']
    need(len(outs) >= 1, '%s.ProcessOptions has no normal exit' % modname)
    need(not it.imprecise, '%s.ProcessOptions: the counter declarations are not determined (%s)' % (modname, '; '.join(sorted(set(it.imprecise))[:2])))
    decls = {s2.env.get('__decl', ()) for s2, v in outs}
    need(len(decls) == 1, '%s.ProcessOptions declares counters that depend on unknown conditions' % modname)
    patched = {}
    for s2, v in outs:
        for name, obj in s2.env['__ctx'].attrs['__items'].items():
            for attr, val in obj.attrs.items():
                patched.setdefault((name, attr), set()).add(val if A.is_concrete(val) else repr(val))
    return fn, {name: dict(kw) for name, kw in decls.pop()}, patched


def r81(chk, m):
    R = chk.rule('R8.1', 'reset tree agrees with the hierarchy (class set-up interpreted on a recording heap): each sectioning counter '
                 'is reset by the counter of the next outer unit, equation/figure/table by chapter, enum counters chain; nested '
                 'formats are ${the<resetby>}.${<self>}; newcounter creates the counter and its \\the<name> as declared', 18)
    fn, nc, patched = class_setup(m, 'plasTeX.Packages.book')
    chk.analysed(fn)
    sec = 'plasTeX.Base.LaTeX.Sectioning'
    units = ['part', 'chapter', 'section', 'subsection', 'subsubsection', 'paragraph', 'subparagraph', 'subsubparagraph']
    lvl = {}
    for u in units:
        c = m.cls(sec, u)
        lvl[u] = m.class_const(c, 'level')
        cnt = m.class_const(c, 'counter')
        chk.verdict(R, '\\%s uses counter %s' % (u, u), cnt == u, '\\%s has counter %r' % (u, cnt), chk.where(c), str(cnt))
    order = sorted(units, key=lambda u: lvl[u])
    chk.verdict(R, 'sectioning units ordered by level', order == units, 'levels give the order %s' % order, sec)
    for i, u in enumerate(units):
        want = 'volume' if u in ('part', 'chapter') else units[i - 1]
        got = nc.get(u, {}).get('resetby')
        chk.verdict(R, 'counter %s reset by %s' % (u, want), got == want,
                    'counter %s is declared with resetby=%r; LaTeX resets it whenever %s is stepped' % (u, got, want), chk.where(fn), str(got))
        fmt = nc.get(u, {}).get('format')
        if u in ('part', 'chapter'):
            okf = fmt in ('$%s' % u, '${%s}' % u)
        else:
            okf = fmt == '${the%s}.${%s}' % (want, u)
        chk.verdict(R, 'format of the%s' % u, okf, 'the%s has format %r' % (u, fmt), chk.where(fn), str(fmt))
    for c2 in ('equation', 'figure', 'table'):
        got = nc.get(c2, {})
        chk.verdict(R, 'counter %s reset by chapter' % c2, got.get('resetby') == 'chapter' and got.get('format') == '${thechapter}.${%s}' % c2,
                    'counter %s declared as %r' % (c2, got), chk.where(fn), str(got))
    enum = ['enumi', 'enumii', 'enumiii', 'enumiv']
    List = m.cls('plasTeX.Base.LaTeX.Lists', 'List')
    chk.verdict(R, 'List.counters order', m.class_const(List, 'counters') == enum, 'List.counters = %r' % (m.class_const(List, 'counters'),), chk.where(List))
    for i, e in enumerate(enum):
        want = None if i == 0 else enum[i - 1]
        got = nc.get(e, {}).get('resetby')
        chk.verdict(R, 'counter %s reset by %s' % (e, want), e in nc and got == want, 'counter %s declared with resetby=%r' % (e, got), chk.where(fn), str(got))
    # the only format overrides
    for modname, wanted in (('plasTeX.Packages.report', {'theequation': '${equation}'}), ('plasTeX.Packages.article', {'thesection': '${section}'})):
        f, decl, patched = class_setup(m, modname)
        chk.analysed(f)
        fm = {name: sorted(vals, key=repr) for (name, attr), vals in patched.items() if attr == 'format'}
        chk.verdict(R, '%s format overrides' % modname, fm == {k: [v] for k, v in wanted.items()} and not decl,
                    '%s overrides formats %s and declares %s, expected only %s' % (modname, fm, sorted(decl), wanted), chk.where(f), str(fm))
    # newcounter wiring, on the small heap of C04
    from . import c04
    Context = m.cls('plasTeX.Context', 'Context')
    ncf = m.find_method(Context, 'newcounter')
    chk.analysed(ncf)

    class NH(c04.RegHooks):
        def call(self, interp, node, fname, args, kwargs, state):
            if fname == 'type' and len(args) == 3:
                o = A.Obj('class:%s' % (args[0],), dict(args[2]) if isinstance(args[2], dict) else {})
                o.attrs['__bases'] = tuple(getattr(b, 'name', repr(b)) for b in args[1]) if isinstance(args[1], tuple) else repr(args[1])
                o.attrs['__name'] = args[0]
                return o
            return c04.RegHooks.call(self, interp, node, fname, args, kwargs, state)
    for label, extra, want_fmt in (('default format', {'format': None, 'trimLeft': False}, '${foo}'),
                                   ('explicit format', {'format': '${thebar}.${foo}', 'trimLeft': True}, '${thebar}.${foo}')):
        h = NH(m, Context)
        h.keep = lambda ev: False
        it = A.Interp(model=m, scope=ncf, hooks=h, max_iter=3, exc_edges=False, inline=3, heap=True)
        env = c04.ctx_heap(m, 2)
        for f in env['__frames']:
            f.attrs['__items'] = {}
        env['self'].attrs.update({'counters': {}, '__items': None})
        env.update({'name': 'foo', 'resetby': 'bar', 'initial': 4})
        env.update(extra)
        got = set()
        for kind, s2, v in it.run_function(ncf, env=env):
            if kind != 'return':
                continue
            cnt = s2.env['self'].attrs['counters'].get('foo')
            cargs = tuple(getattr(a, 'label', a) if isinstance(a, (A.Obj, A.Sym)) else a for a in cnt.attrs.get('__args', ())) if isinstance(cnt, A.Obj) else None
            glob = s2.env['__frames'][0].attrs['__items']
            the = [o for o in glob.values() if isinstance(o, A.Obj) and o.attrs.get('__name') == 'thefoo']
            desc = (the[0].attrs.get('__bases'), the[0].attrs.get('format'), the[0].attrs.get('trimLeft')) if len(the) == 1 else None
            got.add((getattr(getattr(cnt, 'cls', None), 'name', None), cargs, desc))
        want = {('Counter', ('context', 'foo', 'bar', 4), (('TheCounter',), want_fmt, extra['trimLeft']))}
        chk.decide(R, 'Context.newcounter wiring (%s)' % label, {repr(g) for g in got}, {repr(w) for w in want},
                   'newcounter("foo", resetby="bar", initial=4, %s) gives (counter class, its arguments, (bases, format, trimLeft) of \\thefoo) = %s; '
                   'expected %s' % (extra, sorted(got, key=repr), sorted(want, key=repr)), chk.where(ncf))


def counter_heap(m):
    Counter = m.cls('plasTeX', 'Counter')
    table = {}
    spec = [('X', None, 5), ('A', 'X', 3), ('B', 'A', 4), ('C', 'Y', 5), ('D', None, 6), ('E', 'X', 0), ('F', 'E', 7)]
    for name, resetby, value in spec:
        table[name] = A.Obj('counter:%s' % name, {'name': name, 'resetby': resetby, 'value': value, 'counters': table}, cls=Counter)
    return table


def r82(chk, m):
    R = chk.rule('R8.2', 'counters on a small heap (X <- A <- B, X <- E(=0) <- F, C within Y, D free): stepcounter/setcounter/'
                 'addtocounter change the value by 1 / to n / by n and then zero every counter declared within this one, '
                 'transitively - also through a counter that is already 0 - and no other counter', 4)
    Counter = m.cls('plasTeX', 'Counter')
    for name, extra, newval in (('stepcounter', {}, 6), ('setcounter', {'other': 3}, 3), ('addtocounter', {'other': 4}, 9), ('resetcounters', {}, 5)):
        fn = m.find_method(Counter, name)
        need(fn is not None, 'Counter.%s not found' % name)
        chk.analysed(fn)
        table = counter_heap(m)
        h = SelfHooks(m, Counter)
        h.keep = lambda ev: False
        h.lookup = lambda interp, nm, state: None
        it = A.Interp(model=m, scope=fn, hooks=h, max_iter=10, exc_edges=False, inline=7, heap=True)
        env = {'self': table['X'], '__table': table}
        env.update(extra)
        got = set()
        for kind, s2, v in it.run_function(fn, env=env):
            t = s2.env['__table']
            got.add((kind,) + tuple((k, t[k].attrs.get('value') if A.is_concrete(t[k].attrs.get('value')) else 'TOP') for k in sorted(t)))
        want = {('return', ('A', 0), ('B', 0), ('C', 5), ('D', 6), ('E', 0), ('F', 0), ('X', newval))}
        chk.decide(R, 'Counter.%s' % name, {repr(g) for g in got}, {repr(w) for w in want},
                   'X.%s(%s) on the heap gives %s; expected X=%d and exactly the counters within X (A, B, E, F) reset to 0'
                   % (name, ', '.join(map(str, extra.values())), sorted(got, key=repr), newval), chk.where(fn))
    # names of counters reach Context.newcounter as strings
    R2 = chk.rule('R8.8', 'a counter name that a macro reads from its own arguments and hands to Context.newcounter is declared with a '
                  'string type in the signature (an untyped argument is a token fragment and never compares equal to a counter name)', 2)
    n = 0
    for c in macro_classes(m):
        fn = c.methods.get('invoke')
        if fn is None:
            continue
        calls = [x for x in M.calls_in(fn.node) if M.call_name(x).endswith('.newcounter')]
        if not calls:
            continue
        args_s = m.class_const(c, 'args')
        if not isinstance(args_s, str):
            continue
        types = {mo.group(1): mo.group(2) for mo in re.finditer(r'(\w+)(?::(\w+))?', args_s)}
        aliases = {}
        for x in M.walk_no_nested(fn.node):
            if isinstance(x, ast.Assign) and len(x.targets) == 1 and isinstance(x.targets[0], ast.Name):
                aliases[x.targets[0].id] = x.value
        for call in calls:
            for pos, a in list(enumerate(call.args[:2])) + [(k.arg, k.value) for k in call.keywords if k.arg in ('name', 'resetby')]:
                e = a
                for _ in range(3):
                    if isinstance(e, ast.Name) and e.id in aliases:
                        e = aliases[e.id]
                if isinstance(e, ast.Subscript) and isinstance(e.slice, ast.Constant) and isinstance(e.slice.value, str) and e.slice.value in types:
                    n += 1
                    chk.analysed(fn)
                    t = types[e.slice.value]
                    chk.verdict(R2, '%s: argument %s' % (c.fullname, e.slice.value), t in ('str', 'id'),
                                '%s hands its argument %r to Context.newcounter but declares it as %r in args=%r: the counter name is then a '
                                'token fragment, which never equals the name of the counter being stepped (the counter is never reset)'
                                % (c.fullname, e.slice.value, t or 'untyped', args_s), chk.where(fn, call))
    need(n >= 2, 'macros that declare counters from their arguments (\\newcounter, \\newtheorem) not found')


def macro_heap(m, cls, counter='equation', args='', level=None, depth=2, **attrs):
    """A macro instance on the heap with a document, a context and the counter table of counter_heap()."""
    table = counter_heap(m)
    Counter = m.cls('plasTeX', 'Counter')
    table['equation'] = A.Obj('counter:equation', {'name': 'equation', 'resetby': 'chapter', 'value': 5, 'counters': table}, cls=Counter)
    ctx = A.Obj('context', {'counters': table, 'currentlabel': None})
    doc = A.Obj('document', {'context': ctx})
    me = A.Obj('macro', dict({'counter': counter, 'args': args, 'ownerDocument': doc, 'config': {'document': {'sec-num-depth': depth}}}, **attrs), cls=cls)
    if level is not None:
        me.attrs['level'] = level
    return {'self': me, '__ctx': ctx, '__table': table, 'tex': A.Sym('tex', truthy=True)}


def run_macro(m, chk, fn, env, cls, inline=7, filt=None):
    h = SelfHooks(m, cls)
    h.keep = lambda ev: False
    if filt is not None:
        h.should_inline = filt
    h.lookup = lambda interp, nm, state: None
    it = A.Interp(model=m, scope=fn, hooks=h, max_iter=10, exc_edges=False, inline=inline, heap=True, precise_exc=True)
    outs = it.run_function(fn, env=env)
    chk.paths += len(outs)
    res = set()
    if it.unknown_branches or it.imprecise:
        return {('undetermined', 'TOP', 'TOP', 'TOP', 'TOP: %s' % (it.unknown_branches + it.imprecise)[0])}
    for kind, s2, v in outs:
        me, ctx, table = s2.env['self'], s2.env['__ctx'], s2.env['__table']
        val = table['equation'].attrs.get('value')
        lab = ctx.attrs.get('currentlabel')
        res.add((kind, val if A.is_concrete(val) else 'TOP', 'self' if lab is me else repr(lab), me.attrs.get('counter') if A.is_concrete(me.attrs.get('counter')) else 'TOP',
                 'ref' in me.attrs))
    return res


def r83(chk, m, rule_id='R8.3'):
    R = chk.rule(rule_id, 'who steps and when, on a small heap (equation counter at 5): the hooks preParse/preArgument/postArgument '
                 'partition the signature shapes so that the counter is stepped exactly once and the object becomes the current '
                 'label; a present * steps nothing and clears the counter of the instance; no declared counter: nothing happens; '
                 'postParse computes the number only down to the numbering depth; \\nonumber takes the step back', 12)
    Macro = m.cls('plasTeX', 'Macro')
    pre, prearg, postarg = (m.find_method(Macro, n) for n in ('preParse', 'preArgument', 'postArgument'))
    for f in (pre, prearg, postarg):
        need(f is not None, 'Macro.preParse/preArgument/postArgument not found')
        chk.analysed(f)
    arg = lambda idx, name: A.Obj('arg', {'index': idx, 'name': name})
    STEP, NOTHING = ('return', 6, 'self', 'equation', False), ('return', 5, 'None', 'equation', False)
    STAR = ('return', 5, 'self', '', False)
    shapes = [
        ('no arguments', [(pre, '', {}, STEP)]),
        ('first argument ordinary', [(pre, 'title', {}, NOTHING), (prearg, 'title', {'arg': arg(0, 'title')}, STEP),
                                     (postarg, 'title', {'arg': arg(0, 'title'), 'value': A.Sym('v', truthy=True)}, NOTHING)]),
        ('first argument * present', [(pre, '* title', {}, NOTHING), (prearg, '* title', {'arg': arg(0, '*modifier*')}, NOTHING),
                                      (postarg, '* title', {'arg': arg(0, '*modifier*'), 'value': True}, STAR)]),
        ('first argument * absent', [(pre, '* title', {}, NOTHING), (prearg, '* title', {'arg': arg(0, '*modifier*')}, NOTHING),
                                     (postarg, '* title', {'arg': arg(0, '*modifier*'), 'value': None}, STEP)]),
        ('later argument', [(prearg, '* title', {'arg': arg(1, 'title')}, NOTHING),
                            (postarg, '* title', {'arg': arg(1, 'title'), 'value': A.Sym('v', truthy=True)}, NOTHING)]),
        ('later * argument', [(prearg, 'a * b', {'arg': arg(2, '*modifier*')}, NOTHING), (postarg, 'a * b', {'arg': arg(2, '*modifier*'), 'value': True}, NOTHING)]),
    ]
    for label, calls in shapes:
        bad = []
        undec = False
        for f, args_s, extra, want in calls:
            env = macro_heap(m, Macro, 'equation', args_s)
            env.update(extra)
            got = run_macro(m, chk, f, env, Macro)
            if got != {want}:
                bad.append('%s -> %s (expected %s)' % (f.name, sorted(got, key=repr), want))
                undec = undec or any('TOP' in map(str, g) for g in got)
        msg = 'signature shape "%s": (outcome, equation counter from 5, current label, counter of the instance, number computed) per hook: %s' % (label, '; '.join(bad))
        if bad and undec:
            chk.undecided(R, 'stepping: %s' % label, msg, chk.where(pre))
        else:
            chk.verdict(R, 'stepping: %s' % label, not bad, msg, chk.where(pre), 'stepped exactly once')
    rs = m.find_method(Macro, 'refstepcounter')
    chk.analysed(rs)
    ENDS0 = m.class_const(Macro, 'ENDSECTIONS_LEVEL')
    for label, counter, want, lvl in (('a declared counter is stepped and the object becomes the current label', 'equation', STEP, 1),
                                      ('an object deeper than the numbering depth is stepped and becomes the current label all the same', 'equation', STEP, 4),
                                      ('no counter: nothing happens', None, ('return', 5, 'None', None, False), 1)):
        got = run_macro(m, chk, rs, macro_heap(m, Macro, counter, level=lvl, ENDSECTIONS_LEVEL=ENDS0), Macro)
        chk.decide(R, 'refstepcounter: %s' % label, {repr(g) for g in got}, {repr(want)},
                   'refstepcounter with counter=%r gives %s, expected %s' % (counter, sorted(got, key=repr), want), chk.where(rs))
    pp = m.find_method(Macro, 'postParse')
    chk.analysed(pp)
    ENDS = m.class_const(Macro, 'ENDSECTIONS_LEVEL')
    need(isinstance(ENDS, int), 'Macro.ENDSECTIONS_LEVEL does not fold')
    for label, counter, level, numbered in (('within the numbering depth', 'equation', 1, True), ('at the numbering depth', 'equation', 2, True),
                                            ('deeper than the numbering depth', 'equation', 3, False), ('not a sectioning unit', 'equation', ENDS + 1, True),
                                            ('no counter', '', 1, False)):
        env = macro_heap(m, Macro, counter, '', level=level, ENDSECTIONS_LEVEL=ENDS)
        got = {g[4] for g in run_macro(m, chk, pp, env, Macro, inline=3) if g[0] in ('return', 'undetermined')}
        chk.decide(R, 'postParse: %s' % label, got, {numbered},
                   'postParse with counter=%r, level=%r and sec-num-depth=2 %s a number (%s); expected %s' % (counter, level, 'computes' if got == {True} else 'does not always compute', sorted(got), numbered), chk.where(pp))
    # the whole (configured depth x level) table, depth 0 and negative depths included
    bad = []
    undet = []
    for depth in (-2, -1, 0, 1, 2, 3, 5):
        for level in (-1, 0, 1, 2, 3, 4, 6):
            env = macro_heap(m, Macro, 'equation', '', level=level, depth=depth, ENDSECTIONS_LEVEL=ENDS)
            got = {g[4] for g in run_macro(m, chk, pp, env, Macro, inline=3) if g[0] in ('return', 'undetermined')}
            want = depth >= level
            if got != {want}:
                (undet if len(got) != 1 else bad).append('depth %d, level %d: %s' % (depth, level, sorted(got)))
    if undet and not bad:
        chk.undecided(R, 'postParse: numbered exactly down to the configured depth (7 depths x 7 levels)', '; '.join(undet[:3]), chk.where(pp))
    else:
        chk.verdict(R, 'postParse: numbered exactly down to the configured depth (7 depths x 7 levels)', not bad,
                    'a sectioning unit is numbered iff its level is not deeper than sec-num-depth; differs for %s' % '; '.join(bad[:4]), chk.where(pp))
    non = m.func('plasTeX.Base.LaTeX.Math', 'nonumber.invoke')
    chk.analysed(non)
    got = run_macro(m, chk, non, macro_heap(m, m.cls('plasTeX.Base.LaTeX.Math', 'nonumber'), None), m.cls('plasTeX.Base.LaTeX.Math', 'nonumber'))
    chk.decide(R, '\\nonumber compensates with -1', {g[:2] for g in got}, {('return', 4)},
               '\\nonumber leaves the equation counter at %s (from 5); expected 4' % sorted(g[1] for g in got), chk.where(non))
    er = m.cls('plasTeX.Base.LaTeX.Math', 'eqnarray').nested['EndRow']
    chk.verdict(R, 'eqnarray rows step the equation counter', m.class_const(er, 'counter') == 'equation' and
                m.class_const(m.cls('plasTeX.Base.LaTeX.Math', 'eqnarray'), 'counter') == 'equation' and
                m.class_const(m.cls('plasTeX.Base.LaTeX.Math', 'equation'), 'counter') == 'equation',
                'equation/eqnarray/eqnarray.EndRow must use the equation counter', chk.where(er))


def r84(chk, m):
    R = chk.rule('R8.4', 'list items on a small heap (enumi..enumiv at 3,4,5,6): \\begin of a list goes one level down and zeroes the '
                 'counters of all deeper levels, \\end goes one level up and zeroes the counter of the level it closes and all deeper '
                 'ones (so items count 1, 2, 3, ... and restart in every nested list); \\item takes the counter of its depth', 12)
    Lists = 'plasTeX.Base.LaTeX.Lists'
    List = m.cls(Lists, 'List')
    Counter = m.cls('plasTeX', 'Counter')
    Macro = m.cls('plasTeX', 'Macro')
    enum = m.class_const(List, 'counters')
    need(isinstance(enum, list) and len(enum) == 4, 'List.counters does not fold to four names')
    fn = m.find_method(List, 'invoke')
    chk.analysed(fn)

    def heap(cls):
        table = {}
        for i, nme in enumerate(enum):
            table[nme] = A.Obj('counter:%s' % nme, {'name': nme, 'resetby': (enum[i - 1] if i else None), 'value': 3 + i, 'counters': table}, cls=Counter)
        ctx = A.Obj('context', {'counters': table})
        me = A.Obj('macro', {'ownerDocument': A.Obj('document', {'context': ctx})}, cls=cls)
        return me, table

    def run(f, cls, env):
        h = SelfHooks(m, cls)
        h.keep = lambda ev: False
        h.lookup = lambda interp, nm, state: None
        h.should_inline = lambda fname, node, info: info is None or info.cls is Counter or A.private_only(fname, node, info)
        it = A.Interp(model=m, scope=f, hooks=h, max_iter=8, exc_edges=False, inline=7, heap=True, precise_exc=True)
        outs = it.run_function(f, env=env)
        chk.paths += len(outs)
        return outs
    for mode, delta in (('MODE_BEGIN', 1), ('MODE_END', -1)):
        for d0 in ((0, 1, 2, 3) if delta == 1 else (1, 2, 3, 4)):
            me, table = heap(List)
            me.attrs['macroMode'] = m.class_const(Macro, mode)
            outs = run(fn, List, {'self': me, '__table': table, 'List.depth': d0, 'tex': A.Sym('tex', truthy=True)})
            got = set()
            for kind, s2, v in outs:
                t = s2.env['__table']
                got.add((kind, s2.env.get('List.depth') if A.is_concrete(s2.env.get('List.depth')) else 'TOP',
                         tuple(t[nme].attrs['value'] if A.is_concrete(t[nme].attrs['value']) else 'TOP' for nme in enum)))
            d1 = d0 + delta
            want = ('return', d1, tuple(0 if i >= d1 else 3 + i for i in range(4)))
            chk.decide(R, 'List.invoke %s at depth %d' % ('\\begin' if delta == 1 else '\\end', d0), {repr(g) for g in got}, {repr(want)},
                       'List.invoke (%s) with List.depth=%d gives (outcome, depth, enumi..enumiv) = %s; expected %s'
                       % (mode, d0, sorted(got, key=repr), want), chk.where(fn))
    item = m.func(Lists, 'List.item.invoke')
    chk.analysed(item)
    icls = List.nested['item']
    for d in (1, 2, 3, 4):
        me, table = heap(icls)
        outs = run(item, icls, {'self': me, '__table': table, 'List.depth': d, 'tex': A.Sym('tex', truthy=True)})
        got = {(kind, s2.env['self'].attrs.get('counter'), s2.env['self'].attrs.get('position')) for kind, s2, v in outs}
        got = {tuple(x if A.is_concrete(x) else 'TOP' for x in g) for g in got}
        want = ('return', enum[d - 1], 3 + d - 1 + 1)
        chk.decide(R, 'item.invoke at depth %d' % d, {repr(g) for g in got}, {repr(want)},
                   '\\item at list depth %d gets (outcome, counter, position) = %s; expected %s' % (d, sorted(got, key=repr), want), chk.where(item))


ROMAN = [(1000, 'M'), (900, 'CM'), (500, 'D'), (400, 'CD'), (100, 'C'), (90, 'XC'), (50, 'L'), (40, 'XL'), (10, 'X'), (9, 'IX'), (5, 'V'), (4, 'IV'), (1, 'I')]


def roman(n):
    out = ''
    for v, sym in ROMAN:
        while n >= v:
            out += sym
            n -= v
    return out


def r85(chk, m):
    R = chk.rule('R8.5', 'representations, by evaluating the functions over their domain (constant folding of a pure function): '
                 'numToRoman(n) is the standard roman numeral (quick tier: 1..120, every value within 2 of a multiple of 50, '
                 'x9/x4 patterns and the longest numerals; thorough tier: every value 1..4999); Alph/alph index the alphabet at '
                 'value-1; roman/alph are the lower-case forms; arabic is str(value)', 14)
    fn = m.func_or_none('plasTeX', 'numToRoman')
    need(fn is not None, 'numToRoman not found')
    chk.analysed(fn)
    if chk.tier == 'thorough':
        values = list(range(1, 5000))
    else:
        values = sorted(set(list(range(1, 121)) + [v + d for v in range(50, 5000, 50) for d in (-2, -1, 0, 1, 2)] +
                            [3888, 2888, 1888, 4888, 3999, 4999, 1994, 2444, 1666, 949, 499, 999, 1499, 4444, 3333]))
        values = [v for v in values if 1 <= v <= 4999]
    h = A.Hooks()
    h.keep = lambda ev: False
    h.should_inline = A.private_only
    bad = []
    undet = []
    groups = {}
    for v in values:
        it = A.Interp(model=m, scope=fn, hooks=h, max_iter=8, exc_edges=False, inline=2, max_states=2000)
        outs = it.run_function(fn, env={'x': v})
        res = {r for kind, s2, r in outs if kind == 'return' and isinstance(r, str)}
        if len(outs) != 1 or len(res) != 1:
            undet.append(v)
        elif res != {roman(v)}:
            bad.append((v, sorted(res)[0], roman(v)))
        groups.setdefault(v // 500, []).append(v)
    chk.paths += len(values)
    for g, vs in sorted(groups.items()):
        b = [x for x in bad if x[0] in vs]
        u = [x for x in undet if x in vs]
        key = 'numToRoman %d..%d' % (g * 500 if g else 1, g * 500 + 499)
        if u and not b:
            chk.undecided(R, key, 'numToRoman is not determined for %s' % u[:8], chk.where(fn))
        else:
            chk.verdict(R, key, not b, 'numToRoman gives %s (value, got, standard numeral)' % b[:6], chk.where(fn), '%d values' % len(vs))
    Counter = m.cls('plasTeX', 'Counter')

    class LH(SelfHooks):
        def call(self, interp, node, fname, args, kwargs, state):
            if fname.endswith('stringletters') and not args:
                return 'abcdefghijklmnopqrstuvwxyz'
            if fname == 'numToRoman' and len(args) == 1 and isinstance(args[0], int):
                return roman(args[0])
            return None

        def keep(self, ev):
            return False
    for prop, f_want in (('Alph', lambda v: 'ABCDEFGHIJKLMNOPQRSTUVWXYZ'[v - 1]), ('alph', lambda v: 'abcdefghijklmnopqrstuvwxyz'[v - 1]),
                         ('Roman', roman), ('roman', lambda v: roman(v).lower()), ('arabic', str)):
        need(m.find_attr_class(Counter, prop) is not None, 'Counter.%s not found' % prop)
        getter = Counter.properties.get(prop, {}).get('get') or Counter
        chk.analysed(getter)
        vals = (1, 2, 13, 25, 26) if 'lph' in prop else (1, 4, 9, 14, 40, 1994)
        got = {}
        for v in vals:
            # the attribute is read on a counter object, however the class provides it (@property, property(...), a plain method call)
            hk = LH(m, Counter)
            hk.lookup = lambda interp, nm, state: None
            any_fn = next(iter(Counter.methods.values()))
            it = A.Interp(model=m, scope=any_fn, hooks=hk, max_iter=4, exc_edges=False, inline=4, heap=True, precise_exc=True)
            st = A.State({'self': A.Obj('counter', {'value': v, 'name': 'c'}, cls=Counter)})
            expr = ast.parse('self.%s' % prop, mode='eval').body
            try:
                r = it.ev(expr, st)
            except AnalysisError:
                r = A.TOP
            got[v] = [r if isinstance(r, str) and not it.imprecise and '__exc' not in st.env else 'TOP']
        want = {v: [f_want(v)] for v in vals}
        chk.decide(R, 'Counter.%s' % prop, {repr(sorted(got.items()))}, {repr(sorted(want.items()))},
                   'Counter.%s gives %s, expected %s' % (prop, got, want), chk.where(getter))


FACTORY_SAMPLE = """
import functools
@functools.lru_cache(maxsize=None)
def _cls(name, fmt):
    return type('the' + name, (object,), {'format': fmt})
"""


def cached_class_factories(tree):
    """Functions decorated with a memoising decorator that build classes with type(name, bases, dict)."""
    out = []
    for n in ast.walk(tree):
        if isinstance(n, (ast.FunctionDef, ast.AsyncFunctionDef)) and any(re.search(r'\b(lru_cache|cache|memoize|memoized)\b', text(d)) for d in n.decorator_list):
            if any(isinstance(c, ast.Call) and M.call_name(c) == 'type' and len(c.args) == 3 for c in ast.walk(n)):
                out.append(n)
    return out


def r89(chk, m, rule_id='R8.9'):
    R = chk.rule(rule_id, 'classes generated for a document (\\the<counter>, \\newif, \\newcommand ...) are built per call: no memoised '
                 'function (lru_cache / cache) returns a class made with type(): such a class would be shared by every later '
                 'document, and class packages patch its format in place', 1)
    need(len(cached_class_factories(ast.parse(FACTORY_SAMPLE))) == 1, 'self-test of the cached-class-factory rule failed')
    bad = []
    n = 0
    for mod in m.modules.values():
        if 'simpletal' in mod.name:
            continue
        n += 1
        for f in cached_class_factories(mod.tree):
            bad.append('%s.%s' % (mod.name, f.name))
    chk.verdict(R, 'no memoised class factory in the package', not bad,
                'memoised function(s) %s return classes built with type(): the class (and whatever a document class patches on it, e.g. '
                'article sets thesection.format) is shared by all later documents' % bad, bad[0] if bad else 'plasTeX', '%d modules scanned' % n)


def r86(chk, m):
    R = chk.rule('R8.6', '\\the<counter> interpreted on a heap with scripted counters: ${name} / $name substitute the arabic value, '
                 '${name.style} the named representation, ${thename} the text of that command; without a format the command prints '
                 'its own counter; trimLeft removes only leading "0." groups (chapter 0), never digits inside the number', 8)
    fn = m.func('plasTeX', 'TheCounter.invoke')
    chk.analysed(fn)
    TheCounter = m.cls('plasTeX', 'TheCounter')
    Counter = m.cls('plasTeX', 'Counter')

    class TH(A.Hooks):
        cls = TheCounter

        def keep(self, ev):
            return False

        def call(self, interp, node, fname, args, kwargs, state):
            last = fname.rsplit('.', 1)[-1]
            if last == 'textTokens' and len(args) == 1:
                return ['TXT:%s' % args[0]] if isinstance(args[0], str) else A.TOP
            if last == 'expandTokens' and args:
                v = args[0]
                if isinstance(v, list) and all(isinstance(x, str) for x in v):
                    return [x[4:] if x.startswith('TXT:') else x for x in v]
                return A.TOP
            if last == 'createElement' and len(args) == 1 and isinstance(args[0], str):
                made = state.env.get('__the', {})
                if args[0] in made:
                    return made[args[0]]
                # any other macro of that name (\\theorem for a counter called theorem): invoking it gives text that is no number
                return A.Obj('macro:' + args[0], {'invoke': A.Sym('extfunc:the.other.invoke', truthy=True), 'nodeName': args[0]})
            if fname == 'the.other.invoke':
                return ['TXT:<the macro of that name was invoked>']
            if fname.endswith('stringletters') and not args:
                return 'abcdefghijklmnopqrstuvwxyz'
            if fname == 'numToRoman' and len(args) == 1 and isinstance(args[0], int):
                return roman(args[0])
            if re.match(r'(log|status|\w+log)\.\w+$', fname):
                return A.NONE
            return None

    def the(name, fmt, doc, trim=False):
        return A.Obj(name, {'format': fmt, 'trimLeft': trim, 'nodeName': name, 'ownerDocument': doc,
                            '__class__': A.Obj('class:' + name, {'__name__': name})}, cls=TheCounter)

    def scenario(values, commands, which):
        counters = {k: A.Obj('counter:' + k, {'value': v, 'name': k}, cls=Counter) for k, v in values.items()}
        doc = A.Obj('document', {'context': A.Obj('context', {'counters': counters})})
        made = {name: the(name, fmt, doc, trim) for name, (fmt, trim) in commands.items()}
        h = TH()
        h.should_inline = lambda fname, node, info: True
        it = A.Interp(model=m, scope=fn, hooks=h, max_iter=12, exc_edges=False, inline=12, heap=True, precise_exc=True)
        outs = it.run_function(fn, env={'self': made[which], 'tex': A.Obj('tex', {}), '__the': made})
        if it.imprecise or it.unknown_branches:
            return None, '; '.join(sorted(set(list(it.imprecise) + list(it.unknown_branches)))[:3])
        return {(kind, repr(v)) for kind, s2, v in outs}, None
    V = {'chapter': 1, 'section': 2, 'subsection': 3, 'figure': 4, 'part': 14, 'item': 3}
    cases = [
        ('${name} gives the arabic value', V, {'thesection': ('${section}', False)}, 'thesection', '2'),
        ('$name without braces', V, {'thesection': ('$section', False)}, 'thesection', '2'),
        ('several counters and literal text', V, {'thesubsection': ('${section}.${subsection}', False)}, 'thesubsection', '2.3'),
        ('a named representation', V, {'thepart': ('${part.Roman}', False)}, 'thepart', 'XIV'),
        ('a lower-case representation', V, {'theitem': ('(${item.alph})', False)}, 'theitem', '(c)'),
        ('the text of another \\the command', V, {'thesubsection': ('${thesection}.${subsection}', False), 'thesection': ('${chapter}.${section}', False)},
         'thesubsection', '1.2.3'),
        ('no format: the own counter', V, {'thefigure': (None, False)}, 'thefigure', '4'),
        ('a counter whose own name begins with "the"', dict(V, theorem=6), {'thetheorem': ('${section}.${theorem}', False)}, 'thetheorem', '2.6'),
        ('no format, a counter whose own name begins with "the"', dict(V, thesis=9), {'thethesis': (None, False)}, 'thethesis', '9'),
        ('trimLeft with chapter 0', dict(V, chapter=0), {'thefigure': ('${chapter}.${figure}', True)}, 'thefigure', '4'),
        ('trimLeft with chapter 0 and section 0', dict(V, chapter=0, section=0), {'thefigure': ('${chapter}.${section}.${figure}', True)}, 'thefigure', '4'),
        ('trimLeft keeps 10.4', dict(V, chapter=10), {'thefigure': ('${chapter}.${figure}', True)}, 'thefigure', '10.4'),
        ('trimLeft keeps 1.0.4', dict(V, chapter=1, section=0), {'thefigure': ('${chapter}.${section}.${figure}', True)}, 'thefigure', '1.0.4'),
        ('without trimLeft 0.4 stays', dict(V, chapter=0), {'thefigure': ('${chapter}.${figure}', False)}, 'thefigure', '0.4'),
    ]
    for label, values, commands, which, want in cases:
        try:
            got, problem = scenario(values, commands, which)
        except AnalysisError as e:
            got, problem = None, str(e)
        if got is None:
            chk.undecided(R, label, problem, chk.where(fn))
            continue
        chk.decide(R, label, got, {('return', repr(['TXT:' + want]))},
                   '\\%s with format %r and counters %s prints %s; expected %r' % (which, commands[which][0], values, sorted(got), want), chk.where(fn))
