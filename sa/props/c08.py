"""C08 - Counters and automatic numbers follow LaTeX's numbering rules.

R8.1 reset tree agrees with the document hierarchy, R8.2 counter mutators
reach the transitive reset, R8.3 who steps and when, R8.4 list items,
R8.5 representation tables (roman numeral table, alph), R8.6 trimLeft only
removes a leading "0."."""
import ast
import re

from .. import absint as A
from .. import flow
from .. import model as M
from ..report import AnalysisError, need
from ..util import SelfHooks, text


def check(chk):
    m = chk.model
    r81(chk, m)
    r82(chk, m)
    r83(chk, m)
    r84(chk, m)
    r85(chk, m)
    r86(chk, m)
    from . import shared
    shared.cache_rules(chk, m, 'R8.7')
    chk.decline('the numbers of a whole generated document (running computation over the document history)')


def newcounter_calls(fn):
    out = {}
    for c in M.calls_in(fn.node):
        if M.call_name(c).endswith('newcounter') and c.args and isinstance(c.args[0], ast.Constant):
            kw = {k.arg: (k.value.value if isinstance(k.value, ast.Constant) else text(k.value)) for k in c.keywords}
            if len(c.args) > 1 and isinstance(c.args[1], ast.Constant):
                kw.setdefault('resetby', c.args[1].value)
            out[c.args[0].value] = kw
    return out


def r81(chk, m):
    R = chk.rule('R8.1', 'reset tree agrees with the hierarchy: each sectioning counter is reset by the counter of the next outer '
                 'unit, equation/figure/table by chapter, enum counters chain; nested formats are ${the<resetby>}.${<self>}', 18)
    fn = m.module('plasTeX.Packages.book').functions.get('ProcessOptions')
    need(fn is not None, 'book.ProcessOptions not found')
    chk.analysed(fn)
    nc = newcounter_calls(fn)
    sec = 'plasTeX.Base.LaTeX.Sectioning'
    units = ['part', 'chapter', 'section', 'subsection', 'subsubsection', 'paragraph', 'subparagraph', 'subsubparagraph']
    lvl = {}
    for u in units:
        c = m.cls(sec, u)
        lvl[u] = m.class_const(c, 'level')
        cnt = m.class_const(c, 'counter')
        chk.verdict(R, '\\%s uses counter %s' % (u, u), cnt == u, '\\%s has counter %r' % (u, cnt), chk.where(c), str(cnt))
    order = sorted(units, key=lambda u: lvl[u])
    chk.verdict(R, 'sectioning units ordered by level', order == units, 'levels give the order %s' % order, sec)
    for i, u in enumerate(units):
        want = 'volume' if u in ('part', 'chapter') else units[i - 1]
        got = nc.get(u, {}).get('resetby')
        chk.verdict(R, 'counter %s reset by %s' % (u, want), got == want,
                    'counter %s is declared with resetby=%r; LaTeX resets it whenever %s is stepped' % (u, got, want), chk.where(fn), str(got))
        fmt = nc.get(u, {}).get('format')
        if u in ('part', 'chapter'):
            okf = fmt in ('$%s' % u, '${%s}' % u)
        else:
            okf = fmt == '${the%s}.${%s}' % (want, u)
        chk.verdict(R, 'format of the%s' % u, okf, 'the%s has format %r' % (u, fmt), chk.where(fn), str(fmt))
    for c2 in ('equation', 'figure', 'table'):
        got = nc.get(c2, {})
        chk.verdict(R, 'counter %s reset by chapter' % c2, got.get('resetby') == 'chapter' and got.get('format') == '${thechapter}.${%s}' % c2,
                    'counter %s declared as %r' % (c2, got), chk.where(fn), str(got))
    enum = ['enumi', 'enumii', 'enumiii', 'enumiv']
    List = m.cls('plasTeX.Base.LaTeX.Lists', 'List')
    chk.verdict(R, 'List.counters order', m.class_const(List, 'counters') == enum, 'List.counters = %r' % (m.class_const(List, 'counters'),), chk.where(List))
    for i, e in enumerate(enum):
        want = None if i == 0 else enum[i - 1]
        got = nc.get(e, {}).get('resetby')
        chk.verdict(R, 'counter %s reset by %s' % (e, want), e in nc and got == want, 'counter %s declared with resetby=%r' % (e, got), chk.where(fn), str(got))
    # the only format overrides
    rep = m.module('plasTeX.Packages.report').functions.get('ProcessOptions')
    art = m.module('plasTeX.Packages.article').functions.get('ProcessOptions')
    for f, wanted in ((rep, {"document.context['theequation'].format": "'${equation}'"}),
                      (art, {"document.context['thesection'].format": "'${section}'"})):
        chk.analysed(f)
        fm = {text(n.targets[0]): text(n.value) for n in M.walk_no_nested(f.node) if isinstance(n, ast.Assign) and text(n.targets[0]).endswith('.format')}
        chk.verdict(R, '%s format overrides' % f.module.name, fm == wanted, '%s overrides formats %s, expected %s' % (f.module.name, fm, wanted), chk.where(f), str(fm))
    # newcounter wiring
    ncf = m.func('plasTeX.Context', 'Context.newcounter')
    chk.analysed(ncf)
    src = text(ncf.node)
    ok = 'plasTeX.Counter(self, name, resetby, initial)' in src and "'format': format" in src and "'trimLeft': trimLeft" in src \
        and "format = '${%s}' % name" in src
    chk.verdict(R, 'Context.newcounter wiring', ok, 'newcounter must create Counter(self, name, resetby, initial) and the<name> with format/trimLeft', chk.where(ncf))


def r82(chk, m):
    R = chk.rule('R8.2', 'stepcounter/setcounter/addtocounter change the value and then reach resetcounters on every path; '
                 'resetcounters zeroes every counter whose resetby equals this name and recurses on it - under no other condition', 7)
    Counter = m.cls('plasTeX', 'Counter')
    for name, expr in (('stepcounter', ('aug', 'Add', 1)), ('setcounter', ('set', None, None)), ('addtocounter', ('aug', 'Add', None))):
        fn = m.find_method(Counter, name)
        chk.analysed(fn)

        def transfer(n, v):
            changed, reset = v
            if isinstance(n, (ast.Assign, ast.AugAssign)) and text(n.targets[0] if isinstance(n, ast.Assign) else n.target) == 'self.value':
                changed = True
            if isinstance(n, ast.Call) and M.call_name(n) == 'self.resetcounters':
                reset = changed
            return (changed, reset)
        normal, raised = flow.function_exits(fn.node, (False, False), transfer)
        chk.verdict(R, 'Counter.%s -> resetcounters' % name, normal == {(True, True)},
                    'Counter.%s exits with (value changed, reset after the change) in %s' % (name, sorted(normal)), chk.where(fn))
        stm = [n for n in M.walk_no_nested(fn.node) if isinstance(n, (ast.Assign, ast.AugAssign))]
        if name == 'stepcounter':
            ok = len(stm) == 1 and isinstance(stm[0], ast.AugAssign) and isinstance(stm[0].op, ast.Add) and text(stm[0].value) == '1'
        elif name == 'setcounter':
            ok = len(stm) == 1 and isinstance(stm[0], ast.Assign) and text(stm[0].value) in ('int(other)', 'other')
        else:
            ok = len(stm) == 1 and isinstance(stm[0], ast.AugAssign) and isinstance(stm[0].op, ast.Add) and text(stm[0].value) in ('int(other)', 'other')
        chk.verdict(R, 'Counter.%s arithmetic' % name, ok, 'Counter.%s updates the value by %s' % (name, [text(s) for s in stm]), chk.where(fn))
    fn = m.find_method(Counter, 'resetcounters')
    chk.analysed(fn)
    loops = [n for n in M.walk_no_nested(fn.node) if isinstance(n, ast.For)]
    need(len(loops) == 1, 'Counter.resetcounters: loop not found')
    loop = loops[0]
    it_src = text(loop.iter).replace(' ', '')
    chk.verdict(R, 'resetcounters visits every counter', it_src in ('list(self.counters.values())', 'self.counters.values()'),
                'resetcounters iterates over %s' % text(loop.iter), chk.where(fn))
    results = {}
    for label, resetby, value in (('dependent counter, value 3', 'X', 3), ('dependent counter already 0', 'X', 0),
                                  ('dependent counter, value unknown', 'X', A.TOP),
                                  ('independent counter', 'Y', 3), ('counter without resetby', None, 3)):
        cnt = A.Sym('CNT', truthy=True, attrs={'resetby': resetby, 'value': value, 'name': 'C'})
        h = A.Hooks()
        h.keep = lambda ev: ev[0] in ('setattr', 'call')
        it = A.Interp(model=m, scope=fn, hooks=h, max_iter=1, exc_edges=False)
        outs = it.block(loop.body, [A.State({text(loop.target): cnt, 'self.name': 'X'})])
        acts = set()
        for kind in ('fall', 'continue', 'break'):
            for s, v in outs.get(kind, []):
                zero = any(e[0] == 'setattr' and e[1] == 'counter.value' and e[2] == 0 for e in s.trace)
                rec = any(e[0] == 'call' and e[1] == 'counter.resetcounters' for e in s.trace)
                acts.add((zero, rec, kind))
        results[label] = acts
        want = {(True, True, 'fall')} if resetby == 'X' else {(False, False, 'fall')}
        chk.verdict(R, 'resetcounters: %s' % label, acts == want,
                    'for a %s (resetby=%r, this counter "X") the loop body does (zeroed, recursed, exit) = %s; expected %s: '
                    'the reset must be transitive and depend only on the declaration' % (label, resetby, sorted(acts), sorted(want)),
                    chk.where(fn, loop), str(sorted(acts)))


def r83(chk, m):
    R = chk.rule('R8.3', 'who steps and when: the three hooks preParse/preArgument/postArgument partition the signature shapes so '
                 'that refstepcounter runs exactly once; a present * clears the counter before stepping; refstepcounter sets the '
                 'current label before stepping; postParse computes the number only down to the numbering depth; \\nonumber '
                 'compensates', 9)
    Macro = m.cls('plasTeX', 'Macro')

    def count(fn, env):
        h = SelfHooks(m, Macro)
        h.keep = lambda ev: ev[0] in ('call', 'setattr')
        it = A.Interp(model=m, scope=fn, hooks=h, max_iter=1, exc_edges=False)
        outs = it.run_function(fn, env=env)
        res = set()
        for kind, s, v in outs:
            if kind != 'return':
                continue
            steps = [e for e in s.trace if e[0] == 'call' and e[1] == 'self.refstepcounter']
            cleared = [e for e in s.trace if e[0] == 'setattr' and e[1] == 'self.counter']
            order_ok = True
            if cleared and steps:
                order_ok = s.trace.index(cleared[0]) < s.trace.index(steps[0])
            res.add((len(steps), tuple(repr(e[2]) for e in cleared), order_ok))
        return res
    pre, prearg, postarg = (m.find_method(Macro, n) for n in ('preParse', 'preArgument', 'postArgument'))
    for f in (pre, prearg, postarg):
        chk.analysed(f)
    arg = lambda idx, name: A.Sym('ARG', truthy=True, attrs={'index': idx, 'name': name})
    shapes = [
        ('no arguments', [(pre, {'self.args': ''})], 1, ()),
        ('first argument ordinary', [(pre, {'self.args': 'title'}), (prearg, {'arg': arg(0, 'title')}), (postarg, {'arg': arg(0, 'title'), 'value': A.TOP})], 1, ()),
        ('first argument * present', [(pre, {'self.args': '* title'}), (prearg, {'arg': arg(0, '*modifier*')}), (postarg, {'arg': arg(0, '*modifier*'), 'value': True})], 1, ("''",)),
        ('first argument * absent', [(pre, {'self.args': '* title'}), (prearg, {'arg': arg(0, '*modifier*')}), (postarg, {'arg': arg(0, '*modifier*'), 'value': None})], 1, ()),
        ('later argument', [(prearg, {'arg': arg(1, 'title')}), (postarg, {'arg': arg(1, 'title'), 'value': A.TOP})], 0, ()),
        ('later * argument', [(prearg, {'arg': arg(2, '*modifier*')}), (postarg, {'arg': arg(2, '*modifier*'), 'value': True})], 0, ()),
    ]
    for label, calls, want_steps, want_clear in shapes:
        total = 0
        clears = ()
        ok = True
        detail = []
        for f, env in calls:
            r = count(f, env)
            detail.append((f.name, sorted(r)))
            if len(r) != 1:
                ok = False
                continue
            (n, cl, order_ok), = r
            total += n
            clears += cl
            ok = ok and order_ok
        chk.verdict(R, 'stepping: %s' % label, ok and total == want_steps and clears == want_clear,
                    'signature shape "%s": refstepcounter runs %d time(s) (expected %d), counter cleared %s (expected %s): %s'
                    % (label, total, want_steps, clears, want_clear, detail), chk.where(pre), 'steps=%d' % total)
    rs = m.find_method(Macro, 'refstepcounter')
    chk.analysed(rs)

    def tr(n, v):
        cur, step = v
        if isinstance(n, ast.Assign) and text(n.targets[0]).endswith('context.currentlabel') and text(n.value) == 'self':
            cur = True
        if isinstance(n, ast.Call) and M.call_name(n) == 'self.stepcounter':
            step = 'after-label' if cur else 'before-label'
        return (cur, step)
    normal, raised = flow.function_exits(rs.node, (False, None), tr)
    chk.verdict(R, 'refstepcounter sets the current label, then steps', normal == {(False, None), (True, 'after-label')},
                'refstepcounter exits with (label set, step) in %s' % sorted(map(str, normal)), chk.where(rs))
    guard = [text(n.test) for n in M.walk_no_nested(rs.node) if isinstance(n, ast.If)]
    chk.verdict(R, 'refstepcounter acts iff a counter is declared', guard == ['self.counter is not None'], 'guard %s' % guard, chk.where(rs))
    pp = m.find_method(Macro, 'postParse')
    chk.analysed(pp)
    conds = [text(n.test).replace(' ', '') for n in M.walk_no_nested(pp.node) if isinstance(n, ast.If)]
    ok = conds[:1] == ['self.counter'] and any(c in ('secnumdepth>=self.levelorself.level>self.ENDSECTIONS_LEVEL',) for c in conds)
    chk.verdict(R, 'postParse numbers only down to secnumdepth', ok,
                'postParse guards the number by %s; expected `self.counter` and `secnumdepth >= self.level or self.level > ENDSECTIONS_LEVEL`' % conds, chk.where(pp))
    non = m.func('plasTeX.Base.LaTeX.Math', 'nonumber.invoke')
    chk.analysed(non)
    calls = [text(c) for c in M.calls_in(non.node) if M.call_name(c).endswith('addtocounter')]
    chk.verdict(R, '\\nonumber compensates with -1', calls == ["self.ownerDocument.context.counters['equation'].addtocounter(-1)"],
                '\\nonumber does %s' % calls, chk.where(non))
    er = m.cls('plasTeX.Base.LaTeX.Math', 'eqnarray').nested['EndRow']
    chk.verdict(R, 'eqnarray rows step the equation counter', m.class_const(er, 'counter') == 'equation' and
                m.class_const(m.cls('plasTeX.Base.LaTeX.Math', 'eqnarray'), 'counter') == 'equation' and
                m.class_const(m.cls('plasTeX.Base.LaTeX.Math', 'equation'), 'counter') == 'equation',
                'equation/eqnarray/eqnarray.EndRow must use the equation counter', chk.where(er))


def r84(chk, m):
    R = chk.rule('R8.4', 'list items: List.invoke zeroes the counters of deeper levels; item.invoke selects List.counters[depth-1]', 2)
    fn = m.func('plasTeX.Base.LaTeX.Lists', 'List.invoke')
    chk.analysed(fn)
    loops = [n for n in M.walk_no_nested(fn.node) if isinstance(n, ast.For)]
    ok = len(loops) == 1 and text(loops[0].iter).replace(' ', '') == 'range(List.depth,len(List.counters))' and \
        'counters[List.counters[i]].setcounter(0)' in text(loops[0])
    chk.verdict(R, 'List.invoke resets deeper counters', ok, 'List.invoke must reset counters[List.counters[i]] for i in range(depth, len)', chk.where(fn))
    it = m.func('plasTeX.Base.LaTeX.Lists', 'List.item.invoke')
    chk.analysed(it)
    src = text(it.node).replace(' ', '')
    chk.verdict(R, 'item.invoke selects the counter of its depth', 'self.counter=List.counters[List.depth-1]' in src,
                'item.invoke must select List.counters[List.depth - 1]', chk.where(it))


ROMAN = [(900, 'CM'), (500, 'D'), (400, 'CD'), (100, 'C'), (90, 'XC'), (50, 'L'), (40, 'XL'), (10, 'X'), (9, 'IX'), (5, 'V'), (4, 'IV'), (1, 'I')]


def r85(chk, m):
    R = chk.rule('R8.5', 'representation tables: the (threshold, symbol, subtrahend) steps of numToRoman are the standard roman '
                 'table in descending order with inclusive thresholds; thousands by divmod 1000; alph indexes letters[value-1]', 14)
    fn = m.module('plasTeX').functions.get('numToRoman')
    need(fn is not None, 'numToRoman not found')
    chk.analysed(fn)
    steps = []
    for st in fn.node.body:
        if isinstance(st, (ast.If, ast.While)) and isinstance(st.test, ast.Compare) and len(st.test.ops) == 1:
            op = st.test.ops[0]
            thr = m.eval_const(fn, st.test.comparators[0])
            var = text(st.test.left)
            sym = sub = None
            for b in st.body:
                if isinstance(b, ast.Assign) and isinstance(b.value, ast.BinOp):
                    if isinstance(b.value.op, ast.Add) and isinstance(b.value.right, ast.Constant) and isinstance(b.value.right.value, str):
                        sym = b.value.right.value
                    if isinstance(b.value.op, ast.Sub) and text(b.value.left) == var:
                        sub = m.eval_const(fn, b.value.right)
            # inclusive threshold:  x >= t   or   x > t-1
            if isinstance(op, ast.GtE):
                lo = thr
            elif isinstance(op, ast.Gt):
                lo = thr + 1
            else:
                lo = None
            steps.append((lo, sym, sub, type(st).__name__))
    got = [(lo, sym) for lo, sym, sub, kind in steps]
    for i, (thr, sym) in enumerate(ROMAN):
        ok = i < len(steps) and steps[i][0] == thr and steps[i][1] == sym and steps[i][2] == thr
        kind_ok = i < len(steps) and (steps[i][3] == 'While' or sym in ('CM', 'CD', 'XC', 'XL', 'IX', 'IV'))
        chk.verdict(R, 'roman step %d: %s' % (thr, sym), ok and kind_ok,
                    'step %d of numToRoman is %s, the roman table needs (%d, %r, subtract %d)%s'
                    % (i, steps[i] if i < len(steps) else None, thr, sym, thr, '' if kind_ok else ' repeated while it applies'), chk.where(fn),
                    str(steps[i] if i < len(steps) else None))
    src = text(fn.node)
    chk.verdict(R, 'roman thousands', 'divmod(x, 1000)' in src and re.search(r"roman = ['\"]M['\"] \* n", src) is not None and len(steps) == len(ROMAN),
                'thousands must be M * (x // 1000) and there must be exactly %d steps (found %d)' % (len(ROMAN), len(steps)), chk.where(fn))
    Counter = m.cls('plasTeX', 'Counter')
    al = Counter.properties['Alph']['get']
    chk.analysed(al)
    ok = 'stringletters()[self.value - 1].upper()' in text(al.node)
    lower = 'self.Alph.lower()' in text(Counter.properties['alph']['get'].node) and 'self.Roman.lower()' in text(Counter.properties['roman']['get'].node)
    chk.verdict(R, 'alph/Alph/roman derive from one table', ok and lower, 'Alph must index letters[value-1]; alph/roman are the lower-case forms', chk.where(al))


def r86(chk, m):
    R = chk.rule('R8.6', 'trimLeft removes only a leading "0." (chapter 0), never digits inside the number; formatted values '
                 'substitute ${counter} / ${counter.format} / nested ${thecounter}', 2)
    fn = m.func('plasTeX', 'TheCounter.invoke')
    chk.analysed(fn)
    blk = [n for n in M.walk_no_nested(fn.node) if isinstance(n, ast.If) and text(n.test) == 'self.trimLeft']
    need(len(blk) == 1, 'TheCounter.invoke: trimLeft block not found')
    src = ' '.join(text(s) for s in blk[0].body)
    good = re.search(r"while t\.startswith\(['\"]0\.['\"]\): t = t\[2:\]", src.replace('\n', ' ')) is not None or \
        re.search(r"re\.sub\(r?['\"]\^\(\?:0\\\.\)\+['\"]|re\.sub\(r?['\"]\^\(0\\\.\)\+['\"]", src) is not None
    bad = ('re.sub' in src and '^' not in src) or '.replace(' in src or '.lstrip(' in src or '.strip(' in src
    if not good and not bad:
        raise AnalysisError('TheCounter.invoke: unrecognised trimLeft idiom (%s): re-confirm R8.6 by hand' % src)
    chk.verdict(R, 'trimLeft is anchored at the start', good and not bad,
                'trimLeft is implemented as %r: it must only strip "0." at the very start (10.1 must stay 10.1)' % src, chk.where(fn, blk[0]))
    s2 = text(fn.node)
    ok = "getattr(self.ownerDocument.context.counters[name], format)" in s2 and "format = 'arabic'" in s2 and "name.startswith('the')" in s2
    chk.verdict(R, 'counter format substitution', ok, 'TheCounter.invoke must substitute counter values through the named representation (default arabic)', chk.where(fn))
